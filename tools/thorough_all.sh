#!/bin/sh
# runs the thorough tier of every property and prints verdict lines, every SELFTEST-DEGRADED line and the battery summary
cd /verif
for i in $(seq -w 1 20); do
  ./check C$i thorough 2>&1 | grep -E "^resverif|^VIOLATION|SELFTEST-DEGRADED"
  python3 - C$i <<'PY'
import json,sys
d=json.load(open('/verif/evidence/%s.json'%sys.argv[1]))
st=None
def find(o):
    global st
    if isinstance(o,dict):
        if 'summary' in o and 'patches' in o: st=o
        for v in o.values(): find(v)
    elif isinstance(o,list):
        for v in o: find(v)
find(d)
if st: print("   battery:", st['patches'], st['summary'])
PY
done
