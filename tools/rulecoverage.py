#!/usr/bin/env python3
"""Lists the rules (per property) that no seeded change and no hand-written mutant makes fail.
A rule without a positive example passes vacuously for ever; every rule should appear in some
seeded/<name>/meta.json (failing_obligations_with_change) or in a mutant's '# expect:' header.
Needs reports/<id>.quick.txt (written by ./check <id> quick)."""
import json, glob, re, collections, sys, os
os.chdir(os.path.dirname(os.path.abspath(__file__)) + "/..")
fired = collections.defaultdict(set)
for f in glob.glob('seeded/C*/meta.json'):
    m = json.load(open(f))
    for k in m.get('failing_obligations_with_change', []):
        parts = k.split('/')
        if len(parts) >= 2:
            fired[parts[0]].add(parts[1])
for f in glob.glob('mutants/C*/*.patch') + glob.glob('mutants/_all/*.patch'):
    prop = f.split('/')[1]
    for line in open(f):
        if not line.startswith('#'):
            break
        m = re.match(r'# expect: (.*)', line)
        if m:
            for k in m.group(1).split():
                parts = k.strip('/').split('/')
                if len(parts) >= 2:
                    fired[parts[0]].add(parts[1])
                elif len(parts) == 1 and prop.startswith('C'):
                    fired[prop].add(parts[0])
rules = collections.defaultdict(set)
for f in glob.glob('reports/C*.quick.txt'):
    pid = re.search(r'(C\d+)\.quick', f).group(1)
    for line in open(f):
        m = re.match(r'\s+([A-Z]\d+) \[instances=', line)
        if m:
            rules[pid].add(m.group(1))
bad = 0
for pid in sorted(rules):
    miss = sorted(rules[pid] - fired[pid])
    bad += len(miss)
    print(pid, len(rules[pid]), 'rules;', 'without a positive example:', miss if miss else 'none')
sys.exit(1 if bad else 0)
