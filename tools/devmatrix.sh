#!/bin/bash
# usage: devmatrix.sh [-j N] [glob]  — own-property check of every seeded change (default seeded/C*) with the
# development build /tmp/rv-dev on scratch copies under /tmp/dm (neither /repo nor /verif/bin is touched).
J=6
if [ "$1" = "-j" ]; then J=$2; shift 2; fi
G=${1:-'C*'}
mkdir -p /tmp/dm
one() {
  d=$1; n=$(basename $d); id=${n%%-*}
  T=/tmp/dm/$n; V=/tmp/dm/$n-verif
  rm -rf $T $V; mkdir -p $T $V; cp /verif/known_findings.txt $V/
  git -C /repo archive HEAD | tar -x -C $T
  ( cd $T && patch -p1 -s < /verif/seeded/$n/patch.diff ) || { echo "$n => PATCH-FAILED"; rm -rf $T $V; return; }
  out=$(/tmp/rv-dev -property $id -tier quick -repo $T -verif $V 2>&1)
  if echo "$out" | grep -q '^VIOLATION'; then
    echo "$n => CAUGHT $(echo "$out" | grep -E '^  (violated|unresolved|undecided)' | head -1 | cut -c1-150)"
  else
    echo "$n => MISSED"
  fi
  rm -rf $T $V
}
export -f one
ls -d /verif/seeded/$G/ | xargs -P $J -I{} bash -c 'one {}' | sort
