#!/bin/sh
# usage: devbattery.sh [Cxx ...] — thorough tier (mutant / refactor battery) of the development build /tmp/rv-dev
# against a scratch copy of /repo's committed tree; evidence goes to /tmp/devverif, nothing under /verif or /repo is touched.
T=/tmp/cleantree; V=/tmp/devverif
rm -rf $T; mkdir -p $T; git -C /repo archive HEAD | tar -x -C $T
rm -rf $V; mkdir -p $V; ln -s /verif/mutants $V/mutants; cp /verif/known_findings.txt $V/
PROPS="$*"; [ -z "$PROPS" ] && PROPS=$(seq -f 'C%02g' 1 20)
for id in $PROPS; do
  /tmp/rv-bat -property $id -tier thorough -repo $T -verif $V 2>&1 | grep -E "^resverif|^VIOLATION|SELFTEST-DEGRADED" | cut -c1-400
done
