#!/bin/bash
# usage: confirm_seed.sh <name> <outdir> <demo-dest-dir-rel> <pkg> <run-regex> <property> [base-commit]
# Confirms a seeded change in a scratch worktree: demo passes without the change; with the change the tree builds,
# the existing suite passes (demo excluded) and the demo fails. Stores it under /verif/seeded/<name>/.
set -u
NAME=$1; OUT=$2; DEST=$3; PKG=$4; RUN=$5; PROP=$6; BASE=${7:-HEAD}
export GOFLAGS=-mod=mod GOPROXY=off GOSUMDB=off GOTOOLCHAIN=local
W=/tmp/confirm/$NAME
rm -rf $W; mkdir -p /tmp/confirm
git -C /repo worktree add --detach -q $W $BASE || exit 2
cd $W
demos=$(ls $OUT/*_test.go)
cp $demos $DEST/
echo "--- demo WITHOUT change"; go test ${EXTRA:-} -vet=off -count=1 -timeout 300s -run "$RUN" $PKG > /tmp/confirm/$NAME.without.log 2>&1; R_WITHOUT=$?; tail -3 /tmp/confirm/$NAME.without.log
for f in $demos; do rm $DEST/$(basename $f); done
git apply $OUT/patch.diff; R_APPLY=$?
echo "--- build+suite WITH change"; go build ./... > /tmp/confirm/$NAME.suite.log 2>&1; R_BUILD=$?
go test -vet=off -count=1 ./... >> /tmp/confirm/$NAME.suite.log 2>&1; R_SUITE=$?; grep -v "no test files" /tmp/confirm/$NAME.suite.log | tail -5
cp $demos $DEST/
echo "--- demo WITH change"; go test ${EXTRA:-} -vet=off -count=1 -timeout 300s -run "$RUN" $PKG > /tmp/confirm/$NAME.with.log 2>&1; R_WITH=$?; tail -5 /tmp/confirm/$NAME.with.log
cd /; git -C /repo worktree remove --force $W
echo "apply=$R_APPLY build=$R_BUILD suite=$R_SUITE demo_without=$R_WITHOUT demo_with=$R_WITH"
if [ $R_APPLY = 0 ] && [ $R_BUILD = 0 ] && [ $R_SUITE = 0 ] && [ $R_WITHOUT = 0 ] && [ $R_WITH != 0 ]; then
  D=/verif/seeded/$NAME; mkdir -p $D; cp $OUT/patch.diff $D/; cp $demos $D/; cp $OUT/README.md $D/README.agent.md
  python3 - "$NAME" "$PROP" "$DEST" "$PKG" "$RUN" "$(git -C /repo rev-parse --short $BASE)" <<'PY'
import json,sys,os
name,prop,dest,pkg,run,base=sys.argv[1:7]
d='/verif/seeded/'+name
meta={"name":name,"breaks_property":prop,"base_commit":base,
 "demo":{"copy_to":dest,"run":"go test -vet=off -count=1 -run '%s' %s"%(run,pkg)},
 "confirmed":{"applies":True,"builds":True,"existing_suite_passes_with_change":True,"demo_passes_without_change":True,"demo_fails_with_change":True,
   "how":"tools/confirm_seed.sh in a scratch worktree of /repo at base_commit (removed afterwards)"},
 "needs_to_manifest":"see README.agent.md (written by the independent sub-agent)","caught_by":[]}
if os.path.exists(d+'/meta.json'):
    old=json.load(open(d+'/meta.json')); meta["caught_by"]=old.get("caught_by",[]); meta["needs_to_manifest"]=old.get("needs_to_manifest",meta["needs_to_manifest"])
json.dump(meta,open(d+'/meta.json','w'),indent=1)
PY
  echo "CONFIRMED -> $D"
else
  echo "NOT CONFIRMED"
fi
