#!/bin/bash
# Runs every registered check against every seeded change (applied to /repo, undone afterwards)
# and rewrites caught_by in each seeded/<name>/meta.json.
cd /verif
for d in seeded/C*/; do
  n=$(basename $d)
  out=$(tools/tryseed.sh /verif/$d/patch.diff 2>&1)
  caught=$(echo "$out" | grep -E '^== C[0-9]+: CAUGHT' | sed -E 's/^== (C[0-9]+): CAUGHT/\1/' | tr '\n' ' ')
  keys=$(echo "$out" | grep -E '^  (violated|unresolved|undecided): ' | sed -E 's/^  [a-z]+: ([^ ]+) at.*/\1/' | sort -u | tr '\n' '|')
  echo "$n => ${caught:-MISSED}"
  python3 - "$d/meta.json" "$caught" "$keys" <<'PY'
import json,sys
p,c,k=sys.argv[1:4]
m=json.load(open(p))
m["caught_by"]=c.split()
m["failing_obligations_with_change"]=[x for x in k.split('|') if x]
json.dump(m,open(p,'w'),indent=1)
PY
done
