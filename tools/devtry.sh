#!/bin/sh
# usage: devtry.sh <patch.diff> [prop ...]  — like tryseed.sh but on a scratch copy of /repo (under /tmp) with a
# development build of the analyser (/tmp/rv-dev): neither /repo nor /verif/bin is touched, so it can run
# while the battery or the seed matrix is busy.
P="$1"; shift
PROPS="$*"
T=$(mktemp -d /tmp/devtree.XXXXXX); V=$(mktemp -d /tmp/devtree-verif.XXXXXX)
 cp /verif/known_findings.txt $V/
git -C /repo archive HEAD | tar -x -C $T || exit 2   # the committed state: the working tree may be patched by a running seed matrix
( cd $T && patch -p1 -s < "$P" ) || { echo "patch does not apply"; rm -rf $T $V; exit 2; }
if [ -z "$PROPS" ]; then
  /tmp/rv-dev -all -repo $T -verif $V 2>&1 | awk '
    /^== C[0-9]+$/ {cur=$2; buf=""; next}
    /^== C[0-9]+: CAUGHT/ {print; printf "%s", buf; next}
    /^== C[0-9]+: silent/ {print; next}
    /^  (violated|unresolved|undecided)/ {buf = buf substr($0,1,260) "\n"}'
else
  for p in $PROPS; do
    out=$(/tmp/rv-dev -property $p -tier quick -repo $T -verif $V 2>&1)
    if echo "$out" | grep -q '^VIOLATION'; then echo "== $p: CAUGHT"; echo "$out" | grep -E '^  (violated|unresolved|undecided)' | cut -c1-260; else echo "== $p: silent"; fi
  done
fi
rm -rf $T $V
