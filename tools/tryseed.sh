#!/bin/sh
# usage: tryseed.sh <patch.diff> [prop ...]   — applies the patch to /repo, runs the checks, undoes it.
# Without a property list all properties are run in one process (resverif -all: one load).
P="$1"; shift
PROPS="$*"
rm -rf /tmp/tryseed-verif; mkdir -p /tmp/tryseed-verif; cp /verif/known_findings.txt /tmp/tryseed-verif/; cd /repo || exit 2
[ -z "$(git status --porcelain)" ] || { echo "/repo dirty"; exit 2; }
git apply "$P" || { echo "patch does not apply"; exit 2; }
if [ -z "$PROPS" ]; then
  /verif/bin/resverif -all -verif /tmp/tryseed-verif 2>&1 | awk '
    /^== C[0-9]+$/ {cur=$2; buf=""; next}
    /^== C[0-9]+: CAUGHT/ {print; printf "%s", buf; next}
    /^== C[0-9]+: silent/ {print; next}
    /^  (violated|unresolved|undecided)/ {buf = buf substr($0,1,260) "\n"}'
else
  for p in $PROPS; do
    out=$(/verif/bin/resverif -property $p -tier quick -verif /tmp/tryseed-verif 2>&1)
    if echo "$out" | grep -q '^VIOLATION'; then echo "== $p: CAUGHT"; echo "$out" | grep -E '^  (violated|unresolved|undecided)' | cut -c1-260; else echo "== $p: silent"; fi
  done
fi
git checkout -- . ; git clean -fdq ; git status --short | head
