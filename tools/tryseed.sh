#!/bin/sh
# usage: tryseed.sh <patch.diff> [prop ...]   — applies the patch to /repo, runs the checks, undoes it.
P="$1"; shift
PROPS="$*"
[ -z "$PROPS" ] && PROPS="$(/verif/bin/resverif -list | sort | tr '\n' ' ')"
mkdir -p /tmp/tryseed-verif; cp /verif/known_findings.txt /tmp/tryseed-verif/; cd /repo || exit 2
git diff --quiet || { echo "/repo dirty"; exit 2; }
git apply "$P" || { echo "patch does not apply"; exit 2; }
for p in $PROPS; do
  out=$(/verif/bin/resverif -property $p -tier quick -verif /tmp/tryseed-verif 2>&1)
  if echo "$out" | grep -q '^VIOLATION'; then echo "== $p: CAUGHT"; echo "$out" | grep -E '^  (violated|unresolved|undecided)' | cut -c1-260; else echo "== $p: silent"; fi
done
git checkout -- . ; git status --short | head
