#!/bin/bash
# usage: confirm_wave.sh <Cxx> <suffix letter> <agent number> <test prefix number>
# e.g. confirm_wave.sh C05 d 4 4   -> worktree /tmp/seed/C05d, out /tmp/seed/out-C05d, seed name C05-agent4, tests TestSeed4C05*
id=$1; suf=$2; ag=$3; tp=$4
out=/tmp/seed/out-${id}${suf}
wt=/tmp/seed/${id}${suf}
demo=$(ls $out/*_test.go 2>/dev/null | head -1)
[ -z "$demo" ] && { echo "$id: no demo test file"; exit 1; }
rel=""
[ -d $wt ] && rel=$(cd $wt && git status --short | grep -E '\?\? .*_test.go' | awk '{print $2}' | head -1)
dir=$(dirname "$rel"); [ -z "$rel" ] && dir=test
# several demo files in different packages: keep only those of the first package
pkg=$(grep -m1 '^package ' $demo | awk '{print $2}')
tmpout=/tmp/seed/confirm-${id}${suf}; rm -rf $tmpout; mkdir -p $tmpout
cp $out/patch.diff $out/README.md $tmpout/ 2>/dev/null
for f in $out/*_test.go; do [ "$(grep -m1 '^package ' $f | awk '{print $2}')" = "$pkg" ] && cp $f $tmpout/; done
/verif/tools/confirm_seed.sh ${id}-agent${ag} $tmpout $dir ./$dir/ "TestSeed${tp}${id}" $id 2>&1 | tail -3
git -C /repo worktree remove --force $wt 2>/dev/null
rm -rf $tmpout
