#!/bin/sh
# usage: take_refactor.sh R<n>   — stores the agent's refactor under seeded/_refactors, removes its worktree, runs all checks against it
n=$1
mkdir -p /verif/seeded/_refactors/$n && cp /tmp/seed/out-$n/patch.diff /verif/seeded/_refactors/$n/ && cp /tmp/seed/out-$n/README.md /verif/seeded/_refactors/$n/README.agent.md
git -C /repo worktree remove --force /tmp/seed/$n 2>/dev/null
/verif/tools/tryseed.sh /verif/seeded/_refactors/$n/patch.diff | grep -v silent | cut -c1-330
