#!/bin/bash
# usage: pseedmatrix.sh [-j N] — like seedmatrix.sh (every registered check against every seeded change, caught_by and
# failing_obligations_with_change rewritten in each seeded/<name>/meta.json) but in parallel on scratch copies of
# /repo's committed tree under /tmp/psm, with the installed binary /verif/bin/resverif; /repo is not touched.
J=8
if [ "$1" = "-j" ]; then J=$2; shift 2; fi
mkdir -p /tmp/psm
one() {
  d=$1; n=$(basename $d)
  T=/tmp/psm/$n; V=/tmp/psm/$n-verif
  rm -rf $T $V; mkdir -p $T $V; cp /verif/known_findings.txt $V/
  git -C /repo archive HEAD | tar -x -C $T
  ( cd $T && patch -p1 -s < /verif/seeded/$n/patch.diff ) || { echo "$n => PATCH-FAILED"; rm -rf $T $V; return; }
  out=$(/verif/bin/resverif -all -repo $T -verif $V 2>&1)
  caught=$(echo "$out" | awk '/^== C[0-9]+$/ {cur=$2} /^VIOLATION property=/ {split($2,a,"="); print a[2]}' | sort -u | tr '\n' ' ')
  keys=$(echo "$out" | grep -E '^  (violated|unresolved|undecided): ' | sed -E 's/^  [a-z]+: ([^ ]+) at.*/\1/' | sort -u | tr '\n' '|')
  echo "$n => ${caught:-MISSED}"
  python3 - "/verif/seeded/$n/meta.json" "$caught" "$keys" <<'PY'
import json,sys
p,c,k=sys.argv[1:4]
m=json.load(open(p))
m["caught_by"]=c.split()
m["failing_obligations_with_change"]=[x for x in k.split('|') if x]
json.dump(m,open(p,'w'),indent=1)
PY
  rm -rf $T $V
}
export -f one
ls -d /verif/seeded/C*/ | xargs -P $J -I{} bash -c 'one {}' | sort
