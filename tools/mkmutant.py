#!/usr/bin/env python3
"""mkmutant.py <prop> <name> <kind> <expect-substring-or-> <relfile> [<relfile2> ...]
Reads edits from stdin: blocks 'FILE: rel\nOLD:\n...\nNEW:\n...\nEND' ; writes /verif/mutants/<prop>/<name>.patch
against /repo's current tree (each OLD must occur exactly once)."""
import sys, os, difflib, re
prop, name, kind, expect = sys.argv[1:5]
text = sys.stdin.read()
blocks = [(a, b, c[:-1] if c.endswith('\n') else c) for a, b, c in re.findall(r'FILE: (\S+)\nOLD:\n(.*?)\nNEW:\n(.*?)END\n', text, re.S)]
assert blocks, "no edit blocks"
files = {}
for rel, old, new in blocks:
    src = files.get(rel) or open('/repo/' + rel).read()
    assert src.count(old) == 1, "OLD occurs %d times in %s:\n%s" % (src.count(old), rel, old)
    files[rel] = src.replace(old, new)
out = ["# kind: " + kind]
for e in expect.split('||'):
    if e != '-':
        out.append("# expect: " + e)
note = os.environ.get('NOTE')
if note:
    out.append("# note: " + note)
for rel, new in files.items():
    a = open('/repo/' + rel).read().splitlines(True)
    b = new.splitlines(True)
    out.append("".join(difflib.unified_diff(a, b, 'a/' + rel, 'b/' + rel)).rstrip('\n'))
os.makedirs('/verif/mutants/' + prop, exist_ok=True)
open('/verif/mutants/%s/%s.patch' % (prop, name), 'w').write("\n".join(out) + "\n")
print("wrote", name)
