package core

import (
	"sort"

	"golang.org/x/tools/go/ssa"
)

// Inter-procedural helpers that make rules robust against helper extraction:
// a rule anchored in function F also looks into F's *private helpers*
// (functions that are only ever called, directly or through other private
// helpers, from F) and positions inside a helper are *lifted* to the call
// site in F when order within F matters.

type callIndex struct {
	callers   map[*ssa.Function][]ssa.CallInstruction
	addrTaken map[*ssa.Function]bool
}

var callIdx = map[*Prog]*callIndex{}

func (p *Prog) calls() *callIndex {
	if ci, ok := callIdx[p]; ok {
		return ci
	}
	ci := &callIndex{callers: map[*ssa.Function][]ssa.CallInstruction{}, addrTaken: map[*ssa.Function]bool{}}
	for _, fn := range p.Funcs {
		for _, b := range fn.Blocks {
			for _, in := range b.Instrs {
				if c, ok := in.(ssa.CallInstruction); ok {
					if cal := c.Common().StaticCallee(); cal != nil {
						ci.callers[cal] = append(ci.callers[cal], c)
					} else {
						fs, _ := FuncValueCallees(c)
						for _, f := range fs {
							ci.callers[f] = append(ci.callers[f], c)
						}
					}
					for _, a := range c.Common().Args {
						if f, ok := a.(*ssa.Function); ok {
							ci.addrTaken[f] = true
						}
						if mc, ok := a.(*ssa.MakeClosure); ok {
							if f, ok := mc.Fn.(*ssa.Function); ok && f.Parent() == nil {
								ci.addrTaken[f] = true // bound method value
							}
						}
					}
					continue
				}
				if phi, ok := in.(*ssa.Phi); ok && calleeOnlyPhi(phi) {
					// a local function variable (op := defaultOp; if cb != nil { op = cb }; op(...)):
					// the functions it may hold are called at its call sites, not handed out
					continue
				}
				for _, op := range in.Operands(nil) {
					if op == nil || *op == nil {
						continue
					}
					if f, ok := (*op).(*ssa.Function); ok {
						ci.addrTaken[f] = true
					}
				}
				if mc, ok := in.(*ssa.MakeClosure); ok {
					if f, ok := mc.Fn.(*ssa.Function); ok && f.Parent() == nil {
						ci.addrTaken[f] = true
					}
				}
			}
		}
	}
	callIdx[p] = ci
	return ci
}

// calleeOnlyPhi: the phi merges function values and is used for nothing but
// being called (a local function variable choosing between a default
// implementation and a callback).
func calleeOnlyPhi(phi *ssa.Phi) bool {
	if phi.Referrers() == nil {
		return false
	}
	n := 0
	for _, rf := range *phi.Referrers() {
		switch x := rf.(type) {
		case *ssa.DebugRef:
		case *ssa.Call:
			if x.Common().IsInvoke() || x.Common().Value != ssa.Value(phi) {
				return false
			}
			for _, a := range x.Common().Args {
				if a == ssa.Value(phi) {
					return false
				}
			}
			n++
		default:
			return false
		}
	}
	return n > 0
}

// FuncValueCallees: for a call of a local function variable (a callee-only
// phi), the declared functions of the analysed program it may hold, and
// whether it may also hold something else (a callback).
func FuncValueCallees(c ssa.CallInstruction) (fns []*ssa.Function, other bool) {
	if c.Common().IsInvoke() {
		return nil, false
	}
	phi, ok := c.Common().Value.(*ssa.Phi)
	if !ok || !calleeOnlyPhi(phi) {
		return nil, false
	}
	for _, e := range phi.Edges {
		if f, ok := e.(*ssa.Function); ok && len(f.Blocks) > 0 && f.Parent() == nil {
			fns = append(fns, f)
		} else {
			other = true
		}
	}
	return fns, other
}

// CallersOf returns the static call sites of fn in the library.
func (p *Prog) CallersOf(fn *ssa.Function) []ssa.CallInstruction { return p.calls().callers[fn] }

// AddrTaken reports whether fn is used as a value (callback, method value).
func (p *Prog) AddrTaken(fn *ssa.Function) bool { return p.calls().addrTaken[fn] }

// Within reports whether fn is F itself, a closure nested in F, or a private
// helper of F: a declared, unexported-or-not function whose address is never
// taken and all of whose static call sites (at least one, none with go) lie
// Within F.
func (p *Prog) Within(fn, F *ssa.Function) bool {
	return p.within(fn, F, map[*ssa.Function]bool{})
}

func (p *Prog) within(fn, F *ssa.Function, seen map[*ssa.Function]bool) bool {
	if fn == F {
		return true
	}
	if seen[fn] {
		// on the current path already (recursion, direct or mutual): this call site is decided
		// by the function's other callers
		return true
	}
	seen[fn] = true
	defer delete(seen, fn)
	if fn.Parent() != nil {
		return p.within(fn.Parent(), F, seen)
	}
	if p.AddrTaken(fn) {
		return false
	}
	if fn.Object() != nil && fn.Object().Exported() {
		return false
	}
	cs := p.CallersOf(fn)
	n := 0
	for _, c := range cs {
		if _, isGo := c.(*ssa.Go); isGo {
			return false
		}
		if Outermost(c.Parent()) == fn {
			continue // self-recursion
		}
		n++
		if !p.within(c.Parent(), F, seen) {
			return false
		}
	}
	return n > 0
}

// Scope returns F, its nested closures and its private helpers (with their
// closures), sorted by name.
func (p *Prog) Scope(F *ssa.Function) []*ssa.Function {
	var out []*ssa.Function
	for _, fn := range p.Funcs {
		if p.Within(fn, F) {
			out = append(out, fn)
		}
	}
	sort.Slice(out, func(i, j int) bool { return FuncName(out[i]) < FuncName(out[j]) })
	return out
}

// Lift maps an instruction located in a private helper of F to the call
// instruction(s) in F through which it is reached (the instruction itself if
// it already lies in F). Closures are not lifted (they run at another time).
func (p *Prog) Lift(in ssa.Instruction, F *ssa.Function) []ssa.Instruction {
	return p.lift(in, F, 0)
}

func (p *Prog) lift(in ssa.Instruction, F *ssa.Function, d int) []ssa.Instruction {
	fn := in.Parent()
	if fn == F {
		return []ssa.Instruction{in}
	}
	if d > 6 || fn.Parent() != nil {
		return nil
	}
	var out []ssa.Instruction
	for _, c := range p.CallersOf(fn) {
		if _, isGo := c.(*ssa.Go); isGo {
			continue
		}
		out = append(out, p.lift(c, F, d+1)...)
	}
	return out
}

// alwaysExecuted: in lies on every path from the entry of its function to
// each of its normal returns (it dominates every return).
func alwaysExecuted(in ssa.Instruction) bool {
	fn := in.Parent()
	n := 0
	for _, r := range Returns(fn) {
		if fn.Recover != nil && r.Block() == fn.Recover {
			continue
		}
		n++
		if !Dominates(in, r) {
			return false
		}
	}
	return n > 0
}

// DominatesIn generalises Dominates to instructions that may live in private
// helpers of F: a (possibly in helper Ha) dominates b (possibly in helper Hb)
// with respect to executions of F.
func (p *Prog) DominatesIn(F *ssa.Function, a, b ssa.Instruction) bool {
	if a.Parent() == b.Parent() {
		return Dominates(a, b)
	}
	// b inside a helper reached from a's function: lift b one level towards a's function first
	if p.Within(b.Parent(), a.Parent()) && b.Parent().Parent() == nil {
		lb := p.Lift(b, a.Parent())
		if len(lb) == 0 {
			return false
		}
		for _, x := range lb {
			if !Dominates(a, x) && x != a {
				return false
			}
		}
		return true
	}
	la, lb := p.Lift(a, F), p.Lift(b, F)
	if len(la) == 0 || len(lb) == 0 {
		return false
	}
	// a in a helper: it must always execute when the helper is called
	if a.Parent() != F {
		cur := a
		for cur.Parent() != F {
			if !alwaysExecuted(cur) {
				return false
			}
			cs := p.CallersOf(cur.Parent())
			if len(cs) != 1 {
				// several call sites: each lifted site is checked below; require always-executed on each level
				break
			}
			cur = cs[0]
		}
	}
	for _, y := range lb {
		ok := false
		for _, x := range la {
			if x == y {
				// same call site: a and b in (different levels of) the same helper call: order inside
				continue
			}
			if Dominates(x, y) {
				ok = true
			}
		}
		if !ok {
			return false
		}
	}
	return true
}

// ReachesIn: some execution of F runs a and later b.
func (p *Prog) ReachesIn(F *ssa.Function, a, b ssa.Instruction) bool {
	if a.Parent() == b.Parent() {
		return Reaches(a, b)
	}
	for _, x := range p.Lift(a, F) {
		for _, y := range p.Lift(b, F) {
			if x == y || Reaches(x, y) {
				return true
			}
		}
	}
	return false
}

// IsPrivateHelper: fn is a declared, unexported function whose address is
// never taken and which is only reached by plain static calls (at least one):
// its statements execute as part of its callers.
func (p *Prog) IsPrivateHelper(fn *ssa.Function) bool {
	if fn.Parent() != nil || len(fn.Blocks) == 0 || p.AddrTaken(fn) {
		return false
	}
	if fn.Object() != nil && fn.Object().Exported() {
		return false
	}
	cs := p.CallersOf(fn)
	if len(cs) == 0 {
		return false
	}
	for _, c := range cs {
		switch c.(type) {
		case *ssa.Go, *ssa.Defer:
			return false
		}
	}
	return true
}

// Helpers returns F followed by the private helpers it (transitively) calls
// directly (not from its closures), restricted to F's package.
func (p *Prog) Helpers(F *ssa.Function) []*ssa.Function {
	out := []*ssa.Function{F}
	seen := map[*ssa.Function]bool{F: true}
	for i := 0; i < len(out); i++ {
		for _, c := range Calls(out[i]) {
			cals := []*ssa.Function{c.Common().StaticCallee()}
			if cals[0] == nil {
				cals, _ = FuncValueCallees(c)
			}
			for _, cal := range cals {
				if cal == nil || seen[cal] || cal.Pkg != F.Pkg || !p.IsPrivateHelper(cal) {
					continue
				}
				if _, isCall := c.(*ssa.Call); !isCall {
					continue
				}
				seen[cal] = true
				out = append(out, cal)
			}
		}
	}
	return out
}
