package core

import (
	"go/constant"
	"go/token"
	"go/types"
	"sort"
	"strings"

	"golang.org/x/tools/go/ssa"
)

// ---- fields ----------------------------------------------------------------

// Field identifies a struct field by its declaring named struct and name.
// go/ssa does no CSE, so identity of fields is (struct type, field), never
// the SSA value.
type Field struct {
	Struct string // module-relative type name, e.g. "Service", "store/badgerstore.Store"
	Name   string
}

func (f Field) String() string { return f.Struct + "." + f.Name }

func typeName(t types.Type) string {
	for {
		if p, ok := t.(*types.Pointer); ok {
			t = p.Elem()
			continue
		}
		break
	}
	if a, ok := t.(*types.Alias); ok {
		t = types.Unalias(a)
	}
	if n, ok := t.(*types.Named); ok {
		o := n.Obj()
		if o.Pkg() == nil {
			return o.Name()
		}
		pp := o.Pkg().Path()
		if pp == ModPath {
			return o.Name()
		}
		if strings.HasPrefix(pp, ModPath+"/") {
			return strings.TrimPrefix(pp, ModPath+"/") + "." + o.Name()
		}
		return pp + "." + o.Name()
	}
	return t.String()
}

// TypeName is the module-relative name of a (pointer to) named type.
func TypeName(t types.Type) string { return typeName(t) }

func structOf(t types.Type) *types.Struct {
	for {
		if p, ok := t.Underlying().(*types.Pointer); ok {
			t = p.Elem()
			continue
		}
		break
	}
	s, _ := t.Underlying().(*types.Struct)
	return s
}

// FieldOf returns the field addressed/read by a FieldAddr or Field value.
func FieldOf(v ssa.Value) (Field, bool) {
	switch v := v.(type) {
	case *ssa.FieldAddr:
		st := structOf(v.X.Type())
		if st == nil {
			return Field{}, false
		}
		return Field{typeName(v.X.Type()), st.Field(v.Field).Name()}, true
	case *ssa.Field:
		st := structOf(v.X.Type())
		if st == nil {
			return Field{}, false
		}
		return Field{typeName(v.X.Type()), st.Field(v.Field).Name()}, true
	}
	return Field{}, false
}

// LoadedField: if v is a load (*p) of a field address, or a Field extraction,
// returns that field. It looks through ChangeType/Convert/MakeInterface.
func LoadedField(v ssa.Value) (Field, bool) {
	v = Strip(v)
	switch v := v.(type) {
	case *ssa.UnOp:
		if v.Op == token.MUL {
			return FieldOf(v.X)
		}
	case *ssa.Field:
		return FieldOf(v)
	}
	return Field{}, false
}

// Strip removes value-preserving wrappers.
func Strip(v ssa.Value) ssa.Value {
	for {
		switch x := v.(type) {
		case *ssa.ChangeType:
			v = x.X
		case *ssa.Convert:
			v = x.X
		case *ssa.MakeInterface:
			v = x.X
		case *ssa.ChangeInterface:
			v = x.X
		default:
			return v
		}
	}
}

// Access is one access to a field found in a function.
type Access struct {
	F     Field
	Fn    *ssa.Function
	Instr ssa.Instruction // the instruction performing the access
	Addr  ssa.Value       // the FieldAddr / Field value
	Kind  string          // "load", "store", "addr-call:<callee>", "addr-escape", "mapupdate", "delete", "append-store"...
	Write bool
}

// FieldAccesses lists every access to fields for which want returns true.
// A load whose only uses are map update / delete / close is additionally
// reported as a write of the field's content.
func FieldAccesses(fns []*ssa.Function, want func(Field) bool) []Access {
	var out []Access
	for _, fn := range fns {
		for _, b := range fn.Blocks {
			for _, in := range b.Instrs {
				switch v := in.(type) {
				case *ssa.FieldAddr:
					f, ok := FieldOf(v)
					if !ok || !want(f) {
						continue
					}
					refs := v.Referrers()
					if refs == nil {
						continue
					}
					for _, r := range *refs {
						switch r := r.(type) {
						case *ssa.Store:
							if r.Addr == v {
								out = append(out, Access{f, fn, r, v, "store", true})
							} else {
								out = append(out, Access{f, fn, r, v, "addr-escape", true})
							}
						case *ssa.UnOp:
							if r.Op == token.MUL {
								out = append(out, Access{f, fn, r, v, "load", false})
								out = append(out, contentWrites(f, fn, r, v)...)
							}
						case ssa.CallInstruction:
							name := "?"
							if c := r.Common().StaticCallee(); c != nil {
								name = c.String()
							} else if b, ok := r.Common().Value.(*ssa.Builtin); ok {
								name = b.Name()
							} else if r.Common().IsInvoke() {
								name = r.Common().Method.FullName()
							}
							w := true
							if strings.Contains(name, "atomic.Load") {
								w = false
							}
							out = append(out, Access{f, fn, r, v, "addr-call:" + name, w})
						case *ssa.FieldAddr, *ssa.IndexAddr:
							// nested struct / array element: treat as a read of the outer field here;
							// the inner field has its own identity.
							out = append(out, Access{f, fn, r.(ssa.Instruction), v, "addr-nested", false})
						case *ssa.MakeClosure, *ssa.Phi, *ssa.MakeInterface:
							out = append(out, Access{f, fn, r.(ssa.Instruction), v, "addr-escape", true})
						case *ssa.DebugRef:
						default:
							out = append(out, Access{f, fn, r, v, "addr-other", true})
						}
					}
				case *ssa.Field:
					f, ok := FieldOf(v)
					if !ok || !want(f) {
						continue
					}
					out = append(out, Access{f, fn, v, v, "load", false})
				}
			}
		}
	}
	return out
}

func contentWrites(f Field, fn *ssa.Function, load *ssa.UnOp, addr ssa.Value) []Access {
	var out []Access
	refs := load.Referrers()
	if refs == nil {
		return nil
	}
	for _, r := range *refs {
		switch r := r.(type) {
		case *ssa.MapUpdate:
			if r.Map == load {
				out = append(out, Access{f, fn, r, addr, "mapupdate", true})
			}
		case ssa.CallInstruction:
			if b, ok := r.Common().Value.(*ssa.Builtin); ok && len(r.Common().Args) > 0 && r.Common().Args[0] == load {
				switch b.Name() {
				case "delete":
					out = append(out, Access{f, fn, r, addr, "delete", true})
				case "close":
					out = append(out, Access{f, fn, r, addr, "close", true})
				}
			}
		}
	}
	return out
}

// ---- calls ---------------------------------------------------------------

// Calls returns the call instructions (call, go, defer) of a function in block order.
func Calls(fn *ssa.Function) []ssa.CallInstruction {
	var out []ssa.CallInstruction
	for _, b := range fn.Blocks {
		for _, in := range b.Instrs {
			if c, ok := in.(ssa.CallInstruction); ok {
				out = append(out, c)
			}
		}
	}
	return out
}

// CalleeName names the static callee ("sync.(*Mutex).Lock", "(*Service).runWith"),
// the builtin ("builtin:append"), the interface method ("invoke:Conn.Publish"),
// or "dynamic" for calls of function values.
func CalleeName(c ssa.CallInstruction) string {
	cc := c.Common()
	if cc.IsInvoke() {
		return "invoke:" + typeName(cc.Value.Type()) + "." + cc.Method.Name()
	}
	if f := cc.StaticCallee(); f != nil {
		return FuncName(f)
	}
	if b, ok := cc.Value.(*ssa.Builtin); ok {
		return "builtin:" + b.Name()
	}
	return "dynamic"
}

// IsDynamic reports whether the call is of a function value (not static, not
// builtin, not interface invoke).
func IsDynamic(c ssa.CallInstruction) bool { return CalleeName(c) == "dynamic" }

// ---- CFG order helpers -----------------------------------------------------

func instrIndex(in ssa.Instruction) int {
	for i, x := range in.Block().Instrs {
		if x == in {
			return i
		}
	}
	return -1
}

// Dominates: every path from entry to b passes through a (a before b).
func Dominates(a, b ssa.Instruction) bool {
	if a.Parent() != b.Parent() {
		return false
	}
	if a.Block() == b.Block() {
		return instrIndex(a) < instrIndex(b)
	}
	return a.Block().Dominates(b.Block())
}

// Reaches: there is a CFG path from (just after) a to b.
func Reaches(a, b ssa.Instruction) bool {
	if a.Parent() != b.Parent() {
		return false
	}
	if a.Block() == b.Block() && instrIndex(a) < instrIndex(b) {
		return true
	}
	seen := map[*ssa.BasicBlock]bool{}
	var stack []*ssa.BasicBlock
	stack = append(stack, a.Block().Succs...)
	for len(stack) > 0 {
		x := stack[len(stack)-1]
		stack = stack[:len(stack)-1]
		if seen[x] {
			continue
		}
		seen[x] = true
		if x == b.Block() {
			return true
		}
		stack = append(stack, x.Succs...)
	}
	return false
}

// PathFree: no instruction satisfying bad lies on any CFG path from (after) a
// to (before) b. If b is nil, paths to any function exit are considered.
func PathFree(a, b ssa.Instruction, bad func(ssa.Instruction) bool) (bool, ssa.Instruction) {
	// scan remainder of a's block
	ia := instrIndex(a)
	blk := a.Block()
	for i := ia + 1; i < len(blk.Instrs); i++ {
		in := blk.Instrs[i]
		if b != nil && in == b {
			return true, nil
		}
		if bad(in) {
			// only a witness if b is reachable from here (or b == nil)
			if b == nil || Reaches(in, b) {
				return false, in
			}
		}
	}
	seen := map[*ssa.BasicBlock]bool{}
	var stack []*ssa.BasicBlock
	stack = append(stack, blk.Succs...)
	for len(stack) > 0 {
		x := stack[len(stack)-1]
		stack = stack[:len(stack)-1]
		if seen[x] {
			continue
		}
		seen[x] = true
		stop := false
		for _, in := range x.Instrs {
			if b != nil && in == b {
				stop = true
				break
			}
			if bad(in) && (b == nil || Reaches(in, b)) {
				return false, in
			}
		}
		if !stop {
			stack = append(stack, x.Succs...)
		}
	}
	return true, nil
}

// Returns lists the Return instructions of fn.
func Returns(fn *ssa.Function) []*ssa.Return {
	var out []*ssa.Return
	for _, b := range fn.Blocks {
		if len(b.Instrs) == 0 {
			continue
		}
		if r, ok := b.Instrs[len(b.Instrs)-1].(*ssa.Return); ok {
			out = append(out, r)
		}
	}
	return out
}

// ---- a small forward may-analysis over bit-sets of abstract states ---------

// StateSet is a set of abstract states 0..63.
type StateSet uint64

func (s StateSet) Has(i int) bool     { return s&(1<<uint(i)) != 0 }
func (s StateSet) Add(i int) StateSet { return s | (1 << uint(i)) }
func (s StateSet) Empty() bool        { return s == 0 }
func (s StateSet) Only(i int) bool    { return s == 1<<uint(i) }
func (s StateSet) List() []int {
	var out []int
	for i := 0; i < 64; i++ {
		if s.Has(i) {
			out = append(out, i)
		}
	}
	return out
}

// Flow is a forward dataflow problem on one function. The lattice is the
// powerset of at most 64 abstract states; the result is path-universal
// (every state that some CFG path can produce is in the set).
//
// If Inline is set, a plain call (not go/defer) of a function for which
// Inline returns true is analysed with the same Transfer/Branch starting from
// the state before the call; the states at its normal returns become the
// states after the call (a functional summary per (callee, entry state),
// memoised; recursion is cut). Before/After of the callee's instructions are
// recorded in the same result, joined over all calling contexts. This makes a
// typestate rule indifferent to statements having been extracted into helper
// functions.
type Flow struct {
	Fn       *ssa.Function
	Entry    StateSet
	Transfer func(in ssa.Instruction, s int) StateSet                   // states after in when in state s before; nil = identity
	Branch   func(iff *ssa.If, succ int, s int) (ns int, feasible bool) // optional refinement on the succ-th edge (0=true,1=false)
	Inline   func(callee *ssa.Function) bool
	// Tags makes the engine remember, across the return of an inlined helper, the
	// constant its last (bool) result had, until the caller branches on that
	// result: `if !helper() { return }` then follows only the helper's `return
	// false` paths.
	Tags bool
	// EvalBool, if set, is a value oracle: it may decide a bool / nil-able value
	// (1 true / non-nil, 2 false / nil, 0 unknown). The engine consults it for
	// branch conditions, for the values flowing into tracked flags and for
	// returned values; it lets a client analyse a function under an assumption on
	// its input (e.g. "every character of the argument is 0x20").
	EvalBool func(v ssa.Value) int8
	// EvalBoolAt is EvalBool for an oracle whose answer depends on the client state of the path
	// (used where a returned or merged bool value is classified).
	EvalBoolAt func(v ssa.Value, s int) int8
	// BranchOn is Branch for a condition that is not the If's own operand: when the
	// If tests a local flag whose value on the current path is that of an earlier
	// comparison (`publish := len(m) > 0; ...; if publish {`), the engine reports the
	// branch as a branch on that comparison (succ 0: cond is true, 1: false).
	BranchOn func(cond ssa.Value, succ int, s int) (ns int, feasible bool)

	memo     map[flowKey][]code
	tagCalls map[*ssa.Call]int16
	stack    map[*ssa.Function]bool
	res      *FlowResult
	flags    map[*ssa.Function]*flagInfo
}

type flowKey struct {
	fn *ssa.Function
	s  int
}

// FlowResult holds the state set before each instruction and at block entry.
type FlowResult struct {
	In     map[*ssa.BasicBlock]StateSet
	Before map[ssa.Instruction]StateSet
	After  map[ssa.Instruction]StateSet
	// Exit is the join of the states at the normal returns of the root function.
	Exit StateSet
	// RetFlag gives, for each return, the states split by what is known of the last
	// returned value on the path: 1 true / non-nil, 2 false / nil, 0 unknown.
	RetFlag map[*ssa.Return][3]StateSet
}

// code is one element of the engine's internal lattice: an abstract state of
// the client, the helper-result tag (0 none, 1 true, 2 false) and the value of
// up to two local bool flags (0 unknown, 1 true, 2 false). A local flag is a
// bool variable assigned constants on some paths and tested after the merge
// (`invoked := false; ...; invoked = true; ...; if invoked && ...`): in SSA a
// family of phis fed by bool constants and by each other. Tracking its value
// makes the branch on it path-exact, so that the verdict does not depend on a
// function using early returns or a flag with a single exit.
type code struct {
	s, tag int8
	tc     int16 // the inlined call the tag belongs to (index in Flow.tagCalls, 0 = none)
	f      [2]int8
}

type codes []code

func (cs codes) has(c code) bool {
	for _, x := range cs {
		if x == c {
			return true
		}
	}
	return false
}

func (cs codes) add(c code) codes {
	if cs.has(c) {
		return cs
	}
	return append(cs, c)
}

func (cs codes) union(o codes) (codes, bool) {
	ch := false
	for _, c := range o {
		if !cs.has(c) {
			cs = append(cs, c)
			ch = true
		}
	}
	return cs, ch
}

func (cs codes) states() StateSet {
	var o StateSet
	for _, c := range cs {
		o = o.Add(int(c.s))
	}
	return o
}

// flagInfo: the local bool flags of one function.
type flagInfo struct {
	slot map[*ssa.Phi]int // tracked phis -> slot 0/1
	all  [2][]*ssa.Phi
	// leaves: non-constant bool values flowing into a flag; a flag value of 3+i
	// means "equal to leaves[i] on this path"
	leaves []ssa.Value
}

func (fi *flagInfo) leafIndex(v ssa.Value) int8 {
	for i, l := range fi.leaves {
		if l == v {
			return int8(3 + i)
		}
	}
	if len(fi.leaves) >= 100 {
		return 0
	}
	fi.leaves = append(fi.leaves, v)
	return int8(3 + len(fi.leaves) - 1)
}

// knownOnEdge: the bool value e is decided on the CFG edge pred->to because
// that edge is, or is dominated by, a branch on e itself.
func knownOnEdge(e ssa.Value, pred, to *ssa.BasicBlock) int8 {
	w, neg := stripNot(e)
	if w.Referrers() == nil {
		return 0
	}
	res := func(succ int, n2 bool) int8 {
		truth := (succ == 0) != n2 != neg
		if truth {
			return 1
		}
		return 2
	}
	var visit func(v ssa.Value, n2 bool) int8
	visit = func(v ssa.Value, n2 bool) int8 {
		if v.Referrers() == nil {
			return 0
		}
		for _, rf := range *v.Referrers() {
			switch x := rf.(type) {
			case *ssa.UnOp:
				if x.Op == token.NOT {
					if r := visit(x, !n2); r != 0 {
						return r
					}
				}
			case *ssa.If:
				d := x.Block()
				if len(d.Succs) != 2 || d.Succs[0] == d.Succs[1] {
					continue
				}
				for i, sc := range d.Succs {
					if d == pred && sc == to {
						return res(i, n2)
					}
					if len(sc.Preds) == 1 && sc.Dominates(pred) {
						return res(i, n2)
					}
				}
			}
		}
		return 0
	}
	return visit(w, false)
}

func boolConst(v ssa.Value) (bool, bool) {
	if k, ok := v.(*ssa.Const); ok && k.Value != nil && k.Value.Kind() == constant.Bool {
		return constant.BoolVal(k.Value), true
	}
	return false, false
}

func stripNot(c ssa.Value) (ssa.Value, bool) {
	neg := false
	for {
		u, ok := c.(*ssa.UnOp)
		if !ok || u.Op != token.NOT {
			return c, neg
		}
		c, neg = u.X, !neg
	}
}

// flagKind: 1 = bool phi, 2 = phi of a nil-able type (tracked as nil / non-nil).
func flagKind(p *ssa.Phi) int {
	switch t := p.Type().Underlying().(type) {
	case *types.Basic:
		if t.Kind() == types.Bool {
			return 1
		}
	case *types.Pointer, *types.Interface, *types.Slice, *types.Map, *types.Signature, *types.Chan:
		return 2
	}
	return 0
}

// flagTest: the If branches on a tracked-phi candidate: `if p`, `if !p`,
// `if p != nil`, `if p == nil`; neg reports that the true edge means the flag
// is false / nil.
func flagTest(iff *ssa.If) (*ssa.Phi, bool, bool) {
	c, neg := stripNot(iff.Cond)
	if q, ok := c.(*ssa.Phi); ok && flagKind(q) == 1 {
		return q, neg, true
	}
	if bo, ok := c.(*ssa.BinOp); ok && (bo.Op == token.EQL || bo.Op == token.NEQ) {
		x, y := bo.X, bo.Y
		if k, ok := x.(*ssa.Const); ok && k.IsNil() {
			x, y = y, x
		}
		if k, ok := y.(*ssa.Const); ok && k.IsNil() {
			if q, ok := x.(*ssa.Phi); ok && flagKind(q) == 2 {
				if bo.Op == token.EQL {
					neg = !neg
				}
				return q, neg, true
			}
		}
	}
	return nil, false, false
}

// flagLeaf: the value a non-phi incoming edge gives the flag: 1 true /
// non-nil, 2 false / nil, 0 unknown. pred is the block the edge comes from.
func flagLeaf(e ssa.Value, pred *ssa.BasicBlock) int8 {
	if v, ok := boolConst(e); ok {
		if v {
			return 1
		}
		return 2
	}
	switch x := e.(type) {
	case *ssa.Const:
		if x.IsNil() {
			return 2
		}
	case *ssa.Alloc, *ssa.MakeInterface, *ssa.MakeClosure, *ssa.MakeMap, *ssa.MakeSlice, *ssa.MakeChan, *ssa.Function:
		return 1
	case *ssa.Call:
		switch CalleeName(x) {
		case "errors.New", "fmt.Errorf":
			return 1
		}
	case *ssa.Extract:
		// the value of a comma-ok type assertion, used under its ok edge
		if ta, ok := x.Tuple.(*ssa.TypeAssert); ok && x.Index == 0 && ta.CommaOk && pred != nil {
			// only for interface targets: a typed nil pointer passes a pointer assertion
			if _, isIface := x.Type().Underlying().(*types.Interface); !isIface {
				return 0
			}
			if ta.Referrers() != nil {
				for _, rf := range *ta.Referrers() {
					okx, isEx := rf.(*ssa.Extract)
					if !isEx || okx.Index != 1 || okx.Referrers() == nil {
						continue
					}
					for _, r2 := range *okx.Referrers() {
						if iff, ok := r2.(*ssa.If); ok && len(iff.Block().Succs) == 2 {
							t := iff.Block().Succs[0]
							if t != iff.Block().Succs[1] && len(t.Preds) == 1 && t.Dominates(pred) {
								return 1
							}
						}
					}
				}
			}
		}
	}
	return 0
}

func blockReaches(a, b *ssa.BasicBlock) bool {
	seen := map[*ssa.BasicBlock]bool{}
	st := append([]*ssa.BasicBlock{}, a.Succs...)
	for len(st) > 0 {
		x := st[len(st)-1]
		st = st[:len(st)-1]
		if x == b {
			return true
		}
		if seen[x] {
			continue
		}
		seen[x] = true
		st = append(st, x.Succs...)
	}
	return false
}

func (f *Flow) flagsOf(fn *ssa.Function) *flagInfo {
	if fi, ok := f.flags[fn]; ok {
		return fi
	}
	fi := &flagInfo{slot: map[*ssa.Phi]int{}}
	f.flags[fn] = fi
	// union-find over bool phis connected by phi edges
	parent := map[*ssa.Phi]*ssa.Phi{}
	var find func(p *ssa.Phi) *ssa.Phi
	find = func(p *ssa.Phi) *ssa.Phi {
		if parent[p] == p {
			return p
		}
		r := find(parent[p])
		parent[p] = r
		return r
	}
	var phis []*ssa.Phi
	for _, b := range fn.Blocks {
		for _, in := range b.Instrs {
			p, ok := in.(*ssa.Phi)
			if !ok {
				break
			}
			if flagKind(p) != 0 {
				parent[p] = p
				phis = append(phis, p)
			}
		}
	}
	for _, p := range phis {
		for _, e := range p.Edges {
			if q, ok := e.(*ssa.Phi); ok && parent[q] != nil {
				parent[find(p)] = find(q)
			}
		}
	}
	comp := map[*ssa.Phi][]*ssa.Phi{}
	for _, p := range phis {
		comp[find(p)] = append(comp[find(p)], p)
	}
	n := 0
	for _, p := range phis { // deterministic order
		if find(p) != p && comp[find(p)] == nil {
			continue
		}
		members := comp[find(p)]
		if members == nil {
			continue
		}
		delete(comp, find(p))
		hasConst, tested, clash := false, false, false
		blocks := map[*ssa.BasicBlock]bool{}
		for _, m := range members {
			if blocks[m.Block()] {
				clash = true // two variables merged into one family
			}
			blocks[m.Block()] = true
			for _, e := range m.Edges {
				if flagLeaf(e, nil) != 0 {
					hasConst = true
				}
			}
		}
		for _, b := range fn.Blocks {
			if len(b.Instrs) == 0 {
				continue
			}
			if iff, ok := b.Instrs[len(b.Instrs)-1].(*ssa.If); ok {
				if q, _, ok := flagTest(iff); ok && parent[q] != nil {
					for _, m := range members {
						if m == q {
							tested = true
						}
					}
				}
			}
		}
		for _, b := range fn.Blocks {
			if len(b.Instrs) == 0 {
				continue
			}
			if ret, ok := b.Instrs[len(b.Instrs)-1].(*ssa.Return); ok && len(ret.Results) > 0 {
				if q, ok := ret.Results[len(ret.Results)-1].(*ssa.Phi); ok {
					for _, m := range members {
						if m == q {
							tested = true
						}
					}
				}
			}
		}
		if (!hasConst && f.EvalBool == nil && f.BranchOn == nil) || !tested || clash || n >= 2 {
			continue
		}
		for _, m := range members {
			fi.slot[m] = n
		}
		fi.all[n] = members
		n++
	}
	return fi
}

// current: phi x holds the flag's latest value at block at (no other phi of
// the family can have been defined after x on a path to at).
func (fi *flagInfo) current(x *ssa.Phi, at *ssa.BasicBlock) bool {
	k := fi.slot[x]
	for _, r := range fi.all[k] {
		if r == x {
			continue
		}
		if (r.Block() == x.Block() || blockReaches(x.Block(), r.Block())) && (r.Block() == at || blockReaches(r.Block(), at)) {
			return false
		}
	}
	return true
}

// callResultCond: the If condition is (a negation of) the last result of a
// call to an inlined helper; neg reports the negation.
func (f *Flow) callID(c *ssa.Call) int16 {
	if f.tagCalls == nil {
		f.tagCalls = map[*ssa.Call]int16{}
	}
	id, ok := f.tagCalls[c]
	if !ok {
		id = int16(len(f.tagCalls) + 1)
		f.tagCalls[c] = id
	}
	return id
}

func (f *Flow) callResultCond(cond ssa.Value) (isCall bool, neg bool) {
	ok, neg, _ := f.callResultCondOf(cond)
	return ok, neg
}

func (f *Flow) callResultCondOf(cond ssa.Value) (isCall bool, neg bool, which *ssa.Call) {
	cond, neg = stripNot(cond)
	var call *ssa.Call
	switch x := cond.(type) {
	case *ssa.Call:
		call = x
	case *ssa.Extract:
		if c, ok := x.Tuple.(*ssa.Call); ok {
			if cal := c.Common().StaticCallee(); cal != nil && x.Index == tagIndex(cal.Signature) {
				call = c
			}
		}
	}
	if call == nil {
		return false, neg, nil
	}
	cal := call.Common().StaticCallee()
	return cal != nil && f.Inline != nil && f.Inline(cal), neg, call
}

// tagIndex: the result whose constant value the engine remembers across the
// return of an inlined helper: the last result of type bool ((v, ok), (ok, err),
// (pos, match, err)); -1 if there is none.
func tagIndex(sig *types.Signature) int {
	for i := sig.Results().Len() - 1; i >= 0; i-- {
		if bt, ok := sig.Results().At(i).Type().Underlying().(*types.Basic); ok && bt.Kind() == types.Bool {
			return i
		}
	}
	return -1
}

// valueOf: what is known of v at the end of block b for code c.
func (f *Flow) valueOf(v ssa.Value, c code, fi *flagInfo, b *ssa.BasicBlock) int8 {
	if w, neg := stripNot(v); neg {
		if r := f.valueOf(w, c, fi, b); r != 0 {
			return 3 - r
		}
		return 0
	}
	// a result spilled to a cell (named result of a function with a defer): the value stored to the
	// cell earlier in this block
	if u, ok := v.(*ssa.UnOp); ok && u.Op == token.MUL {
		if al, ok := u.X.(*ssa.Alloc); ok && u.Block() == b {
			var last ssa.Value
			for _, in := range b.Instrs {
				if in == ssa.Instruction(u) {
					break
				}
				if st, ok := in.(*ssa.Store); ok && st.Addr == ssa.Value(al) {
					last = st.Val
				}
			}
			if last != nil {
				return f.valueOf(last, c, fi, b)
			}
		}
	}
	// the bool result of the inlined helper call this path just returned from
	if f.Tags && c.tag != 0 && c.tc != 0 {
		var call *ssa.Call
		switch x := v.(type) {
		case *ssa.Call:
			call = x
		case *ssa.Extract:
			if cl, ok := x.Tuple.(*ssa.Call); ok {
				if cal := cl.Common().StaticCallee(); cal != nil && x.Index == tagIndex(cal.Signature) {
					call = cl
				}
			}
		}
		if call != nil && f.tagCalls[call] == c.tc {
			return c.tag
		}
	}
	if q, ok := v.(*ssa.Phi); ok {
		if k, ok := fi.slot[q]; ok && fi.current(q, b) {
			if fv := c.f[k]; fv < 3 {
				return fv
			} else if f.EvalBool != nil || f.EvalBoolAt != nil {
				return f.evalAt(fi.leaves[fv-3], int(c.s))
			}
			return 0
		}
	}
	if fv := flagLeaf(v, nil); fv != 0 {
		return fv
	}
	if f.EvalBool != nil || f.EvalBoolAt != nil {
		w, neg := stripNot(v)
		if ev := f.evalAt(w, int(c.s)); ev != 0 {
			if neg {
				return 3 - ev
			}
			return ev
		}
	}
	return 0
}

// evalAt consults the state-aware oracle first, then the plain one.
func (f *Flow) evalAt(v ssa.Value, s int) int8 {
	if f.EvalBoolAt != nil {
		if ev := f.EvalBoolAt(v, s); ev != 0 {
			return ev
		}
	}
	if f.EvalBool != nil {
		return f.EvalBool(v)
	}
	return 0
}

func (f *Flow) Run() *FlowResult {
	f.res = &FlowResult{In: map[*ssa.BasicBlock]StateSet{}, Before: map[ssa.Instruction]StateSet{}, After: map[ssa.Instruction]StateSet{}, RetFlag: map[*ssa.Return][3]StateSet{}}
	f.memo = map[flowKey][]code{}
	f.stack = map[*ssa.Function]bool{}
	f.flags = map[*ssa.Function]*flagInfo{}
	var entry codes
	for _, s := range f.Entry.List() {
		entry = append(entry, code{s: int8(s)})
	}
	f.res.Exit = f.runFn(f.Fn, entry, 0).states()
	return f.res
}

// runFn analyses fn from the given entry states and returns the join of the
// states at its normal returns (flags cleared: they are local to fn).
func (f *Flow) runFn(fn *ssa.Function, entry codes, depth int) codes {
	res := f.res
	if len(fn.Blocks) == 0 {
		return entry
	}
	fi := f.flagsOf(fn)
	in := map[*ssa.BasicBlock]codes{fn.Blocks[0]: entry}
	work := []*ssa.BasicBlock{fn.Blocks[0]}
	inWork := map[*ssa.BasicBlock]bool{fn.Blocks[0]: true}
	var exit codes
	runInstrs := func(b *ssa.BasicBlock, cur codes) codes {
		for _, ins := range b.Instrs {
			res.Before[ins] |= cur.states()
			if ret, ok := ins.(*ssa.Return); ok && len(ret.Results) > 0 {
				last := ret.Results[len(ret.Results)-1]
				rf := res.RetFlag[ret]
				for _, c := range cur {
					fv := f.valueOf(last, c, fi, b)
					rf[fv] = rf[fv].Add(int(c.s))
				}
				res.RetFlag[ret] = rf
			}
			var nxt codes
			for _, c := range cur {
				var o StateSet
				if f.Transfer == nil {
					o = o.Add(int(c.s))
				} else {
					o = f.Transfer(ins, int(c.s))
				}
				nt, ntc := int8(0), int16(0)
				if f.Tags {
					switch x := ins.(type) {
					case *ssa.If, *ssa.UnOp, *ssa.DebugRef, *ssa.Phi, *ssa.BinOp, *ssa.Jump, *ssa.Extract:
						nt, ntc = c.tag, c.tc
					case *ssa.Return:
						if ti := tagIndex(fn.Signature); depth > 0 && ti >= 0 && ti < len(x.Results) {
							nt = f.valueOf(x.Results[ti], c, fi, b)
						}
					}
				}
				for _, s2 := range o.List() {
					nxt = nxt.add(code{s: int8(s2), tag: nt, tc: ntc, f: c.f})
				}
			}
			if f.Inline != nil && depth < 8 {
				if c, ok := ins.(*ssa.Call); ok {
					if cal := c.Common().StaticCallee(); cal != nil && len(cal.Blocks) > 0 && !f.stack[cal] && cal != fn && f.Inline(cal) {
						var out codes
						for _, cd := range nxt {
							k := flowKey{cal, int(cd.s)}
							v, ok := f.memo[k]
							if !ok {
								f.stack[fn] = true
								v = f.runFn(cal, codes{code{s: cd.s}}, depth+1)
								f.stack[fn] = false
								f.memo[k] = v
							}
							for _, r := range v {
								nc := code{s: r.s, tag: r.tag, f: cd.f}
								if r.tag != 0 {
									nc.tc = f.callID(c)
								}
								out = out.add(nc)
							}
						}
						nxt = out
					}
				}
			}
			res.After[ins] |= nxt.states()
			cur = nxt
			if r, ok := ins.(*ssa.Return); ok {
				if !(fn.Recover != nil && r.Block() == fn.Recover) {
					for _, c := range cur {
						exit = exit.add(code{s: c.s, tag: c.tag})
					}
				}
			}
		}
		return cur
	}
	propagate := func(b *ssa.BasicBlock, cur codes) {
		var iff *ssa.If
		if len(b.Instrs) > 0 {
			iff, _ = b.Instrs[len(b.Instrs)-1].(*ssa.If)
		}
		// the branch tests a tracked local flag
		flagSlot, flagNeg := -1, false
		if iff != nil {
			if q, neg, ok := flagTest(iff); ok {
				if k, ok := fi.slot[q]; ok && fi.current(q, b) {
					flagSlot, flagNeg = k, neg
				}
			}
		}
		for i, sc := range b.Succs {
			var out codes
			isCall, neg := false, false
			condCall := int16(0)
			if iff != nil && f.Tags {
				var which *ssa.Call
				isCall, neg, which = f.callResultCondOf(iff.Cond)
				if isCall {
					condCall = f.callID(which)
				}
			}
			ev := int8(0)
			if iff != nil && f.EvalBool != nil {
				w, n2 := stripNot(iff.Cond)
				if ev = f.EvalBool(w); ev != 0 && n2 {
					ev = 3 - ev
				}
			}
			if ev != 0 && (ev == 1) != (i == 0) {
				continue
			}
			for _, c := range cur {
				if iff != nil {
					if isCall && c.tag != 0 && c.tc == condCall {
						truth := (i == 0) != neg
						if (c.tag == 1) != truth {
							continue
						}
					}
					if flagSlot >= 0 {
						truth := (i == 0) != flagNeg
						v := c.f[flagSlot]
						if v >= 3 {
							// the flag holds the value of an earlier comparison: branch on that comparison
							leaf := fi.leaves[v-3]
							if f.EvalBool != nil {
								if ev := f.EvalBool(leaf); ev != 0 && (ev == 1) != truth {
									continue
								}
							}
							if f.BranchOn != nil {
								sc2 := 1
								if truth {
									sc2 = 0
								}
								ns, ok := f.BranchOn(leaf, sc2, int(c.s))
								if !ok {
									continue
								}
								c.s = int8(ns)
							}
						} else if v != 0 && (v == 1) != truth {
							continue
						}
						if truth {
							c.f[flagSlot] = 1
						} else {
							c.f[flagSlot] = 2
						}
					}
					if f.Branch != nil {
						ns, ok := f.Branch(iff, i, int(c.s))
						if !ok {
							continue
						}
						c.s = int8(ns)
					}
					if isCall && c.tc == condCall {
						c.tag, c.tc = 0, 0 // consumed by this branch
					}
				}
				out = out.add(c)
			}
			// the edge assigns the flags defined by sc's phis
			j, seen := -1, 0
			for k, pb := range sc.Preds {
				if pb == b {
					if seen == i || j < 0 {
						j = k
					}
					seen++
				}
			}
			if len(fi.slot) > 0 && j >= 0 {
				for _, pin := range sc.Instrs {
					p, ok := pin.(*ssa.Phi)
					if !ok {
						break
					}
					k, ok := fi.slot[p]
					if !ok {
						continue
					}
					e := p.Edges[j]
					var set func(c *code)
					v := flagLeaf(e, b)
					if v == 0 && f.EvalBool != nil {
						if _, isPhi := e.(*ssa.Phi); !isPhi {
							w, n2 := stripNot(e)
							if v = f.EvalBool(w); v != 0 && n2 {
								v = 3 - v
							}
						}
					}
					if _, isPhi := e.(*ssa.Phi); v == 0 && !isPhi && flagKind(p) == 1 {
						if v = knownOnEdge(e, b, sc); v == 0 {
							w, n2 := stripNot(e)
							if !n2 {
								v = fi.leafIndex(w)
							}
						}
					}
					// the edge value is the bool result of an inlined helper call: on a path that
					// just returned from that call the result is known
					var tagCall *ssa.Call
					if f.Tags {
						switch x := e.(type) {
						case *ssa.Call:
							tagCall = x
						case *ssa.Extract:
							if cl, ok := x.Tuple.(*ssa.Call); ok {
								if cal := cl.Common().StaticCallee(); cal != nil && x.Index == tagIndex(cal.Signature) {
									tagCall = cl
								}
							}
						}
					}
					if tagCall != nil && v != 1 && v != 2 {
						id := f.tagCalls[tagCall]
						sym := v
						set = func(c *code) {
							if id != 0 && c.tag != 0 && c.tc == id {
								c.f[k] = c.tag
							} else {
								c.f[k] = sym
							}
						}
					} else if v != 0 {
						set = func(c *code) { c.f[k] = v }
					} else if q, ok := e.(*ssa.Phi); ok && fi.slot[q] == k && q != p && fi.current(q, b) {
						if _, tracked := fi.slot[q]; tracked {
							set = func(c *code) {}
						}
					}
					if set == nil {
						set = func(c *code) { c.f[k] = 0 }
					}
					var o2 codes
					for _, c := range out {
						set(&c)
						o2 = o2.add(c)
					}
					out = o2
				}
			}
			nw, changed := in[sc].union(out)
			in[sc] = nw
			if changed && !inWork[sc] {
				inWork[sc] = true
				work = append(work, sc)
			}
		}
	}
	for len(work) > 0 {
		b := work[0]
		work = work[1:]
		inWork[b] = false
		cur := runInstrs(b, in[b])
		propagate(b, cur)
	}
	for b, s := range in {
		res.In[b] |= s.states()
	}
	return exit
}

// ---- conditions ------------------------------------------------------------

// CondInfo describes a recognised If condition.
type CondInfo struct {
	Kind   string // "boolfield", "nilcmp", "constcmp", "lencmp", "other"
	Field  Field  // for boolfield / comparisons on a loaded field
	HasFld bool
	X      ssa.Value // compared value (stripped)
	Op     token.Token
	Const  constant.Value
	Negate bool // condition is the negation of the described predicate
}

// Resolver looks through calls of small expression helpers: a static call of
// a function with a body and exactly one return is replaced by the returned
// expression, with the callee's parameters bound to the call's arguments. It
// lets condition and value recognisers see through `isStarted()`-style
// helpers a refactoring may introduce.
type Resolver struct {
	Env map[*ssa.Parameter]ssa.Value
}

func NewResolver() *Resolver { return &Resolver{Env: map[*ssa.Parameter]ssa.Value{}} }

// Bind binds the parameters of the callee of c to the (resolved) arguments.
func (r *Resolver) Bind(c ssa.CallInstruction) { r.BindTo(c, c.Common().StaticCallee()) }

// BindTo binds the parameters of cal, one of the functions c may call.
func (r *Resolver) BindTo(c ssa.CallInstruction, cal *ssa.Function) {
	if cal == nil {
		return
	}
	for i, prm := range cal.Params {
		if i < len(c.Common().Args) {
			r.Env[prm] = r.R(c.Common().Args[i])
		}
	}
}

func singleReturn(fn *ssa.Function) *ssa.Return {
	var ret *ssa.Return
	for _, x := range Returns(fn) {
		if fn.Recover != nil && x.Block() == fn.Recover {
			continue
		}
		if ret != nil {
			return nil
		}
		ret = x
	}
	return ret
}

// R resolves v: parameters bound in the environment are replaced by their
// arguments, calls of single-return helpers of the analysed module by their
// returned expression.
func (r *Resolver) R(v ssa.Value) ssa.Value {
	for i := 0; i < 12; i++ {
		switch x := v.(type) {
		case *ssa.Parameter:
			if a, ok := r.Env[x]; ok && a != v {
				v = a
				continue
			}
		case *ssa.Call:
			cal := x.Common().StaticCallee()
			if cal != nil && len(cal.Blocks) > 0 && len(cal.Blocks) <= 6 && cal.Pkg != nil && strings.HasPrefix(cal.Pkg.Pkg.Path(), ModPath) && cal.Signature.Results().Len() == 1 {
				if ret := singleReturn(cal); ret != nil {
					r.Bind(x)
					v = ret.Results[0]
					continue
				}
			}
		}
		return v
	}
	return v
}

// Cond analyses the condition of an If (looking through expression helpers).
func Cond(v ssa.Value) CondInfo { return CondWith(v, NewResolver()) }

// CondWith analyses a condition with the given resolver (environment).
func CondWith(v ssa.Value, rs *Resolver) CondInfo {
	neg := false
	v = rs.R(v)
	for {
		if u, ok := v.(*ssa.UnOp); ok && u.Op == token.NOT {
			neg = !neg
			v = rs.R(u.X)
			continue
		}
		break
	}
	ci := CondInfo{Kind: "other", Negate: neg, X: v}
	if f, ok := LoadedField(v); ok {
		if b, ok := v.Type().Underlying().(*types.Basic); ok && b.Kind() == types.Bool {
			ci.Kind, ci.Field, ci.HasFld = "boolfield", f, true
			return ci
		}
	}
	if b, ok := v.(*ssa.BinOp); ok {
		x, y := rs.R(b.X), rs.R(b.Y)
		op := b.Op
		if _, ok := x.(*ssa.Const); ok {
			x, y = y, x
			switch op {
			case token.LSS:
				op = token.GTR
			case token.GTR:
				op = token.LSS
			case token.LEQ:
				op = token.GEQ
			case token.GEQ:
				op = token.LEQ
			}
		}
		if c, ok := y.(*ssa.Const); ok {
			ci.Op = op
			ci.X = Strip(x)
			if f, ok := LoadedField(x); ok {
				ci.Field, ci.HasFld = f, true
			}
			if c.IsNil() {
				ci.Kind = "nilcmp"
				return ci
			}
			ci.Const = c.Value
			ci.Kind = "constcmp"
			// len(x) cmp const
			if call, ok := x.(*ssa.Call); ok {
				if bi, ok := call.Call.Value.(*ssa.Builtin); ok && bi.Name() == "len" {
					ci.Kind = "lencmp"
					arg := rs.R(call.Call.Args[0])
					ci.X = Strip(arg)
					ci.HasFld = false
					if f, ok := LoadedField(arg); ok {
						ci.Field, ci.HasFld = f, true
					}
					// canonicalise comparisons of a length (>= 0) with 0/1
					if k, ok := constant.Int64Val(c.Value); ok && c.Value.Kind() == constant.Int {
						switch {
						case op == token.LSS && k == 1, op == token.LEQ && k == 0:
							ci.Op, ci.Const = token.EQL, constant.MakeInt64(0)
						case op == token.GEQ && k == 1, op == token.GTR && k == 0:
							ci.Op, ci.Const = token.NEQ, constant.MakeInt64(0)
						}
					}
				}
			}
			return ci
		}
	}
	return ci
}

// ---- misc ------------------------------------------------------------------

// ConstString returns the string constant value of v, if any.
func ConstString(v ssa.Value) (string, bool) {
	if c, ok := Strip(v).(*ssa.Const); ok && c.Value != nil && c.Value.Kind() == constant.String {
		return constant.StringVal(c.Value), true
	}
	return "", false
}

// ConstInt returns the integer constant value of v, if any.
func ConstInt(v ssa.Value) (int64, bool) {
	if c, ok := Strip(v).(*ssa.Const); ok && c.Value != nil && c.Value.Kind() == constant.Int {
		i, ok := constant.Int64Val(c.Value)
		return i, ok
	}
	return 0, false
}

// SortedKeys returns the sorted keys of a string-keyed map.
func SortedKeys[V any](m map[string]V) []string {
	out := make([]string, 0, len(m))
	for k := range m {
		out = append(out, k)
	}
	sort.Strings(out)
	return out
}

// EnclosingGoOrDefer reports whether the call instruction is a go/defer.
func IsGo(c ssa.CallInstruction) bool    { _, ok := c.(*ssa.Go); return ok }
func IsDefer(c ssa.CallInstruction) bool { _, ok := c.(*ssa.Defer); return ok }

// BindingOf maps a free variable of an anonymous function to the value bound
// at its (unique) MakeClosure site in the parent.
func BindingOf(fv *ssa.FreeVar) ssa.Value {
	fn := fv.Parent()
	par := fn.Parent()
	if par == nil {
		return nil
	}
	idx := -1
	for i, x := range fn.FreeVars {
		if x == fv {
			idx = i
		}
	}
	for _, b := range par.Blocks {
		for _, in := range b.Instrs {
			if mc, ok := in.(*ssa.MakeClosure); ok && mc.Fn == fn && idx >= 0 && idx < len(mc.Bindings) {
				return mc.Bindings[idx]
			}
		}
	}
	return nil
}

// ClosureSites returns the MakeClosure instructions creating fn.
func ClosureSites(fn *ssa.Function) []*ssa.MakeClosure {
	par := fn.Parent()
	if par == nil {
		return nil
	}
	var out []*ssa.MakeClosure
	for _, b := range par.Blocks {
		for _, in := range b.Instrs {
			if mc, ok := in.(*ssa.MakeClosure); ok && mc.Fn == fn {
				out = append(out, mc)
			}
		}
	}
	return out
}
