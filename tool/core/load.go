// Package core holds the loader, the obligation/report plumbing and the
// shared SSA helpers of resverif. Nothing in this tool executes go-res code:
// the repository is parsed, type-checked and lowered to SSA on every run.
package core

import (
	"fmt"
	"go/token"
	"go/types"
	"os"
	"sort"
	"strings"

	"golang.org/x/tools/go/packages"
	"golang.org/x/tools/go/ssa"
	"golang.org/x/tools/go/ssa/ssautil"
)

// ModPath is the module whose library packages carry obligations.
const ModPath = "github.com/jirenius/go-res"

// LibPkgs are the library packages (relative to ModPath) that must be present
// and type-check; examples, restest and test are loaded but carry no rules.
var LibPkgs = []string{"", "logger", "store", "store/badgerstore", "store/mockstore", "resprot", "middleware", "middleware/resbadger"}

// Prog is the loaded, type-checked, SSA-lowered repository.
type Prog struct {
	Repo  string
	Fset  *token.FileSet
	Pkgs  map[string]*packages.Package // by path relative to ModPath ("" = root)
	SSA   *ssa.Program
	SPkgs map[string]*ssa.Package
	// Funcs are all functions with bodies declared in the library packages,
	// including methods and (transitively) anonymous functions; sorted by name.
	Funcs   []*ssa.Function
	byName  map[string]*ssa.Function
	NPkgAll int
}

// LoadError is returned when the tree cannot be loaded or type-checked.
type LoadError struct{ Msg string }

func (e *LoadError) Error() string { return e.Msg }

// Load parses and type-checks repo and builds SSA for every package.
func Load(repo string) (*Prog, error) {
	fset := token.NewFileSet()
	cfg := &packages.Config{
		Mode:  packages.LoadAllSyntax,
		Dir:   repo,
		Fset:  fset,
		Tests: false,
		Env: append(os.Environ(),
			"GOWORK=off", "GOFLAGS=-mod=mod", "GOPROXY=off", "GOSUMDB=off", "GOTOOLCHAIN=local"),
	}
	pkgs, err := packages.Load(cfg, "./...")
	if err != nil {
		return nil, &LoadError{"packages.Load: " + err.Error()}
	}
	if len(pkgs) == 0 {
		return nil, &LoadError{"no packages loaded from " + repo}
	}
	var errs []string
	packages.Visit(pkgs, nil, func(p *packages.Package) {
		if !strings.HasPrefix(p.PkgPath, ModPath) {
			return
		}
		for _, e := range p.Errors {
			errs = append(errs, e.Error())
		}
	})
	if len(errs) > 0 {
		sort.Strings(errs)
		if len(errs) > 10 {
			errs = errs[:10]
		}
		return nil, &LoadError{"type-check errors:\n  " + strings.Join(errs, "\n  ")}
	}
	p := &Prog{Repo: repo, Fset: fset, Pkgs: map[string]*packages.Package{}, SPkgs: map[string]*ssa.Package{}, byName: map[string]*ssa.Function{}}
	p.NPkgAll = len(pkgs)
	prog, spkgs := ssautil.AllPackages(pkgs, ssa.InstantiateGenerics)
	prog.Build()
	p.SSA = prog
	for i, pk := range pkgs {
		if !strings.HasPrefix(pk.PkgPath, ModPath) {
			continue
		}
		rel := strings.TrimPrefix(strings.TrimPrefix(pk.PkgPath, ModPath), "/")
		p.Pkgs[rel] = pk
		p.SPkgs[rel] = spkgs[i]
	}
	for _, rel := range LibPkgs {
		if p.Pkgs[rel] == nil || p.SPkgs[rel] == nil {
			return nil, &LoadError{fmt.Sprintf("library package %q missing from %s", rel, repo)}
		}
	}
	// Collect functions.
	seen := map[*ssa.Function]bool{}
	var add func(f *ssa.Function)
	add = func(f *ssa.Function) {
		if f == nil || seen[f] || f.Blocks == nil {
			return
		}
		seen[f] = true
		p.Funcs = append(p.Funcs, f)
		for _, a := range f.AnonFuncs {
			add(a)
		}
	}
	for _, rel := range LibPkgs {
		sp := p.SPkgs[rel]
		for _, m := range sp.Members {
			switch m := m.(type) {
			case *ssa.Function:
				add(m)
			case *ssa.Type:
				for _, t := range []types.Type{m.Type(), types.NewPointer(m.Type())} {
					ms := prog.MethodSets.MethodSet(t)
					for i := 0; i < ms.Len(); i++ {
						f := prog.MethodValue(ms.At(i))
						if f != nil && f.Pkg == sp && f.Synthetic == "" {
							add(f)
						}
					}
				}
			}
		}
	}
	sort.Slice(p.Funcs, func(i, j int) bool { return FuncName(p.Funcs[i]) < FuncName(p.Funcs[j]) })
	for _, f := range p.Funcs {
		p.byName[FuncName(f)] = f
	}
	return p, nil
}

// FuncName is the stable, module-relative name of a function used in
// obligation keys, e.g. "(*Service).runWith", "store/badgerstore.(writeTxn).Create$1".
func FuncName(f *ssa.Function) string {
	s := f.String()
	s = strings.ReplaceAll(s, ModPath+"/", "")
	s = strings.ReplaceAll(s, ModPath+".", "")
	s = strings.ReplaceAll(s, ModPath, "")
	return s
}

// Func returns the library function with the given module-relative name, or nil.
func (p *Prog) Func(name string) *ssa.Function { return p.byName[name] }

// FuncsOfPkg returns the library functions (incl. anonymous) of a package.
func (p *Prog) FuncsOfPkg(rel string) []*ssa.Function {
	var out []*ssa.Function
	sp := p.SPkgs[rel]
	for _, f := range p.Funcs {
		if f.Pkg == sp || (f.Pkg == nil && outermost(f).Pkg == sp) {
			out = append(out, f)
		}
	}
	return out
}

func outermost(f *ssa.Function) *ssa.Function {
	for f.Parent() != nil {
		f = f.Parent()
	}
	return f
}

// Outermost returns the enclosing declared function of an anonymous function.
func Outermost(f *ssa.Function) *ssa.Function { return outermost(f) }

// Pos renders a position relative to the repository root.
func (p *Prog) Pos(pos token.Pos) string {
	if !pos.IsValid() {
		return "-"
	}
	ps := p.Fset.Position(pos)
	fn := strings.TrimPrefix(ps.Filename, p.Repo+"/")
	return fmt.Sprintf("%s:%d", fn, ps.Line)
}

// InstrPos gives the best available position for an instruction.
func (p *Prog) InstrPos(in ssa.Instruction) string {
	if in == nil {
		return "-"
	}
	if in.Pos().IsValid() {
		return p.Pos(in.Pos())
	}
	// fall back to any positioned instruction of the block, then the function
	for _, o := range in.Block().Instrs {
		if o.Pos().IsValid() {
			return p.Pos(o.Pos()) + "~"
		}
	}
	return p.Pos(in.Parent().Pos()) + "~"
}

// NamedType looks up a named type in a library package.
func (p *Prog) NamedType(rel, name string) *types.Named {
	pk := p.Pkgs[rel]
	if pk == nil {
		return nil
	}
	o := pk.Types.Scope().Lookup(name)
	if o == nil {
		return nil
	}
	n, _ := o.Type().(*types.Named)
	return n
}
