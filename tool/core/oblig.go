package core

import (
	"bufio"
	"encoding/json"
	"fmt"
	"os"
	"path/filepath"
	"sort"
	"strings"
	"time"
)

// Status of an obligation.
type Status string

const (
	Discharged Status = "discharged"
	Violated   Status = "violated"
	Exempt     Status = "exempt"
	Undecided  Status = "undecided"  // the analyser could not decide: fails the check
	Unresolved Status = "unresolved" // an anchor could not be resolved: fails the check
)

// Obl is one rule instance.
type Obl struct {
	Prop       string `json:"-"`
	Rule       string `json:"rule"`
	Key        string `json:"key"` // Cxx/<rule>/<function>/<construct>; never a line number
	Status     Status `json:"status"`
	Pos        string `json:"pos,omitempty"`
	Fact       string `json:"fact,omitempty"`  // witness fact / reason
	Nontrivial bool   `json:"-"`               // needed a dataflow / dominance / value-flow fact
	Known      string `json:"known,omitempty"` // text of the matched known finding
}

// Run collects obligations for one property.
type Run struct {
	Prop        string
	Tier        string
	P           *Prog
	Obls        []*Obl
	Floors      map[string]int // rule -> minimum number of instances
	RuleDoc     map[string]string
	NotDecided  []string
	Assumptions []string
	Explanation string
	Analysed    map[string]int
	Extra       map[string]interface{}
}

func NewRun(prop, tier string, p *Prog) *Run {
	return &Run{Prop: prop, Tier: tier, P: p, Floors: map[string]int{}, RuleDoc: map[string]string{}, Analysed: map[string]int{}, Extra: map[string]interface{}{}}
}

// Rule declares a rule with its documentation and instance floor.
func (r *Run) Rule(rule, doc string, floor int) {
	r.RuleDoc[rule] = doc
	r.Floors[rule] = floor
}

func (r *Run) add(rule, fn, construct string, st Status, pos, fact string, nontrivial bool) *Obl {
	key := r.Prop + "/" + rule + "/" + fn + "/" + construct
	// de-duplicate keys by suffixing an ordinal (stable: insertion order is deterministic)
	n := 0
	for _, o := range r.Obls {
		if o.Key == key || strings.HasPrefix(o.Key, key+"#") {
			n++
		}
	}
	if n > 0 {
		key = fmt.Sprintf("%s#%d", key, n+1)
	}
	o := &Obl{Prop: r.Prop, Rule: rule, Key: key, Status: st, Pos: pos, Fact: fact, Nontrivial: nontrivial}
	r.Obls = append(r.Obls, o)
	return o
}

// OK records a discharged obligation.
func (r *Run) OK(rule, fn, construct, pos, fact string) *Obl {
	return r.add(rule, fn, construct, Discharged, pos, fact, true)
}

// OKTrivial records a discharged obligation that needed no flow fact.
func (r *Run) OKTrivial(rule, fn, construct, pos, fact string) *Obl {
	return r.add(rule, fn, construct, Discharged, pos, fact, false)
}

// Bad records a violated obligation.
func (r *Run) Bad(rule, fn, construct, pos, fact string) *Obl {
	return r.add(rule, fn, construct, Violated, pos, fact, true)
}

// Check records discharged or violated depending on ok.
func (r *Run) Check(ok bool, rule, fn, construct, pos, okFact, badFact string) *Obl {
	if ok {
		return r.OK(rule, fn, construct, pos, okFact)
	}
	return r.Bad(rule, fn, construct, pos, badFact)
}

// ExemptObl records a reasoned exemption.
func (r *Run) ExemptObl(rule, fn, construct, pos, reason string) *Obl {
	return r.add(rule, fn, construct, Exempt, pos, reason, false)
}

// Unres records an unresolved anchor (fails the check).
func (r *Run) Unres(rule, what, why string) *Obl {
	return r.add(rule, "anchor", what, Unresolved, "-", why, false)
}

// Undec records an undecided obligation (fails the check).
func (r *Run) Undec(rule, fn, construct, pos, why string) *Obl {
	return r.add(rule, fn, construct, Undecided, pos, why, false)
}

// ---- known findings --------------------------------------------------------

// Finding is a line of the committed known-findings file.
type Finding struct {
	Kind string // "finding" or "fixed"
	Prop string
	Rule string
	Key  string
	Text string
}

// LoadFindings parses the known-findings file. Format, one per line:
//
//	finding: property=C03 rule=N1 key=<obligation key> <what fails>
//	fixed: property=C04 <commit> rule=R1 key=<obligation key> <what failed>
func LoadFindings(path string) ([]Finding, error) {
	f, err := os.Open(path)
	if err != nil {
		if os.IsNotExist(err) {
			return nil, nil
		}
		return nil, err
	}
	defer f.Close()
	var out []Finding
	sc := bufio.NewScanner(f)
	sc.Buffer(make([]byte, 1<<20), 1<<20)
	for sc.Scan() {
		line := strings.TrimSpace(sc.Text())
		if line == "" || strings.HasPrefix(line, "#") {
			continue
		}
		var fd Finding
		switch {
		case strings.HasPrefix(line, "finding:"):
			fd.Kind = "finding"
			line = strings.TrimSpace(strings.TrimPrefix(line, "finding:"))
		case strings.HasPrefix(line, "fixed:"):
			fd.Kind = "fixed"
			line = strings.TrimSpace(strings.TrimPrefix(line, "fixed:"))
		default:
			return nil, fmt.Errorf("known findings: unparsable line %q", line)
		}
		var rest []string
		for _, w := range strings.Fields(line) {
			switch {
			case strings.HasPrefix(w, "property=") && fd.Prop == "":
				fd.Prop = strings.TrimPrefix(w, "property=")
			case strings.HasPrefix(w, "rule=") && fd.Rule == "":
				fd.Rule = strings.TrimPrefix(w, "rule=")
			case strings.HasPrefix(w, "key=") && fd.Key == "":
				fd.Key = strings.TrimPrefix(w, "key=")
			default:
				rest = append(rest, w)
			}
		}
		fd.Text = strings.Join(rest, " ")
		out = append(out, fd)
	}
	return out, sc.Err()
}

// ---- finish: report, evidence, exit code ---------------------------------

// Result summarises a finished run.
type Result struct {
	Exit       int
	Violations int
	Known      int
	ReportPath string
}

// Finish applies floors and known findings, writes the report and evidence
// file, prints the protocol lines and returns the exit code.
func (r *Run) Finish(verifDir string, seed int, start time.Time, quiet bool) Result {
	// floors
	count := map[string]int{}
	for _, o := range r.Obls {
		if o.Status == Discharged || o.Status == Violated || o.Status == Exempt {
			count[o.Rule]++
		}
	}
	var rules []string
	for ru := range r.Floors {
		rules = append(rules, ru)
	}
	sort.Strings(rules)
	for _, ru := range rules {
		if count[ru] < r.Floors[ru] {
			r.add(ru, "floor", fmt.Sprintf("instances>=%d", r.Floors[ru]), Unresolved, "-",
				fmt.Sprintf("rule matched %d instance(s), floor is %d: anchors moved or rule went vacuous", count[ru], r.Floors[ru]), false)
		}
	}
	// known findings
	fds, ferr := LoadFindings(filepath.Join(verifDir, "known_findings.txt"))
	var knownLines []string
	for _, o := range r.Obls {
		if o.Status != Violated {
			continue
		}
		for _, fd := range fds {
			if fd.Kind == "finding" && fd.Prop == r.Prop && fd.Key == o.Key {
				o.Known = fd.Text
				knownLines = append(knownLines, fmt.Sprintf("KNOWN-FINDING: property=%s %s [%s at %s]", r.Prop, fd.Text, o.Key, o.Pos))
			}
		}
	}
	sort.Slice(r.Obls, func(i, j int) bool { return r.Obls[i].Key < r.Obls[j].Key })

	nViol, nDis, nEx, nNT, nKnown := 0, 0, 0, 0, 0
	var failing []*Obl
	for _, o := range r.Obls {
		switch o.Status {
		case Discharged:
			nDis++
			if o.Nontrivial {
				nNT++
			}
		case Exempt:
			nEx++
		case Violated:
			if o.Known != "" {
				nKnown++
			} else {
				nViol++
				failing = append(failing, o)
			}
		default:
			nViol++
			failing = append(failing, o)
		}
	}
	if ferr != nil {
		nViol++
		failing = append(failing, &Obl{Key: r.Prop + "/known-findings-file", Status: Undecided, Fact: ferr.Error()})
	}

	// report
	os.MkdirAll(filepath.Join(verifDir, "reports"), 0o755)
	rp := filepath.Join(verifDir, "reports", fmt.Sprintf("%s.%s.txt", r.Prop, r.Tier))
	var sb strings.Builder
	fmt.Fprintf(&sb, "resverif report  property=%s tier=%s repo=%s\n", r.Prop, r.Tier, r.P.Repo)
	fmt.Fprintf(&sb, "obligations=%d discharged=%d exempt=%d known-findings=%d failing=%d\n\n", len(r.Obls), nDis, nEx, nKnown, nViol)
	if len(failing) > 0 {
		sb.WriteString("FAILING OBLIGATIONS\n")
		for _, o := range failing {
			fmt.Fprintf(&sb, "  [%s] %s\n      at %s\n      %s\n      rule: %s\n", o.Status, o.Key, o.Pos, o.Fact, r.RuleDoc[o.Rule])
		}
		sb.WriteString("\n")
	}
	sb.WriteString("ALL OBLIGATIONS\n")
	for _, o := range r.Obls {
		st := string(o.Status)
		if o.Known != "" {
			st = "known-finding"
		}
		fmt.Fprintf(&sb, "  %-13s %s  (%s)  %s\n", st, o.Key, o.Pos, o.Fact)
	}
	sb.WriteString("\nRULES\n")
	for _, ru := range rules {
		fmt.Fprintf(&sb, "  %s [instances=%d floor=%d]: %s\n", ru, count[ru], r.Floors[ru], r.RuleDoc[ru])
	}
	os.WriteFile(rp, []byte(sb.String()), 0o644)

	// evidence
	samples := []interface{}{}
	pick := func(st Status, n int) {
		k := 0
		for _, o := range r.Obls {
			if o.Status == st && (st != Discharged || o.Nontrivial) && k < n {
				samples = append(samples, map[string]string{"key": o.Key, "status": string(o.Status), "pos": o.Pos, "fact": o.Fact})
				k++
			}
		}
	}
	// spread samples over rules: first discharged obligation of each rule
	seenRule := map[string]bool{}
	for _, o := range r.Obls {
		if o.Status == Discharged && !seenRule[o.Rule] && len(samples) < 12 {
			seenRule[o.Rule] = true
			samples = append(samples, map[string]string{"key": o.Key, "status": string(o.Status), "pos": o.Pos, "fact": o.Fact})
		}
	}
	pick(Exempt, 3)
	pick(Violated, 5)
	if len(samples) == 0 {
		pick(Discharged, 5)
	}
	exempt := []map[string]string{}
	for _, o := range r.Obls {
		if o.Status == Exempt {
			exempt = append(exempt, map[string]string{"key": o.Key, "reason": o.Fact})
		}
	}
	known := []map[string]string{}
	for _, o := range r.Obls {
		if o.Known != "" {
			known = append(known, map[string]string{"key": o.Key, "pos": o.Pos, "text": o.Known})
		}
	}
	fail := []map[string]string{}
	for _, o := range failing {
		fail = append(fail, map[string]string{"key": o.Key, "status": string(o.Status), "pos": o.Pos, "fact": o.Fact})
	}
	ruleDocs := map[string]string{}
	for k, v := range r.RuleDoc {
		ruleDocs[k] = v
	}
	cov := map[string]interface{}{
		"explanation":         r.Explanation,
		"obligations":         len(r.Obls),
		"discharged":          nDis + nEx,
		"evaluations":         len(r.Obls),
		"distinct_nontrivial": nNT,
		"rule":                "one obligation per (rule, function, construct) instance found in /repo's current SSA/AST; keys are semantic (never line numbers) and unique; non-trivial = discharge needed a dataflow, dominance, reachability or value-flow fact computed on this run",
		"samples":             samples,
		"analysed":            r.Analysed,
		"instance_counts":     count,
		"floors":              r.Floors,
		"rules":               ruleDocs,
		"exempt":              exempt,
		"known_findings":      known,
		"failing":             fail,
		"not_decided":         r.NotDecided,
		"checker_cmd":         fmt.Sprintf("/verif/check %s %s", r.Prop, r.Tier),
		"trusted_base":        []string{"go/types", "golang.org/x/tools v0.29.0 go/packages + go/ssa", "sync, sync/atomic, encoding/json semantics", "documented semantics of nats.go, badger, keylock, taskqueue, timerqueue"},
		"exhaustive":          true,
	}
	for k, v := range r.Extra {
		cov[k] = v
	}
	ev := map[string]interface{}{
		"property_id": r.Prop,
		"tier":        r.Tier,
		"seed":        seed,
		"level":       "other",
		"coverage":    cov,
		"assumptions": r.Assumptions,
		"wall_s":      time.Since(start).Seconds(),
		"violations":  nViol,
	}
	os.MkdirAll(filepath.Join(verifDir, "evidence"), 0o755)
	b, _ := json.MarshalIndent(ev, "", " ")
	os.WriteFile(filepath.Join(verifDir, "evidence", r.Prop+".json"), append(b, '\n'), 0o644)

	// protocol lines
	if !quiet {
		fmt.Printf("resverif %s %s: %d obligations, %d discharged, %d exempt, %d known findings, %d failing (report %s)\n",
			r.Prop, r.Tier, len(r.Obls), nDis, nEx, nKnown, nViol, rp)
	}
	sort.Strings(knownLines)
	for _, l := range knownLines {
		fmt.Println(l)
	}
	res := Result{Violations: nViol, Known: nKnown, ReportPath: rp}
	if nViol > 0 {
		for _, o := range failing {
			fmt.Printf("  %s: %s at %s: %s\n", o.Status, o.Key, o.Pos, o.Fact)
		}
		fmt.Printf("VIOLATION property=%s replay=%s\n", r.Prop, rp)
		res.Exit = 1
	}
	return res
}
