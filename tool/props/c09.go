package props

import (
	"fmt"
	"go/token"
	"go/types"
	"strings"

	"golang.org/x/tools/go/ssa"

	"resverif/core"
)

func init() { register("C09", c09) }

// nearestLoopHead returns the innermost loop head dominating b (or nil).
func nearestLoopHead(fn *ssa.Function, b *ssa.BasicBlock) *ssa.BasicBlock {
	var best *ssa.BasicBlock
	for h := range rangeLoopHead(fn) {
		if (h == b || h.Dominates(b)) && reachesBlock(b, h) {
			if best == nil || best.Dominates(h) {
				best = h
			}
		}
	}
	return best
}

func c09(r *core.Run) {
	p := r.P
	r.Explanation = "Agreement and who-may-access rules around ownership: the two ownership lists are written only by the setter and the defaulting function and read only by defaulting, subscribe and ResetAll, both of which default before their first read; reset publishes exactly the two lists; subscriptions are the product request-type x list with a method wildcard exactly for the types whose subject carries a method, never after a full wildcard; every subscription passes the in-channel and uses the queue variant iff a queue group is set; both subscription loops filter patterns covered by another one (the access loop does not: known finding); subscription errors propagate to Serve; the default-ownership predicates mention exactly the handler kinds the dispatcher serves; a possibly empty service path never becomes a bare subject token; reconnects re-announce ownership (the reconnect handler that calls ResetAll is installed unconditionally). Covering for arbitrary user lists is pattern algebra at run time and is not decided."
	r.NotDecided = []string{"covering / redundancy for arbitrary user-supplied ownership lists (e.g. duplicate entries cancel each other in the filter)", "NATS matching semantics"}
	r.Assumptions = []string{"SetOwnedResources is called before Serve (documented)"}

	r.Rule("S1", "one source: the ownership lists are written only by SetOwnedResources and the defaulting function; subscribe and ResetAll call the defaulting function before reading them; ResetAll passes exactly the two lists to reset, which publishes them as resources/access", 6)
	r.Rule("S9", "defaults are fixed only while serving: the one-shot defaulting of the ownership lists is called only from serve's start-up sequence or on a path dominated by the state==started test (default ownership is meant to reflect the handler kinds registered when the service starts)", 2)
	r.Rule("S2", "type x list: resource patterns are combined with {get,call,auth}, access patterns with access; the method wildcard is appended only where the last byte is not '>'", 3)
	r.Rule("S3", "subscription shape: every subscription passes the in-channel; the queue variant is used iff the queue group is non-empty with that group; each subscription loop skips patterns covered by another pattern", 6)
	r.Rule("S4", "errors: a failed subscription returns its error from subscribe, and serve tests subscribe's result", 3)
	r.Rule("S11", "covering is decided token-wise (shared with C17.G1): Pattern.Matches, which decides which owned pattern covers which (and so which subjects are subscribed), gives '$', '*' or '>' wildcard meaning only under its token-start flag - a shortcut that compares raw prefixes up to a '>' treats \"a.>\" as covering \"ab.c\", and the subscription for the covered pattern is dropped", 3)
	c17WildcardGuard(r, "S11", func(fn *ssa.Function) bool { return fn.Name() == "Matches" })
	r.Rule("S10", "one set of subscriptions per run: the subscribing function is called only from serve's start-up sequence (never from the reconnect handler or any other entry point): the client library restores subscriptions after a reconnect itself, a second call duplicates every subscription", 1)
	r.Rule("S5", "ownership predicate: the handler kinds read by the default-ownership predicates are exactly the kinds the dispatcher serves (resources: Get, Call, Auth, New; access: Access)", 2)
	r.Rule("S8", "kind detection is exhaustive: in the trie traversal behind Mux.Contains the predicate's result is only ever branched on - a false answer for one node never ends the traversal (it is never returned or merged into the result), so a handler kind registered anywhere in the trie is found", 1)
	r.Rule("S6", "possibly-empty path: the service path is used in a subject or pattern only through mergePattern or under a non-empty test", 5)
	r.Rule("S7", "reconnect re-announces: the reconnect handler calls ResetAll and is installed unconditionally by both Serve entry points (only the *nats.Conn type test may guard it)", 3)

	root := p.FuncsOfPkg("")
	// anchors by role: the two lists are the fields the exported setter stores its arguments
	// into; the defaulting function is their only other writer; reset is the callee of ResetAll
	// that receives both lists; subscribe is the Service method that reads a list and (with its
	// private helpers) subscribes on the connection
	resF, ok1 := setterField(p, "", "Service", "SetOwnedResources", 0)
	accF, ok2 := setterField(p, "", "Service", "SetOwnedResources", 1)
	resetAll := methodNamed(p, "", "Service", "ResetAll")
	if !ok1 || !ok2 || resetAll == nil {
		r.Unres("S1", "SetOwnedResources/ResetAll", "cannot resolve the ownership list fields from the exported setter")
		return
	}
	// the setter keeps what it was given: nil ("not set, use the defaults") and an empty list ("own
	// nothing of this kind") are different answers, so the stored value is the argument itself or a
	// copy made only where the argument is known non-nil (and then non-nil itself)
	if setter := methodNamed(p, "", "Service", "SetOwnedResources"); setter != nil {
		for i, lf := range []core.Field{resF, accF} {
			prm := setter.Params[i+1]
			for _, b := range setter.Blocks {
				for _, in := range b.Instrs {
					st, ok := in.(*ssa.Store)
					if !ok {
						continue
					}
					if f, ok := core.FieldOf(st.Addr); !ok || f != lf {
						continue
					}
					bad := ""
					for _, src := range phiSources(st.Val) {
						v := core.Strip(src.V)
						if v == ssa.Value(prm) {
							continue
						}
						if c, isC := v.(*ssa.Const); isC && c.IsNil() {
							// nil only where the argument is nil
							nilArg := false
							for _, e := range srcEdges(st, src) {
								ci := core.Cond(e.If.Cond)
								if ci.Kind == "nilcmp" && core.Strip(ci.X) == ssa.Value(prm) {
									truth := e.Succ == 0
									if ci.Negate {
										truth = !truth
									}
									if (ci.Op == token.EQL) == truth {
										nilArg = true
									}
								}
							}
							if !nilArg {
								bad = "nil is stored where the argument may be non-nil"
							}
							continue
						}
						// a copy: allowed on the argument-non-nil edge when the copy is a fresh non-nil slice
						nonNilArg := false
						for _, e := range srcEdges(st, src) {
							ci := core.Cond(e.If.Cond)
							if ci.Kind == "nilcmp" && core.Strip(ci.X) == ssa.Value(prm) {
								truth := e.Succ == 0
								if ci.Negate {
									truth = !truth
								}
								if (ci.Op == token.NEQ) == truth {
									nonNilArg = true
								}
							}
						}
						_, isMake := v.(*ssa.MakeSlice)
						if !(nonNilArg && isMake) {
							bad = "the stored value is " + valDesc(src.V) + ", not the argument: a copy made with append onto a nil slice turns an empty list into nil, a copy made with make turns nil into an empty list"
						}
					}
					r.Check(bad == "", "S1", core.FuncName(setter), "setter-keeps-nil-and-empty-apart("+lf.String()+")", p.InstrPos(st), "the list is stored as given", "SetOwnedResources does not keep nil and empty apart: "+bad+" - an explicit empty ownership is replaced by the defaults (or the defaults are switched off), so the service subscribes to and resets patterns it was told not to own")
				}
			}
		}
	}
	isList := func(f core.Field) bool { return f == resF || f == accF }
	var deflt, resetFn, sub *ssa.Function
	for _, ac := range core.FieldAccesses(root, isList) {
		o := core.Outermost(ac.Fn)
		if ac.Write && o.Name() != "SetOwnedResources" {
			// a helper the exported setters share (setOwnership) is part of the setters, not the defaulting
			if cs := p.CallersOf(o); len(cs) > 0 && p.IsPrivateHelper(o) {
				onlySetters := true
				for _, c := range cs {
					co := core.Outermost(c.Parent())
					if !(strings.HasPrefix(co.Name(), "Set") && co.Object() != nil && co.Object().Exported()) {
						onlySetters = false
					}
				}
				if onlySetters {
					continue
				}
			}
			for p.IsPrivateHelper(o) && len(p.CallersOf(o)) == 1 && core.Outermost(p.CallersOf(o)[0].Parent()).Name() != "ResetAll" && !hasSubscribeInvoke(p, core.Outermost(p.CallersOf(o)[0].Parent())) {
				o = core.Outermost(p.CallersOf(o)[0].Parent())
			}
			deflt = o
		}
	}
	for _, c := range core.Calls(resetAll) {
		if cal := c.Common().StaticCallee(); cal != nil && len(c.Common().Args) >= 3 {
			n := 0
			for _, a := range c.Common().Args {
				if f, ok := core.LoadedField(a); ok && isList(f) {
					n++
				}
			}
			if n == 2 {
				resetFn = cal
			}
		}
	}
	for _, fn := range methodsOf(p, "", "Service") {
		if fn == resetAll || fn == deflt || !hasSubscribeInvoke(p, fn) {
			continue
		}
		for _, ac := range core.FieldAccesses([]*ssa.Function{fn}, isList) {
			if !ac.Write {
				sub = fn
			}
		}
	}
	if sub == nil {
		sub = subscribeFn(p)
	}
	if sub == nil || deflt == nil || resetFn == nil {
		r.Unres("S1", "subscribe/defaulting/reset", "cannot resolve the subscribing method, the defaulting function or reset")
		return
	}
	// ---- S9 --------------------------------------------------------------
	// the defaulting is one-shot (it only replaces nil lists): run on a service that is not serving
	// it freezes the defaults for the handler kinds registered so far
	if sa := resolveSvc(r, "S9"); sa.ok {
		ops, _ := stateOps(root, sa)
		started := int64(-1)
		started = startedConst(p, sa, ops)
		n := 0
		for _, c := range p.CallersOf(deflt) {
			f := c.Parent()
			n++
			switch {
			case p.Within(f, sa.Serve) || p.Within(f, sub):
				r.OK("S9", core.FuncName(f), "defaulting-only-while-serving", p.InstrPos(c), "called from the start-up sequence of serve")
			default:
				dom := false
				for _, ed := range ctxEdges(p, c, core.Outermost(f), 0) {
					if started >= 0 && startedEdge(ed, started) {
						dom = true
					}
				}
				r.Check(dom, "S9", core.FuncName(f), "defaulting-only-while-serving", p.InstrPos(c), "the call is dominated by the state==started edge", "the one-shot ownership defaulting can run on a service that is not started: called before the handlers are registered it freezes the default lists, and handler kinds registered afterwards get no subscription and are missing from system.reset")
			}
		}
		if n == 0 {
			r.Bad("S9", core.FuncName(deflt), "defaulting-only-while-serving", p.Pos(deflt.Pos()), "the defaulting function is never called")
		}
	}

	// ---- S1 --------------------------------------------------------------
	writers, readers := map[string]bool{}, map[string]bool{}
	for _, ac := range core.FieldAccesses(root, func(f core.Field) bool { return f == resF || f == accF }) {
		o := core.Outermost(ac.Fn)
		if ac.Write {
			writers[core.FuncName(o)] = true
		} else {
			readers[core.FuncName(o)] = true
		}
	}
	allowedW := map[string]bool{"(*Service).SetOwnedResources": true}
	// ... and a private helper that only exported setters call (setOwnership shared by SetOwnedResources / SetReset)
	for _, fn := range root {
		if cs := p.CallersOf(fn); len(cs) > 0 && p.IsPrivateHelper(fn) {
			only := true
			for _, c := range cs {
				co := core.Outermost(c.Parent())
				if !(strings.HasPrefix(co.Name(), "Set") && co.Object() != nil && co.Object().Exported()) {
					only = false
				}
			}
			if only {
				allowedW[core.FuncName(fn)] = true
			}
		}
	}
	for n := range writers {
		if allowedW[n] {
			continue
		}
		// helper of the defaulting function is fine; anything else is not
		ok := n == core.FuncName(deflt)
		for _, h := range p.Helpers(deflt) {
			if core.FuncName(h) == n {
				ok = true
			}
		}
		r.Check(ok, "S1", n, "writes-ownership-lists", "-", "defaulting function", "ownership lists are written by "+n+": subscriptions and reset could be built from different lists")
	}
	helperOf := map[string]bool{}
	for _, top := range []*ssa.Function{deflt, sub, resetAll} {
		for _, h := range p.Helpers(top) {
			helperOf[core.FuncName(h)] = true
		}
	}
	for n := range readers {
		ok := n == core.FuncName(deflt) || n == core.FuncName(sub) || n == core.FuncName(resetAll) || helperOf[n]
		r.Check(ok, "S1", n, "reads-ownership-lists", "-", "one of defaulting / subscribe / ResetAll", "ownership lists are read by "+n)
	}
	// defaulting replaces only a nil list: an explicitly empty list means "own nothing of this kind"
	for _, ac := range core.FieldAccesses(p.Helpers(deflt), isList) {
		if ac.Kind != "store" {
			continue
		}
		nilOnly := false
		for _, ed := range ctxEdges(p, ac.Instr, deflt, 0) {
			ci := core.Cond(ed.If.Cond)
			if ci.Kind == "nilcmp" && ci.HasFld && ci.Field == ac.F {
				truth := ed.Succ == 0
				if ci.Negate {
					truth = !truth
				}
				if (ci.Op == token.EQL) == truth {
					nilOnly = true
				}
			}
		}
		lab := "resources"
		if ac.F == accF {
			lab = "access"
		}
		// ... and each list defaults on its own: the store is not behind a test of the other list
		// (a list set explicitly must not keep the other one from getting its default)
		independent := true
		for _, ed := range ctxEdges(p, ac.Instr, deflt, 0) {
			for _, ft := range edgeFacts(ed) {
				ci := core.Cond(ft.V)
				if ci.Kind == "nilcmp" && ci.HasFld && isList(ci.Field) && ci.Field != ac.F {
					independent = false
				}
			}
		}
		{
			lab2 := "resources"
			if ac.F == accF {
				lab2 = "access"
			}
			r.Check(independent, "S1", core.FuncName(ac.Fn), "default-independent-of-the-other-list("+lab2+")", p.InstrPos(ac.Instr), "the default of this list does not depend on whether the other list is set", "the default of the "+lab2+" list is applied only under a condition on the other ownership list: with one list set explicitly the other stays nil for good - no subscription is made for that kind of request although handlers are registered, and the reset omits the patterns")
		}
		r.Check(nilOnly, "S1", core.FuncName(ac.Fn), "default-only-when-nil("+lab+")", p.InstrPos(ac.Instr), "the default replaces only an unset (nil) list", "the default ownership also replaces a list that was explicitly set to empty (the store is not on the list==nil edge): a service configured to own no "+lab+" patterns subscribes to and announces the default patterns anyway")
	}
	for _, fn := range []*ssa.Function{sub, resetAll} {
		var dc ssa.CallInstruction
		for _, c := range core.Calls(fn) {
			if c.Common().StaticCallee() == deflt {
				dc = c
			}
		}
		good := dc != nil
		if good {
			var scope []*ssa.Function
			for _, h := range p.Helpers(fn) {
				if !p.Within(h, deflt) {
					scope = append(scope, h)
				}
			}
			for _, ac := range core.FieldAccesses(scope, func(f core.Field) bool { return f == resF || f == accF }) {
				if !p.DominatesIn(fn, dc, ac.Instr) {
					good = false
				}
			}
		}
		r.Check(good, "S1", core.FuncName(fn), "defaults-before-first-read", posOf(p, dc), "the lists are defaulted before they are read", "ownership lists are read before the defaulting function ran: subscriptions and reset could disagree on the first start")
	}
	for _, c := range callsTo([]*ssa.Function{resetAll}, resetFn) {
		f1, ok1 := core.LoadedField(c.Common().Args[1])
		f2, ok2 := core.LoadedField(c.Common().Args[2])
		r.Check(ok1 && ok2 && f1 == resF && f2 == accF, "S1", core.FuncName(resetAll), "reset(resources,access)", p.InstrPos(c), "ResetAll announces the owned resource and access lists, in that order", "ResetAll announces "+valDesc(c.Common().Args[1])+" / "+valDesc(c.Common().Args[2]))
	}
	// reset publishes params as Resources / Access (the callee of ResetAll may be a forwarder - the
	// exported Reset - that hands both lists on unchanged)
	{
		i1, i2 := 1, 2
		for depth := 0; depth < 3; depth++ {
			builds := false
			for _, b := range resetFn.Blocks {
				for _, in := range b.Instrs {
					if st, ok := in.(*ssa.Store); ok {
						if f, ok := core.FieldOf(st.Addr); ok && f.Struct == "resetEvent" {
							builds = true
						}
					}
				}
			}
			if builds || i1 >= len(resetFn.Params) || i2 >= len(resetFn.Params) {
				break
			}
			var next *ssa.Function
			n1, n2 := -1, -1
			for _, c := range core.Calls(resetFn) {
				cal := c.Common().StaticCallee()
				if cal == nil || len(cal.Blocks) == 0 || cal.Pkg != resetFn.Pkg {
					continue
				}
				a1, a2 := -1, -1
				for j, a := range c.Common().Args {
					if a == ssa.Value(resetFn.Params[i1]) {
						a1 = j
					}
					if a == ssa.Value(resetFn.Params[i2]) {
						a2 = j
					}
				}
				if a1 >= 0 && a2 >= 0 {
					next, n1, n2 = cal, a1, a2
				}
			}
			if next == nil {
				break
			}
			resetFn, i1, i2 = next, n1, n2
		}
		got := map[string]string{}
		for _, b := range resetFn.Blocks {
			for _, in := range b.Instrs {
				if st, ok := in.(*ssa.Store); ok {
					if f, ok := core.FieldOf(st.Addr); ok && f.Struct == "resetEvent" {
						// (a list that is empty may be replaced by nil afterwards: "sent as if never provided")
						if k, isC := st.Val.(*ssa.Const); isC && k.IsNil() && got[f.Name] != "" {
							continue
						}
						if prev, seen := got[f.Name]; seen && prev != "" && prev != paramRoot(st.Val) {
							got[f.Name] = prev + "|" + paramRoot(st.Val)
							continue
						}
						got[f.Name] = paramRoot(st.Val)
					}
				}
			}
		}
		r.Check(i1 < len(resetFn.Params) && i2 < len(resetFn.Params) && got["Resources"] == resetFn.Params[i1].Name() && got["Access"] == resetFn.Params[i2].Name(), "S1", core.FuncName(resetFn), "payload{resources<-arg1,access<-arg2}", p.Pos(resetFn.Pos()), "the reset payload carries the two lists it was given", fmt.Sprintf("reset payload is built from %v", got))
	}

	// ---- S2 --------------------------------------------------------------
	sf, why := extractSubFacts(p)
	if sf == nil {
		r.Unres("S2", "subscribe-facts", why)
		return
	}
	r.Check(strings.Join(sf.resTypes, ",") == "auth,call,get" && sf.accessPfx == "access", "S2", core.FuncName(sub), "types:{get,call,auth}x-resources,{access}x-access", p.Pos(sub.Pos()), "request types are the protocol's four", fmt.Sprintf("subscribe iterates %v for resources and prefix %q for access", sf.resTypes, sf.accessPfx))
	// list provenance of the concatenations
	listOf := func(v ssa.Value) string {
		if u, ok := v.(*ssa.UnOp); ok {
			if ia, ok := u.X.(*ssa.IndexAddr); ok {
				if f, ok := core.LoadedField(ia.X); ok {
					return f.Name
				}
			}
		}
		return ""
	}
	nConc := 0
	var subBlocks []*ssa.BasicBlock
	for _, h := range p.Helpers(sub) {
		if !p.Within(h, deflt) {
			subBlocks = append(subBlocks, h.Blocks...)
		}
	}
	for _, b := range subBlocks {
		for _, in := range b.Instrs {
			bo, ok := in.(*ssa.BinOp)
			if !ok || bo.Op != token.ADD {
				continue
			}
			l := listOf(bo.Y)
			if l == "" {
				continue
			}
			nConc++
			if s, ok := core.ConstString(bo.X); ok {
				r.Check(s == "access." && l == accF.Name, "S2", core.FuncName(sub), "prefix("+s+")x"+l, p.InstrPos(bo), "access subscriptions range over the access list", "prefix "+s+" is combined with list "+l)
			} else {
				r.Check(l == resF.Name, "S2", core.FuncName(sub), "type+'.'x"+l, p.InstrPos(bo), "get/call/auth subscriptions range over the resource list", "request-type subscriptions range over list "+l)
			}
		}
	}
	c09MethodWildcard(r, "S2", sub, subBlocks)

	// ---- S3 / S4 -----------------------------------------------------------
	inCh, okc := fieldByType(p, "", "Service", func(t types.Type) bool { _, ok := t.Underlying().(*types.Chan); return ok })
	qg, okq := setterField(p, "", "Service", "SetQueueGroup", 0)
	if !okc || !okq {
		r.Unres("S3", "Service.<in-channel>/<queue-group>", "cannot resolve the in-channel (the chan field) or the queue group (stored by SetQueueGroup)")
		return
	}
	// subscription invokes in subscribe and its private helpers, each with the call
	// site(s) in subscribe through which it runs
	type subSite struct {
		inv  ssa.CallInstruction
		site ssa.Instruction // in sub
	}
	var sites []subSite
	for _, f2 := range p.Helpers(sub) {
		for _, c := range core.Calls(f2) {
			if c.Common().IsInvoke() && (c.Common().Method.Name() == "ChanSubscribe" || c.Common().Method.Name() == "ChanQueueSubscribe") {
				for _, l := range p.Lift(c, sub) {
					sites = append(sites, subSite{c, l})
				}
			}
		}
	}
	mayMatch := mayExec(root, func(in ssa.Instruction) bool {
		c, ok := in.(ssa.CallInstruction)
		if !ok {
			return false
		}
		cal := c.Common().StaticCallee()
		return cal != nil && cal.Name() == "Matches" && cal.Signature.Recv() != nil && core.TypeName(cal.Signature.Recv().Type()) == "Pattern"
	})
	var matches []ssa.CallInstruction
	for _, c := range core.Calls(sub) {
		if cal := c.Common().StaticCallee(); cal != nil && (mayMatch[cal] || (cal.Name() == "Matches" && cal.Signature.Recv() != nil && core.TypeName(cal.Signature.Recv().Type()) == "Pattern")) {
			matches = append(matches, c)
		}
	}
	// the covering test is applied to every other pattern: no condition that depends on the
	// patterns' text may stand between the loops and the Matches call
	for _, f2 := range p.Helpers(sub) {
		for _, c := range core.Calls(f2) {
			cal := c.Common().StaticCallee()
			if cal == nil || cal.Name() != "Matches" || cal.Signature.Recv() == nil || core.TypeName(cal.Signature.Recv().Type()) != "Pattern" {
				continue
			}
			bad := ""
			for _, ed := range dominatingEdges(c) {
				cnd, _ := ed.Norm()
				if contentDependent(cnd, 0) {
					bad = describeCond(ed)
				}
			}
			// disjunctive pre-filters dominate by no single edge: within the iteration, a
			// text-dependent branch placed before the test must not have a successor that bypasses it
			if h := nearestLoopHead(f2, c.Block()); h != nil {
				noStop := func(*ssa.BasicBlock) bool { return false }
				bar := map[*ssa.BasicBlock]bool{h: true}
				for _, b := range f2.Blocks {
					iff, ok := b.Instrs[len(b.Instrs)-1].(*ssa.If)
					if !ok || b == c.Block() || b == h || !h.Dominates(b) || !contentDependent(iff.Cond, 0) {
						continue
					}
					if !reachAvoiding(b, c.Block(), noStop, bar) {
						continue // not before the test in this iteration
					}
					for _, sc := range b.Succs {
						if !reachAvoiding(sc, c.Block(), noStop, bar) {
							bad = "branch at " + p.InstrPos(iff)
						}
					}
				}
			}
			r.Check(bad == "", "S3", core.FuncName(f2), "covering-test-not-prefiltered", p.InstrPos(c), "every other pattern is tested with Pattern.Matches (only index conditions guard the test)", "the covering test is skipped depending on the patterns' text ("+bad+"): a pattern covered by one that the pre-filter excludes (e.g. a placeholder pattern) is subscribed redundantly and its requests are delivered twice")
			// ... and "every other pattern" means the whole list: the covering pattern is an element of
			// the list itself, not of a prefix / suffix of it (patterns[:i] misses a broader pattern that
			// is listed after the narrower one)
			{
				var elemOf func(v ssa.Value, d int) ssa.Value
				elemOf = func(v ssa.Value, d int) ssa.Value {
					if d > 5 {
						return nil
					}
					switch x := v.(type) {
					case *ssa.ChangeType:
						return elemOf(x.X, d+1)
					case *ssa.Convert:
						return elemOf(x.X, d+1)
					case *ssa.UnOp:
						if ia, ok := x.X.(*ssa.IndexAddr); ok {
							return ia.X
						}
					case *ssa.Index:
						return x.X
					}
					return nil
				}
				partial := ""
				for _, a := range c.Common().Args {
					if base := elemOf(a, 0); base != nil {
						if sl, ok := base.(*ssa.Slice); ok && (sl.Low != nil || sl.High != nil) {
							partial = valDesc(base)
						}
					}
				}
				r.Check(partial == "", "S3", core.FuncName(f2), "covering-test-ranges-over-the-whole-list", p.InstrPos(c), "the candidates for covering a pattern are all patterns of the list", "the covering test looks only at a part of the pattern list ("+partial+"): a pattern covered by one that is listed on the other side of it is subscribed as well, and its requests are delivered - and answered - twice")
			}
		}
	}
	for i, ss := range sites {
		c := ss.inv
		args := c.Common().Args
		isQ := c.Common().Method.Name() == "ChanQueueSubscribe"
		chF, chok := core.LoadedField(args[len(args)-1])
		edgeOK := false
		for _, ed := range dominatingEdges(c) {
			d := describeCond(ed)
			if !isQ && d == qg.String()+`==""` {
				edgeOK = true
			}
			if isQ && d == qg.String()+`!=""` {
				edgeOK = true
			}
		}
		qArgOK := true
		if isQ {
			f, ok := core.LoadedField(args[1])
			qArgOK = ok && f == qg
		}
		which := "resource-loop"
		subjArgs := []ssa.Value{args[0]}
		if sc, ok := ss.site.(ssa.CallInstruction); ok && ss.site != ssa.Instruction(c) {
			subjArgs = sc.Common().Args
		}
		for _, sa := range subjArgs {
			if strings.Contains(valDesc(sa), "access.") || subjectHasPrefix(sa, "access.") {
				which = "access-loop"
			}
			if builtWithType(sa, sf.accessPfx) {
				which = "access-loop"
			}
		}
		r.Check(chok && chF == inCh && edgeOK && qArgOK, "S3", core.FuncName(sub), fmt.Sprintf("%s:%s#%d:in-channel+queue-variant", which, c.Common().Method.Name(), i), p.InstrPos(c),
			"passes the in-channel; queue variant exactly when a queue group is set", fmt.Sprintf("subscription shape broken: inChannel=%v queueEdge=%v queueArg=%v", chok && chF == inCh, edgeOK, qArgOK))
		// redundancy filter
		lh := nearestLoopHead(sub, ss.site.Block())
		filtered := false
		for _, m := range matches {
			if lh != nil && (lh == m.Block() || lh.Dominates(m.Block())) && core.Reaches(m, ss.site) {
				filtered = true
			}
		}
		if !isQ {
			r.Check(filtered, "S3", "<subscribe>", which+":covered-patterns-skipped", p.InstrPos(ss.site), "a pattern matched by another pattern of the list is not subscribed again", "the "+which+" subscribes every pattern without skipping those covered by another one: overlapping owned patterns are delivered more than once when no queue group is used")
		}
		// S4: the error travels from the invoke to subscribe's return
		errRet := false
		if c.Value() != nil && c.Value().Referrers() != nil {
			for _, rf := range *c.Value().Referrers() {
				if ex, ok := rf.(*ssa.Extract); ok && ex.Index == 1 {
					errRet = errorReachesReturn(ex, c.Parent())
				}
			}
		}
		if errRet && ss.site != ssa.Instruction(c) {
			sv, _ := ss.site.(ssa.Value)
			errRet = sv != nil && errorReachesReturn(sv, sub)
		}
		r.Check(errRet, "S4", core.FuncName(sub), fmt.Sprintf("%s:%s#%d:error-returned", which, c.Common().Method.Name(), i), p.InstrPos(c), "a failed subscription aborts subscribe with its error", "a subscription error is dropped")
	}
	c09ErrorsTested(r, "S4", sub)
	// S10: one set of subscriptions per run
	c09SubscribesOnlyAtStartUp(r, "S10", sub)
	for _, sc := range callsTo(root, sub) {
		serve := sc.Parent()
		tested := false
		if sc.Value() != nil && sc.Value().Referrers() != nil {
			for _, rf := range *sc.Value().Referrers() {
				if bo, ok := rf.(*ssa.BinOp); ok && bo.Referrers() != nil {
					for _, r2 := range *bo.Referrers() {
						if _, ok := r2.(*ssa.If); ok {
							tested = true
						}
					}
				}
			}
		}
		r.Check(tested, "S4", core.FuncName(serve), "tests-subscribe-error", p.Pos(serve.Pos()), "serve branches on subscribe's error", "serve ignores subscribe's error")
	}

	// ---- S5 --------------------------------------------------------------
	predFields := map[string]map[string]bool{}
	for _, cl := range handlerPredicates(p, deflt) {
		set := map[string]bool{}
		for _, b := range cl.Blocks {
			for _, in := range b.Instrs {
				var v ssa.Value
				switch x := in.(type) {
				case *ssa.Field:
					v = x
				case *ssa.UnOp:
					v = x
				}
				if v == nil {
					continue
				}
				if f, ok := core.LoadedField(v); ok && f.Struct == "Handler" {
					set[f.Name] = true
				}
			}
		}
		predFields[strings.Join(core.SortedKeys(set), ",")] = set
	}
	dispF := map[string]bool{}
	if m := c04Models(r, "S5")["Request"]; m != nil {
		for _, d0 := range dispatcherOf(p, m) {
			for _, d := range p.Helpers(d0) {
				for _, b := range d.Blocks {
					for _, in := range b.Instrs {
						if u, ok := in.(*ssa.UnOp); ok {
							if f, ok := core.LoadedField(u); ok && f.Struct == "Handler" {
								dispF[f.Name] = true
							}
						}
					}
				}
			}
		}
	}
	union := map[string]bool{}
	hasAccessOnly := false
	for k, s := range predFields {
		if k == "Access" {
			hasAccessOnly = true
		}
		for f := range s {
			union[f] = true
		}
	}
	u1, u2 := strings.Join(core.SortedKeys(union), ","), strings.Join(core.SortedKeys(dispF), ",")
	r.Check(u1 == u2 && hasAccessOnly && len(predFields) == 2, "S5", core.FuncName(deflt), "predicate-kinds==dispatched-kinds", p.Pos(deflt.Pos()), "default ownership considers {"+u1+"}, the dispatcher serves {"+u2+"}", "default ownership considers {"+u1+"} but the dispatcher serves {"+u2+"}: a service with only the missing kind would own nothing and subscribe to nothing")
	r.OKTrivial("S5", core.FuncName(deflt), "access-predicate=={Access}", p.Pos(deflt.Pos()), fmt.Sprintf("predicates: %v", core.SortedKeys(predFields)))

	// ---- S8 --------------------------------------------------------------
	if cm := methodNamed(p, "", "Mux", "Contains"); cm != nil {
		seen := map[*ssa.Function]bool{}
		var tree []*ssa.Function
		var walk func(f *ssa.Function)
		walk = func(f *ssa.Function) {
			if f == nil || seen[f] || len(f.Blocks) == 0 || f.Pkg != cm.Pkg {
				return
			}
			seen[f] = true
			tree = append(tree, f)
			for _, c := range core.Calls(f) {
				walk(c.Common().StaticCallee())
			}
		}
		walk(cm)
		// traversal functions: those of the tree that can reach themselves (the recursion over the trie)
		recursive := map[*ssa.Function]bool{}
		for _, fn := range tree {
			seenR := map[*ssa.Function]bool{}
			st := []*ssa.Function{fn}
			for len(st) > 0 {
				x := st[len(st)-1]
				st = st[:len(st)-1]
				for _, c := range core.Calls(x) {
					cal := c.Common().StaticCallee()
					if cal == nil || cal.Pkg != cm.Pkg {
						continue
					}
					if cal == fn {
						recursive[fn] = true
					}
					if !seenR[cal] {
						seenR[cal] = true
						st = append(st, cal)
					}
				}
			}
		}
		callsTraversal := func(fn *ssa.Function) bool {
			for _, c := range core.Calls(fn) {
				if cal := c.Common().StaticCallee(); cal != nil && recursive[cal] {
					return true
				}
			}
			return false
		}
		// predicate results: the dynamic predicate calls, and the calls of helpers that merely
		// hand the predicate's answer for one node back (and do not traverse themselves)
		nPred := 0
		var judge func(fn *ssa.Function, c ssa.CallInstruction, depth int)
		judge = func(fn *ssa.Function, c ssa.CallInstruction, depth int) {
			bad := ""
			returned := false
			var chk func(v ssa.Value, d int)
			chk = func(v ssa.Value, d int) {
				if v == nil || v.Referrers() == nil || d > 4 {
					return
				}
				for _, rf := range *v.Referrers() {
					switch x := rf.(type) {
					case *ssa.If, *ssa.DebugRef:
					case *ssa.UnOp:
						chk(x, d+1)
					case *ssa.Phi:
						chk(x, d+1) // `a && test(h)` as a value
					case *ssa.Return:
						returned = true
					default:
						bad = fmt.Sprintf("%T at %s", rf, p.InstrPos(rf))
					}
				}
			}
			chk(c.Value(), 0)
			if returned {
				if callsTraversal(fn) || recursive[fn] || depth > 3 {
					bad = "returned from " + core.FuncName(fn) + ", which also walks the subtree on another path"
				} else {
					// a one-node helper: its callers must treat the answer the same way
					for _, cs := range p.CallersOf(fn) {
						judge(cs.Parent(), cs, depth+1)
					}
				}
			}
			r.Check(bad == "", "S8", core.FuncName(fn), "predicate-result-only-branched-on", p.InstrPos(c), "a node whose handler does not satisfy the predicate does not end the search", "the predicate's answer for one node is used as the traversal's result ("+bad+"): when that node's handler is of another kind the nodes below it are never examined, so the service does not own (subscribe to, announce) a kind that is registered deeper in the trie")
		}
		for _, fn := range tree {
			for _, c := range core.Calls(fn) {
				if !core.IsDynamic(c) {
					continue
				}
				prm, ok := c.Common().Value.(*ssa.Parameter)
				if !ok {
					continue
				}
				sg, ok := prm.Type().Underlying().(*types.Signature)
				if !ok || sg.Params().Len() != 1 || core.TypeName(sg.Params().At(0).Type()) != "Handler" {
					continue
				}
				nPred++
				judge(fn, c, 0)
			}
		}
		if nPred == 0 {
			r.Bad("S8", core.FuncName(cm), "predicate-is-called", p.Pos(cm.Pos()), "the traversal behind Mux.Contains never calls its predicate")
		}
	} else {
		r.Unres("S8", "Mux.Contains", "missing")
	}

	// ---- S6 --------------------------------------------------------------
	pathF, okp := accessorField(p, "", "Mux", "Path")
	if !okp {
		r.Unres("S6", "Mux.<path>", "cannot resolve the path field (returned by Mux.Path)")
		return
	}
	// sources of a possibly empty path: loads of the field, and results of the package's functions that
	// return such a value (Path, FullPath - whose mergePattern of two possibly empty parts is possibly empty)
	var pathFns map[*ssa.Function]bool
	var isPathVal func(v ssa.Value, d int) bool
	isPathVal = func(v ssa.Value, d int) bool {
		if d > 4 {
			return false
		}
		v = core.Strip(v)
		if f, ok := core.LoadedField(v); ok && f == pathF {
			return true
		}
		if c, ok := v.(*ssa.Call); ok {
			cal := c.Common().StaticCallee()
			if cal != nil && pathFns[cal] {
				return true
			}
			if strings.HasSuffix(core.CalleeName(c), "mergePattern") {
				// empty iff every part is empty: a part that is never empty makes the result non-empty
				for _, a := range c.Common().Args {
					if f2, ok := core.LoadedField(core.Strip(a)); ok && f2 != pathF && strings.HasSuffix(f2.Name, "mountp") {
						continue // the mount point: empty only together with "no parent"
					}
					if !isPathVal(a, d+1) {
						return false
					}
				}
				return true
			}
		}
		return false
	}
	pathFns = map[*ssa.Function]bool{}
	for changed := true; changed; {
		changed = false
		for _, f := range root {
			if pathFns[f] || f.Signature.Results().Len() != 1 || types.TypeString(f.Signature.Results().At(0).Type(), nil) != "string" {
				continue
			}
			for _, ret := range core.Returns(f) {
				for _, src := range phiSources(ret.Results[0]) {
					if isPathVal(src.V, 0) && !pathFns[f] {
						pathFns[f] = true
						changed = true
					}
				}
			}
		}
	}
	type pathSrc struct {
		v  ssa.Value
		in ssa.Instruction
		fn *ssa.Function
	}
	var pathSrcs []pathSrc
	for _, ac := range core.FieldAccesses(root, func(f core.Field) bool { return f == pathF }) {
		if ac.Kind == "load" {
			pathSrcs = append(pathSrcs, pathSrc{ac.Instr.(ssa.Value), ac.Instr, ac.Fn})
		}
	}
	for _, f := range root {
		for _, c := range core.Calls(f) {
			if cv, ok := c.(*ssa.Call); ok && c.Common().StaticCallee() != nil && pathFns[c.Common().StaticCallee()] {
				pathSrcs = append(pathSrcs, pathSrc{cv, cv, f})
			}
		}
	}
	for _, ac := range pathSrcs {
		v := ac.v
		if v.Referrers() == nil {
			continue
		}
		nonEmptyAt := func(use ssa.Instruction) bool {
			for _, ed := range dominatingEdges(use) {
				d := describeCond(ed)
				if d == pathF.String()+`!=""` || strings.HasPrefix(d, "len ") && strings.Contains(d, pathF.String()) && (strings.HasSuffix(d, ">0") || strings.HasSuffix(d, "!=0")) {
					return true
				}
				// the very value loaded here was compared with "" (path := m.path; if path == "" {...})
				ci := core.Cond(ed.If.Cond)
				if ci.Kind == "constcmp" && ci.X == v && ci.Const != nil && ci.Const.ExactString() == `""` {
					truth := ed.Succ == 0
					if ci.Negate {
						truth = !truth
					}
					if (ci.Op == token.NEQ) == truth {
						return true
					}
				}
			}
			return false
		}
		nonEmpty := nonEmptyAt(ac.in)
		for _, rf := range *v.Referrers() {
			nonEmpty := nonEmpty || nonEmptyAt(rf)
			fn := core.FuncName(ac.fn)
			switch x := rf.(type) {
			case *ssa.Call:
				name := core.CalleeName(x)
				if strings.HasSuffix(name, "mergePattern") || name == "builtin:len" {
					r.OKTrivial("S6", fn, "path->"+name, p.InstrPos(x), "merged / measured")
					continue
				}
				// a helper of the package that itself only merges / measures / compares the value it is
				// handed (e.g. a panic-message builder calling mergePattern)
				if cal := x.Common().StaticCallee(); cal != nil && len(cal.Blocks) > 0 && cal.Pkg == ac.fn.Pkg {
					okAll := true
					for i, a := range x.Common().Args {
						if a == v && (i >= len(cal.Params) || !onlyMergedOrMeasured(cal.Params[i], 0)) {
							okAll = false
						}
					}
					if okAll {
						r.OKTrivial("S6", fn, "path->"+name, p.InstrPos(x), "handed to a helper that only merges, measures or compares it")
						continue
					}
				}
				r.Check(nonEmpty, "S6", fn, "path->call:"+name, p.InstrPos(x), "used under a non-empty test", "possibly empty service path passed to "+name+" without a non-empty test")
			case *ssa.BinOp:
				if x.Op == token.ADD {
					r.Check(nonEmpty, "S6", fn, "path-in-concatenation", p.InstrPos(x), "concatenated under a non-empty test", "possibly empty service path concatenated into a subject/pattern: yields an empty token")
				} else {
					r.OKTrivial("S6", fn, "path-compared", p.InstrPos(x), "comparison only")
				}
			case *ssa.Store:
				if _, isIdx := x.Addr.(*ssa.IndexAddr); isIdx {
					r.Check(nonEmpty, "S6", fn, "path-as-list-element", p.InstrPos(x), "stored as a pattern only under a non-empty test", "the bare service path is stored as an owned pattern even when it is empty: subscriptions 'get.' / 'access.' (invalid NATS subjects) and a reset listing \"\"")
				}
			case *ssa.Return, *ssa.DebugRef, *ssa.Slice, *ssa.Lookup, *ssa.Index, *ssa.Phi, *ssa.MakeInterface:
			}
		}
	}

	// ---- S7 --------------------------------------------------------------
	// the reconnect handler: the Service method taking a *nats.Conn that calls ResetAll
	var hr *ssa.Function
	for _, m := range methodsOf(p, "", "Service") {
		if len(m.Params) != 2 || !strings.HasSuffix(core.TypeName(m.Params[1].Type()), "nats.go.Conn") {
			continue
		}
		for _, c := range core.Calls(m) {
			if c.Common().StaticCallee() == resetAll {
				hr = m
			}
		}
	}
	if hr == nil {
		r.Unres("S7", "handleReconnect", "no Service method with a *nats.Conn parameter calls ResetAll")
		return
	}
	callsRA := false
	for _, c := range core.Calls(hr) {
		if c.Common().StaticCallee() == resetAll && len(dominatingEdges(c)) == 0 {
			callsRA = true
		}
	}
	r.Check(callsRA, "S7", core.FuncName(hr), "calls-ResetAll-unconditionally", p.Pos(hr.Pos()), "a reconnect re-announces the owned patterns", "the reconnect handler does not (always) call ResetAll")
	isHR := func(v ssa.Value) bool {
		mc, ok := core.Strip(v).(*ssa.MakeClosure)
		if !ok {
			return false
		}
		f, ok := mc.Fn.(*ssa.Function)
		return ok && boundMethod(f) == hr
	}
	for _, name := range []string{"Serve", "ListenAndServe"} {
		fn := methodNamed(p, "", "Service", name)
		if fn == nil {
			r.Unres("S7", name, "missing")
			continue
		}
		found := false
		for _, f2 := range p.Helpers(fn) {
			for _, c := range core.Calls(f2) {
				for _, a := range c.Common().Args {
					if !isHR(a) {
						continue
					}
					found = true
					var conds []string
					// conditions inside the helper and at the call sites in the entry point
					eds := dominatingEdges(c)
					if f2 != fn {
						for _, l := range p.Lift(c, fn) {
							eds = append(eds, dominatingEdges(l)...)
						}
					}
					for _, ed := range eds {
						d := describeCond(ed)
						// allowed: the start CAS succeeded, the connection is a *nats.Conn
						if strings.Contains(d, "CompareAndSwap") || isTypeAssertOK(ed) {
							continue
						}
						conds = append(conds, d)
					}
					r.Check(len(conds) == 0, "S7", core.FuncName(fn), "installs-reconnect-handler-unconditionally", p.InstrPos(c), "the reconnect handler is installed whenever the connection supports it", "the reconnect handler is installed only if "+strings.Join(conds, " & ")+": otherwise a reconnect is never followed by system.reset")
				}
			}
		}
		if !found {
			r.Bad("S7", core.FuncName(fn), "installs-reconnect-handler-unconditionally", p.Pos(fn.Pos()), "the reconnect handler is never installed")
		}
	}
}

// hasSubscribeInvoke: fn or one of its private helpers subscribes on the connection.
func hasSubscribeInvoke(p *core.Prog, fn *ssa.Function) bool {
	for _, f2 := range p.Helpers(fn) {
		for _, c := range core.Calls(f2) {
			if c.Common().IsInvoke() && (c.Common().Method.Name() == "ChanSubscribe" || c.Common().Method.Name() == "ChanQueueSubscribe") {
				return true
			}
		}
	}
	return false
}

// handlerPredicates: the func(Handler) bool values (closures or declared
// functions) used by the defaulting function and its private helpers.
func handlerPredicates(p *core.Prog, deflt *ssa.Function) []*ssa.Function {
	isPred := func(f *ssa.Function) bool {
		sg := f.Signature
		if sg.Params().Len() != 1 || sg.Results().Len() != 1 {
			return false
		}
		return core.TypeName(sg.Params().At(0).Type()) == "Handler" && types.TypeString(sg.Results().At(0).Type(), nil) == "bool"
	}
	seen := map[*ssa.Function]bool{}
	var out []*ssa.Function
	add := func(f *ssa.Function) {
		if f != nil && !seen[f] && isPred(f) {
			seen[f] = true
			out = append(out, f)
		}
	}
	for _, f2 := range p.Helpers(deflt) {
		for _, cl := range f2.AnonFuncs {
			add(cl)
		}
		for _, b := range f2.Blocks {
			for _, in := range b.Instrs {
				for _, op := range in.Operands(nil) {
					if op == nil || *op == nil {
						continue
					}
					if f, ok := core.Strip(*op).(*ssa.Function); ok {
						add(f)
					}
				}
			}
		}
	}
	return out
}

func isTypeAssertOK(e edgeCond) bool {
	ex, ok := e.If.Cond.(*ssa.Extract)
	if !ok || ex.Index != 1 || e.Succ != 0 {
		return false
	}
	_, ok = ex.Tuple.(*ssa.TypeAssert)
	return ok
}

// paramRoot: name of the parameter a value comes from, through phis whose
// other inputs are nil.
func paramRoot(v ssa.Value) string {
	// through phis and through small helpers that return their argument or nil (`nilIfEmpty(list)`)
	name := ""
	for _, lf := range valueLeaves(v, nil, 0) {
		w := core.Strip(lf.Rs.R(lf.V))
		if c, ok := w.(*ssa.Const); ok && c.IsNil() {
			continue
		}
		prm, ok := w.(*ssa.Parameter)
		if !ok || (name != "" && prm.Name() != name) {
			return ""
		}
		name = prm.Name()
	}
	return name
}

func subjectHasPrefix(v ssa.Value, pfx string) bool {
	for _, pt := range concatParts(v) {
		if s, ok := core.ConstString(pt); ok && s == pfx {
			return true
		}
	}
	return false
}

// errorReachesReturn: the error value (possibly through a local cell) is
// tested non-nil and returned on that edge.
func errorReachesReturn(ex ssa.Value, fn *ssa.Function) bool {
	// direct: if ex != nil { return ex }
	check := func(v ssa.Value) bool {
		if v.Referrers() == nil {
			return false
		}
		for _, rf := range *v.Referrers() {
			// returned as it is (the caller tests it)
			if ret, ok := rf.(*ssa.Return); ok && ret.Parent() == fn {
				return true
			}
			if bo, ok := rf.(*ssa.BinOp); ok && bo.Op == token.NEQ && bo.Referrers() != nil {
				for _, r2 := range *bo.Referrers() {
					if iff, ok := r2.(*ssa.If); ok {
						tb := iff.Block().Succs[0]
						if ret, ok := tb.Instrs[len(tb.Instrs)-1].(*ssa.Return); ok && len(ret.Results) > 0 {
							return true
						}
					}
				}
			}
		}
		return false
	}
	if check(ex) {
		return true
	}
	// through a cell / phi
	if ex.Referrers() != nil {
		for _, rf := range *ex.Referrers() {
			switch x := rf.(type) {
			case *ssa.Store:
				if al, ok := x.Addr.(*ssa.Alloc); ok && al.Referrers() != nil {
					for _, r2 := range *al.Referrers() {
						if u, ok := r2.(*ssa.UnOp); ok && check(u) {
							return true
						}
					}
				}
			case *ssa.Phi:
				if check(x) {
					return true
				}
			}
		}
	}
	return false
}

// contentDependent: the condition value depends on string data (an element,
// a byte of a string, a call result other than len), as opposed to pure index
// arithmetic.
func contentDependent(v ssa.Value, depth int) bool {
	if depth > 5 || v == nil {
		return false
	}
	isStr := func(t types.Type) bool {
		b, ok := t.Underlying().(*types.Basic)
		return ok && (b.Kind() == types.String || b.Kind() == types.Uint8 || b.Kind() == types.UntypedString)
	}
	if types.TypeString(v.Type(), nil) == "error" {
		return false // an error result says nothing about the patterns' text
	}
	switch x := v.(type) {
	case *ssa.Const:
		return false
	case *ssa.BinOp:
		return contentDependent(x.X, depth+1) || contentDependent(x.Y, depth+1)
	case *ssa.UnOp:
		if x.Op == token.NOT || x.Op == token.SUB {
			return contentDependent(x.X, depth+1)
		}
		return isStr(x.Type())
	case *ssa.Phi:
		for _, e := range x.Edges {
			if e != v && contentDependent(e, depth+1) {
				return true
			}
		}
		return false
	case *ssa.Call:
		return core.CalleeName(x) != "builtin:len"
	case *ssa.Index, *ssa.IndexAddr, *ssa.Lookup, *ssa.Slice:
		return true
	case *ssa.Extract:
		if _, isNext := x.Tuple.(*ssa.Next); isNext {
			return x.Index != 0 && isStr(x.Type())
		}
		return true
	}
	return isStr(v.Type())
}

// coveringRule emits, for every place where subscribe (or a private helper)
// makes a plain subscription, the obligation that the subscribing loop skips
// subjects matched by another subject of the same list - judged on the very
// subjects that are subscribed (after the method wildcard was appended).
// Shared by C09.S3 (which has its own, richer copy) and C04.R8.
func coveringRule(r *core.Run, rule string) {
	p := r.P
	sub := subscribeFn(p)
	if sub == nil {
		r.Unres(rule, "subscribe", "cannot resolve the subscribing function")
		return
	}
	root := p.FuncsOfPkg("")
	mayMatch := mayExec(root, func(in ssa.Instruction) bool {
		c, ok := in.(ssa.CallInstruction)
		if !ok {
			return false
		}
		cal := c.Common().StaticCallee()
		return cal != nil && cal.Name() == "Matches" && cal.Signature.Recv() != nil && core.TypeName(cal.Signature.Recv().Type()) == "Pattern"
	})
	var matches []ssa.CallInstruction
	for _, c := range core.Calls(sub) {
		if cal := c.Common().StaticCallee(); cal != nil && (mayMatch[cal] || (cal.Name() == "Matches" && cal.Signature.Recv() != nil && core.TypeName(cal.Signature.Recv().Type()) == "Pattern")) {
			matches = append(matches, c)
		}
	}
	n := 0
	accPfx := ""
	if sf, _ := extractSubFacts(p); sf != nil {
		accPfx = sf.accessPfx
	}
	for _, f2 := range p.Helpers(sub) {
		for _, c := range core.Calls(f2) {
			if !c.Common().IsInvoke() || c.Common().Method.Name() != "ChanSubscribe" {
				continue
			}
			for _, site := range p.Lift(c, sub) {
				subj := c.Common().Args[0]
				if sc, ok := site.(ssa.CallInstruction); ok && site != ssa.Instruction(c) && len(sc.Common().Args) > 1 {
					subj = sc.Common().Args[len(sc.Common().Args)-1]
					for _, a := range sc.Common().Args {
						if types.TypeString(a.Type(), nil) == "string" {
							subj = a
						}
					}
				}
				if strings.Contains(valDesc(subj), "access.") || subjectHasPrefix(subj, "access.") || builtWithType(subj, accPfx) {
					continue // the access loop is C09's (known finding there)
				}
				n++
				lh := nearestLoopHead(sub, site.Block())
				filtered := false
				for _, m := range matches {
					if lh != nil && (lh == m.Block() || lh.Dominates(m.Block())) && core.Reaches(m, site) {
						filtered = true
					}
				}
				r.Check(filtered, rule, core.FuncName(sub), "resource-loop:covered-subjects-skipped", p.InstrPos(site), "the loop that subscribes skips a subject matched by another subject of the list", "the get/call/auth subscriptions are made without skipping, in the subscribing loop, subjects covered by another subscribed subject (e.g. call.<name>.* and call.<name>.>): such a request is delivered twice, handled twice and answered twice")
			}
		}
	}
	for _, f2 := range p.Helpers(sub) {
		for _, c := range core.Calls(f2) {
			if cal := c.Common().StaticCallee(); cal != nil && cal.Name() == "Matches" && cal.Signature.Recv() != nil && core.TypeName(cal.Signature.Recv().Type()) == "Pattern" {
				partial := coveringOverWholeList(c)
				r.Check(partial == "", rule, core.FuncName(f2), "covering-test-ranges-over-the-whole-list", p.InstrPos(c), "the candidates for covering a subject are all subjects of the list", "the covering test looks only at a part of the pattern list ("+partial+"): a narrower pattern listed before the broader one that covers it is subscribed as well - its requests are delivered twice, the handler runs twice and two replies go out")
			}
		}
	}
	if n == 0 {
		r.Bad(rule, core.FuncName(sub), "has-resource-subscriptions", p.Pos(sub.Pos()), "no get/call/auth subscription site found (rule went vacuous)")
	}
}

// builtWithType: the subject is the result of a subject-building helper that
// is handed the constant request type typ (requestSubject("access", name)).
func builtWithType(subj ssa.Value, typ string) bool {
	hc, ok := core.Strip(subj).(*ssa.Call)
	if !ok || typ == "" {
		return false
	}
	for _, a := range hc.Common().Args {
		if sv, ok := core.ConstString(a); ok && sv == typ {
			return true
		}
	}
	return false
}

// c09ErrorsTested (typestate, per function of subscribe's unit): after a
// subscription - a ChanSubscribe / ChanQueueSubscribe invoke, or the call of a
// private helper that makes one - its error is tested (non-nil edge leaves
// with an error) or returned before the next subscription is made and before
// the function returns: an error that is only overwritten by the next
// iteration's is lost, the service then announces and serves patterns it has no
// subscription for.
func c09ErrorsTested(r *core.Run, rule string, sub *ssa.Function) {
	p := r.P
	isInv := func(c ssa.CallInstruction) bool {
		return c.Common().IsInvoke() && (c.Common().Method.Name() == "ChanSubscribe" || c.Common().Method.Name() == "ChanQueueSubscribe")
	}
	unit := p.Helpers(sub)
	subscribes := map[*ssa.Function]bool{}
	for changed := true; changed; {
		changed = false
		for _, f := range unit {
			if subscribes[f] {
				continue
			}
			for _, c := range core.Calls(f) {
				cal := c.Common().StaticCallee()
				if isInv(c) || (cal != nil && subscribes[cal]) {
					subscribes[f] = true
					changed = true
				}
			}
		}
	}
	const (
		clean = iota
		pending
		failing
	)
	for _, f := range unit {
		if !subscribes[f] {
			continue
		}
		sites := map[ssa.Instruction]bool{}
		derived := map[ssa.Value]bool{}
		for _, c := range core.Calls(f) {
			cal := c.Common().StaticCallee()
			if !(isInv(c) || (cal != nil && subscribes[cal])) || c.Value() == nil {
				continue
			}
			sites[c] = true
			if _, isTuple := c.Value().Type().(*types.Tuple); isTuple {
				if c.Value().Referrers() != nil {
					for _, rf := range *c.Value().Referrers() {
						if ex, ok := rf.(*ssa.Extract); ok && types.TypeString(ex.Type(), nil) == "error" {
							derived[ex] = true
						}
					}
				}
			} else if types.TypeString(c.Value().Type(), nil) == "error" {
				derived[c.Value()] = true
			}
		}
		cells := map[ssa.Value]bool{}
		for changed := true; changed; {
			changed = false
			for _, b := range f.Blocks {
				for _, in := range b.Instrs {
					switch x := in.(type) {
					case *ssa.Phi:
						if !derived[x] {
							for _, e := range x.Edges {
								if derived[e] {
									derived[x] = true
									changed = true
								}
							}
						}
					case *ssa.Store:
						if derived[x.Val] && !cells[x.Addr] {
							cells[x.Addr] = true
							changed = true
						}
					case *ssa.UnOp:
						if x.Op == token.MUL && cells[x.X] && !derived[x] {
							derived[x] = true
							changed = true
						}
					}
				}
			}
		}
		overwritten := map[ssa.Instruction]bool{}
		fl := &core.Flow{Fn: f, Entry: core.StateSet(0).Add(clean)}
		fl.Transfer = func(in ssa.Instruction, st int) core.StateSet {
			if sites[in] {
				if st == pending {
					overwritten[in] = true
				}
				return core.StateSet(0).Add(pending)
			}
			return core.StateSet(0).Add(st)
		}
		fl.Branch = func(iff *ssa.If, succ int, st int) (int, bool) {
			if st != pending {
				return st, true
			}
			cnd, sc := iff.Cond, succ
			for {
				u, ok := cnd.(*ssa.UnOp)
				if !ok || u.Op != token.NOT {
					break
				}
				cnd, sc = u.X, 1-sc
			}
			bo, ok := cnd.(*ssa.BinOp)
			if !ok || (bo.Op != token.NEQ && bo.Op != token.EQL) {
				return st, true
			}
			x, y := bo.X, bo.Y
			if c, isC := x.(*ssa.Const); isC && c.IsNil() {
				x, y = y, x
			}
			if c, isC := y.(*ssa.Const); !isC || !c.IsNil() || !derived[x] {
				return st, true
			}
			nonNil := (bo.Op == token.NEQ) == (sc == 0)
			if nonNil {
				return failing, true
			}
			return clean, true
		}
		res := fl.Run()
		for _, c := range core.Calls(f) {
			in := ssa.Instruction(c)
			if !sites[in] {
				continue
			}
			r.Check(!overwritten[in], rule, core.FuncName(f), "error-tested-before-next-subscription:"+core.CalleeName(c), p.InstrPos(in), "no subscription is made while the error of an earlier one is still untested", "this subscription can be made while the error of an earlier subscription has not been tested: that error is overwritten and lost (a failed subscription of one pattern goes unnoticed when a later one succeeds), and the service announces patterns it is not subscribed to")
		}
		for _, ret := range core.Returns(f) {
			st := res.Before[ret]
			if !st.Has(pending) {
				continue
			}
			ok := len(ret.Results) > 0 && derived[ret.Results[len(ret.Results)-1]]
			r.Check(ok, rule, core.FuncName(f), "pending-error-returned", p.InstrPos(ret), "the last subscription's error is what the function returns", "the function can return without having tested or returned the error of its last subscription")
		}
	}
}

// onlyMergedOrMeasured: every use of v is an argument of mergePattern or len,
// a comparison, or an argument of a package function for whose parameter the
// same holds. A concatenation or any other use is not.
func onlyMergedOrMeasured(v ssa.Value, depth int) bool {
	if depth > 3 || v.Referrers() == nil {
		return depth <= 3
	}
	for _, rf := range *v.Referrers() {
		switch x := rf.(type) {
		case *ssa.DebugRef:
		case *ssa.BinOp:
			if x.Op != token.EQL && x.Op != token.NEQ {
				return false
			}
		case *ssa.Call:
			name := core.CalleeName(x)
			if strings.HasSuffix(name, "mergePattern") || name == "builtin:len" {
				continue
			}
			cal := x.Common().StaticCallee()
			if cal == nil || len(cal.Blocks) == 0 {
				return false
			}
			for i, a := range x.Common().Args {
				if a == v && (i >= len(cal.Params) || !onlyMergedOrMeasured(cal.Params[i], depth+1)) {
					return false
				}
			}
		default:
			return false
		}
	}
	return true
}

// coveringOverWholeList: the arguments of a covering test (Pattern.Matches)
// are elements of the pattern list itself, not of a prefix / suffix of it.
func coveringOverWholeList(c ssa.CallInstruction) string {
	var elemOf func(v ssa.Value, d int) ssa.Value
	elemOf = func(v ssa.Value, d int) ssa.Value {
		if d > 5 {
			return nil
		}
		switch x := v.(type) {
		case *ssa.ChangeType:
			return elemOf(x.X, d+1)
		case *ssa.Convert:
			return elemOf(x.X, d+1)
		case *ssa.UnOp:
			if ia, ok := x.X.(*ssa.IndexAddr); ok {
				return ia.X
			}
		case *ssa.Index:
			return x.X
		}
		return nil
	}
	for _, a := range c.Common().Args {
		if base := elemOf(a, 0); base != nil {
			if sl, ok := base.(*ssa.Slice); ok && (sl.Low != nil || sl.High != nil) {
				return valDesc(base)
			}
		}
	}
	return ""
}

// c09SubscribesOnlyAtStartUp: the subscribing function is called only from
// serve's start-up sequence (C09.S10; C04 shares it - a second set of
// subscriptions answers every request once more).
func c09SubscribesOnlyAtStartUp(r *core.Run, rule string, sub *ssa.Function) {
	p := r.P
	root := p.FuncsOfPkg("")
	if sa := resolveSvc(r, rule); sa.Serve != nil {
		for _, sc := range callsTo(root, sub) {
			caller := sc.Parent()
			inServe := caller == sa.Serve || (caller.Parent() == nil && p.Within(caller, sa.Serve))
			r.Check(inServe && !core.IsGo(sc), rule, core.FuncName(caller), "subscribes-only-at-start-up", p.InstrPos(sc), "the subscribing function is called from serve's start-up sequence", "the subscribing function is called outside serve's start-up sequence: the NATS client re-establishes every subscription on reconnect by itself, so subscribing again leaves each subject subscribed twice (more with every reconnect) - redundant subscriptions, and without a queue group every request is delivered and answered once per copy")
		}
	}
}

// c09MethodWildcard: '.*' (the method token) is appended to a call / auth
// subject exactly when the owned pattern does not end in the full wildcard -
// nothing else about the pattern's text dispenses with it (C09.S2; shared as
// C05.M10: a pattern ending in '*' still needs the method token).
func c09MethodWildcard(r *core.Run, rule string, sub *ssa.Function, subBlocks []*ssa.BasicBlock) {
	p := r.P
	// method wildcard never after '>'
	for _, b := range subBlocks {
		for _, in := range b.Instrs {
			bo, ok := in.(*ssa.BinOp)
			if !ok || bo.Op != token.ADD {
				continue
			}
			if s, ok := core.ConstString(bo.Y); ok && s == ".*" {
				g := false
				for _, ed := range dominatingEdges(bo) {
					cnd, succ := ed.Norm()
					if c2, ok := cnd.(*ssa.BinOp); ok {
						if k, ok := core.ConstInt(c2.Y); ok && k == '>' && ((c2.Op == token.NEQ && succ == 0) || (c2.Op == token.EQL && succ == 1)) {
							g = true
						}
					}
					// strings.HasSuffix(pattern, ">") is false
					if c2, ok := cnd.(*ssa.Call); ok && succ == 1 {
						if cal := c2.Common().StaticCallee(); cal != nil && cal.String() == "strings.HasSuffix" {
							if sfx, ok := core.ConstString(c2.Common().Args[1]); ok && sfx == ">" {
								g = true
							}
						}
					}
				}
				// ... and nothing else about the pattern's text exempts it: a pattern ending in a one-token
				// wildcard still needs the method token ('*' matches exactly one token)
				other := ""
				for _, ed := range dominatingEdges(bo) {
					cnd, _ := ed.Norm()
					c2, ok := cnd.(*ssa.BinOp)
					if !ok || (c2.Op != token.NEQ && c2.Op != token.EQL) {
						continue
					}
					k, isC := core.ConstInt(c2.Y)
					if !isC || k == '>' {
						continue
					}
					// a byte of a string compared with another character constant
					x := core.Strip(c2.X)
					isByte := false
					switch y := x.(type) {
					case *ssa.Index:
						isByte = isStringType(y.X.Type())
					case *ssa.Lookup:
						isByte = isStringType(y.X.Type())
					}
					if isByte && k > 32 && k < 127 {
						other = fmt.Sprintf("%q", rune(k))
					}
				}
				r.Check(other == "", rule, core.FuncName(sub), "method-wildcard-skipped-only-for-'>'", p.InstrPos(bo), "only a trailing full wildcard dispenses with the method token", "the method wildcard is also left out for patterns ending in "+other+": call and auth subjects under such a pattern (which have one more token, the method) match no subscription")
				r.Check(g, rule, core.FuncName(sub), "method-wildcard-not-after-'>'", p.InstrPos(bo), "'.*' is appended only when the pattern does not end in '>'", "a method wildcard can be appended after a full wildcard (invalid NATS subject)")
			}
		}
	}

}
