package props

import (
	"go/token"
	"strings"

	"golang.org/x/tools/go/ssa"

	"resverif/core"
)

// cellOf resolves a value to the variable it is read from: loads are stripped
// and free variables of closures are followed to what they are bound to.
func cellOf(v ssa.Value) ssa.Value {
	for i := 0; i < 8; i++ {
		switch x := v.(type) {
		case *ssa.UnOp:
			if x.Op == token.MUL {
				v = x.X
				continue
			}
		case *ssa.FreeVar:
			if b := core.BindingOf(x); b != nil {
				v = b
				continue
			}
		case *ssa.ChangeType:
			v = x.X
			continue
		}
		break
	}
	return v
}

// c10InitAnnouncesWritten: the seeding step (Store.Init) tells the change
// listeners only about the entries it wrote. Entries whose key already exists
// are skipped by Init; announcing them makes the store handler publish a
// create (or a diff against the default) for a resource that did not change,
// and a client applying it no longer holds what a fresh get returns.
func c10InitAnnouncesWritten(r *core.Run, rule, rel string) {
	p := r.P
	ini := methodNamed(p, rel, "Store", "Init")
	if ini == nil {
		r.Unres(rule, rel+".Store.Init", "method missing")
		return
	}
	lf := listenerFieldOf(p, rel, "Store", "OnChange")
	seen := map[*ssa.Function]bool{}
	var unit []*ssa.Function
	// Init, its closures (the transaction body), and the private helpers of all of them
	work := []*ssa.Function{ini}
	for len(work) > 0 {
		f := work[0]
		work = work[1:]
		if seen[f] {
			continue
		}
		seen[f] = true
		unit = append(unit, f)
		work = append(work, f.AnonFuncs...)
		work = append(work, p.Helpers(f)[1:]...)
	}
	// value writes of the unit: Txn.Set / SetEntry with a non-nil value, or a package function that reaches one
	reachesSet := func(f *ssa.Function) bool {
		for _, h := range p.Helpers(f) {
			for _, c := range core.Calls(h) {
				if n := core.CalleeName(c); strings.HasSuffix(n, "badger.Txn).Set") || strings.HasSuffix(n, "badger.Txn).SetEntry") {
					return true
				}
			}
		}
		return false
	}
	var writes []*ssa.Call
	for _, f := range unit {
		for _, c := range core.Calls(f) {
			call, ok := c.(*ssa.Call)
			if !ok {
				continue
			}
			n := core.CalleeName(c)
			if strings.HasSuffix(n, "badger.Txn).Set") {
				if len(call.Call.Args) == 3 {
					if k, isC := call.Call.Args[2].(*ssa.Const); isC && k.IsNil() {
						continue // the marker
					}
				}
				writes = append(writes, call)
				continue
			}
			if cal := c.Common().StaticCallee(); cal != nil && cal.Pkg == ini.Pkg && len(cal.Blocks) > 0 && reachesSet(cal) {
				writes = append(writes, call)
			}
		}
	}
	// after a successful write of value val: dominated by the write call and not on its error edge
	afterWriteOf := func(in ssa.Instruction, val ssa.Value) bool {
		for _, w := range writes {
			if w.Parent() != in.Parent() || !core.Dominates(w, in) {
				continue
			}
			has := false
			for _, a := range w.Call.Args {
				if a == val || core.Strip(a) == core.Strip(val) {
					has = true
				}
			}
			if !has {
				continue
			}
			onErr := false
			for _, ed := range dominatingEdges(in) {
				ci := core.Cond(ed.If.Cond)
				if ci.Kind != "nilcmp" || core.Strip(ci.X) != ssa.Value(w) {
					continue
				}
				truth := ed.Succ == 0
				if ci.Negate {
					truth = !truth
				}
				if (ci.Op == token.NEQ) == truth {
					onErr = true
				}
			}
			if !onErr {
				return true
			}
		}
		return false
	}
	key := "announced-entries-were-written"
	paramIdx := func(prm *ssa.Parameter) int {
		for i, q := range prm.Parent().Params {
			if q == prm {
				return i
			}
		}
		return -1
	}
	unitCallers := func(g *ssa.Function) []ssa.CallInstruction {
		var out []ssa.CallInstruction
		for _, c := range p.CallersOf(g) {
			if seen[c.Parent()] {
				out = append(out, c)
			}
		}
		return out
	}
	// cellsOf: the variables / allocations a map value may denote - parameters of the unit's helpers are
	// followed to the arguments at the call sites inside the unit, results of its helpers to what they return
	var cellsOf func(v ssa.Value, d int) []ssa.Value
	cellsOf = func(v ssa.Value, d int) []ssa.Value {
		c := cellOf(v)
		if d > 4 {
			return []ssa.Value{c}
		}
		if prm, ok := c.(*ssa.Parameter); ok {
			idx := paramIdx(prm)
			var out []ssa.Value
			for _, cs := range unitCallers(prm.Parent()) {
				if idx >= 0 && idx < len(cs.Common().Args) {
					out = append(out, cellsOf(cs.Common().Args[idx], d+1)...)
				}
			}
			if len(out) > 0 {
				return out
			}
		}
		var call *ssa.Call
		idx := 0
		if ex, ok := c.(*ssa.Extract); ok {
			call, _ = ex.Tuple.(*ssa.Call)
			idx = ex.Index
		} else if cl, ok := c.(*ssa.Call); ok {
			call = cl
		}
		if call != nil {
			if cal := call.Common().StaticCallee(); cal != nil && seen[cal] {
				var out []ssa.Value
				for _, ret := range core.Returns(cal) {
					if idx < len(ret.Results) {
						for _, src := range phiSources(ret.Results[idx]) {
							if k, isC := src.V.(*ssa.Const); isC && k.IsNil() {
								continue
							}
							out = append(out, cellsOf(src.V, d+1)...)
						}
					}
				}
				if len(out) > 0 {
					return out
				}
			}
		}
		return []ssa.Value{c}
	}
	// filledAfterWrites: the container (a map variable) is filled only after the entry's value was written
	filledAfterWrites := func(cell ssa.Value) (bool, string) {
		good, fills, where := true, 0, ""
		for _, g := range unit {
			for _, b := range g.Blocks {
				for _, in := range b.Instrs {
					mu, ok := in.(*ssa.MapUpdate)
					if !ok {
						continue
					}
					same := false
					for _, mc := range cellsOf(mu.Map, 0) {
						if mc == cell {
							same = true
						}
					}
					if !same {
						continue
					}
					fills++
					if !afterWriteOf(mu, mu.Value) {
						good = false
						where = p.InstrPos(mu)
					}
				}
			}
		}
		return good && fills > 0, where
	}
	var judge func(site ssa.Instruction, val ssa.Value, depth int) (bool, string)
	judge = func(site ssa.Instruction, val ssa.Value, depth int) (bool, string) {
		if depth > 4 {
			return false, "call chain too deep"
		}
		if afterWriteOf(site, val) {
			return true, ""
		}
		sv := core.Strip(val)
		if prm, ok := sv.(*ssa.Parameter); ok {
			idx := paramIdx(prm)
			cs := unitCallers(prm.Parent())
			if len(cs) == 0 || idx < 0 {
				return false, "the announced value is a parameter with no call site in Init"
			}
			for _, c := range cs {
				if idx >= len(c.Common().Args) {
					return false, "unexpected call shape"
				}
				if ok, why := judge(c, c.Common().Args[idx], depth+1); !ok {
					return false, why
				}
			}
			return true, ""
		}
		if ex, ok := sv.(*ssa.Extract); ok {
			if nx, ok := ex.Tuple.(*ssa.Next); ok {
				if rng, ok := nx.Iter.(*ssa.Range); ok {
					cells := cellsOf(rng.X, 0)
					for _, cell := range cells {
						if ok, where := filledAfterWrites(cell); !ok {
							return false, "every entry of a map that is filled (" + where + ") whether or not Init wrote the entry"
						}
					}
					return true, ""
				}
			}
		}
		return false, "a value that is neither written just before nor taken from the record of written entries"
	}
	n := 0
	for _, f := range unit {
		loadsListeners := false
		for _, ac := range core.FieldAccesses([]*ssa.Function{f}, func(g core.Field) bool { return g == lf && lf.Name != "" }) {
			if ac.Kind == "load" {
				loadsListeners = true
			}
		}
		if !loadsListeners {
			continue
		}
		for _, c := range core.Calls(f) {
			if !core.IsDynamic(c) || len(c.Common().Args) != 3 {
				continue
			}
			n++
			ok, why := judge(c, c.Common().Args[2], 0)
			r.Check(ok, rule, core.FuncName(f), key, p.InstrPos(c), "the announced entries are those whose value was written", "the change listeners are told about "+why+": Init skips entries whose key exists, and announcing those publishes a create or a diff for a resource that did not change - a client applying it no longer holds what a fresh get returns")
		}
	}
	if n == 0 {
		r.Unres(rule, core.FuncName(ini), "Init never calls the change listeners")
	}
}
