package props

import (
	"fmt"
	"go/token"
	"go/types"
	"sort"
	"strings"

	"golang.org/x/tools/go/ssa"

	"resverif/core"
)

func init() { register("C20", c20) }

type mwPkg struct {
	rel, typ string
}

var mwPkgs = []mwPkg{{"middleware", "badgerDB"}, {"middleware/resbadger", "resourceHandler"}}

// lastName strips package/struct qualifiers from a described value.
func lastName(s string) string {
	if i := strings.LastIndexAny(s, "./"); i >= 0 && !strings.HasPrefix(s, "(") {
		// keep operators: only strip inside identifiers like a/b.T.f
	}
	parts := strings.FieldsFunc(s, func(r rune) bool { return r == ' ' })
	for i, p := range parts {
		if j := strings.LastIndex(p, "."); j >= 0 && !strings.ContainsAny(p[j:], "=<>!") {
			parts[i] = p[j+1:]
		}
	}
	return strings.Join(parts, " ")
}

// guardSignature lists, for the update closure of an apply handler, the
// sentinel errors it can return and the comparison that guards each.
func guardSignature(p *core.Prog, cl *ssa.Function) []string {
	var out []string
	for _, fn := range p.Helpers(cl) {
		for _, ret := range core.Returns(fn) {
			// the sentinel: the single result, or the error result of a helper that also returns data
			g, ok := "", false
			for _, rv := range ret.Results {
				if len(ret.Results) == 1 || types.TypeString(rv.Type(), nil) == "error" {
					if g2, ok2 := loadedGlobal(unspill(rv)); ok2 {
						g, ok = g2, true
					}
				}
			}
			if !ok {
				continue
			}
			eds := dominatingEdges(ret)
			if len(eds) == 0 {
				out = append(out, g+"@unconditional")
				continue
			}
			// the closest edge: the one whose If block is dominated by all others
			closest := func(es []edgeCond) edgeCond {
				b := es[0]
				for _, e := range es[1:] {
					if b.If.Block().Dominates(e.If.Block()) {
						b = e
					}
				}
				return b
			}
			best := closest(eds)
			// a shared loading helper may test a fall-back parameter last (`if fallback == nil { return
			// ErrNotFound }`): for a closure that hands it nil the test is vacuous and the guard is the next
			// edge out; for a closure that hands it something the return is unreachable
			unreachable := false
			for fn != cl && len(eds) > 0 {
				ci := core.Cond(best.If.Cond)
				prm, isPrm := core.Strip(ci.X).(*ssa.Parameter)
				if ci.Kind != "nilcmp" || !isPrm || prm.Parent() != fn {
					break
				}
				truth := best.Succ == 0
				if ci.Negate {
					truth = !truth
				}
				onNil := (ci.Op == token.EQL) == truth
				pi := -1
				for i, q := range fn.Params {
					if q == prm {
						pi = i
					}
				}
				allNil, allSet, sites := true, true, 0
				for _, h := range p.Helpers(cl) {
					for _, c := range core.Calls(h) {
						if c.Common().StaticCallee() != fn || pi < 0 || pi >= len(c.Common().Args) {
							continue
						}
						sites++
						a := c.Common().Args[pi]
						if k, isC := a.(*ssa.Const); isC && k.IsNil() {
							allSet = false
						} else if _, isC := core.ConstString(core.Strip(a)); isC {
							allNil = false
						} else {
							allNil, allSet = false, false
						}
					}
				}
				if sites == 0 {
					break
				}
				if (onNil && allSet) || (!onNil && allNil) {
					unreachable = true
					break
				}
				if !((onNil && allNil) || (!onNil && allSet)) {
					break
				}
				var rest []edgeCond
				for _, e := range eds {
					if e != best {
						rest = append(rest, e)
					}
				}
				eds = rest
				if len(eds) == 0 {
					break
				}
				best = closest(eds)
			}
			if unreachable {
				continue
			}
			if len(eds) == 0 {
				out = append(out, g+"@unconditional")
				continue
			}
			for _, sh := range impliedShapes(best, 0) {
				out = append(out, g+"@"+sh)
			}
		}
	}
	sort.Strings(out)
	return out
}

// impliedShapes renders a guard edge. When the edge tests the bool result of
// a helper of the same package (`exists, err := resourceExists(txn, key); if
// exists {...}`), it is rendered as the comparisons that hold on every return
// of the helper that is compatible with the edge.
func impliedShapes(e edgeCond, depth int) []string {
	cond, succ := e.Norm()
	var call *ssa.Call
	idx := 0
	switch x := cond.(type) {
	case *ssa.Call:
		call = x
	case *ssa.Extract:
		if c, ok := x.Tuple.(*ssa.Call); ok {
			call, idx = c, x.Index
		}
	}
	if call == nil || depth > 3 {
		return []string{condShape(e)}
	}
	cal := call.Common().StaticCallee()
	if cal == nil || len(cal.Blocks) == 0 || cal.Pkg == nil || cal.Pkg != core.Outermost(e.If.Parent()).Pkg {
		return []string{condShape(e)}
	}
	want := succ == 0
	var common map[string]bool
	for _, ret := range core.Returns(cal) {
		if cal.Recover != nil && ret.Block() == cal.Recover {
			continue
		}
		if idx >= len(ret.Results) || isConstBool(ret.Results[idx], !want) {
			continue
		}
		cur := map[string]bool{}
		for _, de := range dominatingEdges(ret) {
			for _, sh := range impliedShapes(de, depth+1) {
				cur[sh] = true
			}
		}
		if common == nil {
			common = cur
		} else {
			for k := range common {
				if !cur[k] {
					delete(common, k)
				}
			}
		}
	}
	if len(common) == 0 {
		return []string{condShape(e)}
	}
	return core.SortedKeys(common)
}

func condShape(e edgeCond) string {
	truth := e.Succ == 0
	c := e.If.Cond
	for {
		if u, ok := c.(*ssa.UnOp); ok && u.Op == token.NOT {
			truth = !truth
			c = u.X
			continue
		}
		break
	}
	bo, ok := c.(*ssa.BinOp)
	if !ok {
		return "cond"
	}
	isLen := func(v ssa.Value) bool {
		call, ok := v.(*ssa.Call)
		return ok && core.CalleeName(call) == "builtin:len"
	}
	side := func(v ssa.Value) string {
		if isLen(v) {
			return "len"
		}
		if cst, ok := v.(*ssa.Const); ok {
			if cst.IsNil() {
				return "nil"
			}
			return cst.Value.ExactString()
		}
		if f, ok := core.LoadedField(v); ok {
			// role label: the handler's raw default bytes, whatever the field is called
			if sl, isSl := v.Type().Underlying().(*types.Slice); isSl {
				if b, isB := sl.Elem().Underlying().(*types.Basic); isB && b.Kind() == types.Uint8 {
					return "default"
				}
			}
			return f.Name
		}
		if g, ok := loadedGlobal(v); ok {
			return g
		}
		// the default bytes handed to a loading helper as its fall-back parameter
		if prm, ok := v.(*ssa.Parameter); ok && isByteSlice(prm.Type()) && c20Prog != nil && c20Prog.IsPrivateHelper(prm.Parent()) {
			// (some handlers substitute a literal for a missing default - add starts from [] - so it is
			// enough that the parameter stands for the default field at some call site: the label names
			// the role of the tested value)
			pi, some := -1, false
			for i, q := range prm.Parent().Params {
				if q == prm {
					pi = i
				}
			}
			for _, cs := range c20Prog.CallersOf(prm.Parent()) {
				if pi < 0 || pi >= len(cs.Common().Args) {
					continue
				}
				for _, lf := range valueLeaves(cs.Common().Args[pi], nil, 0) {
					if _, isF := core.LoadedField(lf.V); isF {
						some = true
					}
				}
			}
			if some {
				return "default"
			}
		}
		if ex, ok := v.(*ssa.Extract); ok {
			if c, ok := ex.Tuple.(*ssa.Call); ok {
				if cal := c.Common().StaticCallee(); cal != nil && strings.HasSuffix(cal.String(), "badger.Txn).Get") {
					return "Txn.Get"
				}
				// the raw value read by a helper that falls back to the handler's default bytes: testing
				// it for nil on the not-found path is the "no default" test
				if cal := c.Common().StaticCallee(); cal != nil && len(cal.Blocks) > 0 && isByteSlice(v.Type()) {
					for _, lf := range valueLeaves(v, nil, 0) {
						if _, ok := core.LoadedField(lf.V); ok && isByteSlice(lf.V.Type()) {
							return "default"
						}
					}
				}
			}
		}
		// role label: the apply handler's index parameter, whatever it is called
		{
			w := core.Strip(v)
			if u, ok := w.(*ssa.UnOp); ok && u.Op == token.MUL {
				if fv, ok := u.X.(*ssa.FreeVar); ok {
					w = core.BindingOf(fv)
				}
			}
			if fv, ok := w.(*ssa.FreeVar); ok {
				w = core.BindingOf(fv)
			}
			if al, ok := w.(*ssa.Alloc); ok && al.Referrers() != nil {
				// a captured parameter is spilled to a cell: the cell's only store is the parameter
				var src ssa.Value
				n := 0
				for _, rf := range *al.Referrers() {
					if st, ok := rf.(*ssa.Store); ok && st.Addr == ssa.Value(al) {
						src = st.Val
						n++
					}
				}
				if n == 1 {
					w = src
				}
			}
			if prm, ok := w.(*ssa.Parameter); ok {
				if bt, ok := prm.Type().Underlying().(*types.Basic); ok && bt.Kind() == types.Int {
					return "idx"
				}
			}
		}
		d := valDesc(v)
		if i := strings.LastIndex(d, ":"); i >= 0 {
			d = d[i+1:]
		}
		return d
	}
	x, y := bo.X, bo.Y
	opTok := bo.Op
	if isLen(y) && !isLen(x) { // canonical: len on the left
		x, y = y, x
		switch opTok {
		case token.LSS:
			opTok = token.GTR
		case token.GTR:
			opTok = token.LSS
		case token.LEQ:
			opTok = token.GEQ
		case token.GEQ:
			opTok = token.LEQ
		}
	}
	op := opTok.String()
	if !truth {
		op = map[string]string{"==": "!=", "!=": "==", "<": ">=", ">=": "<", ">": "<=", "<=": ">"}[op]
	}
	return side(x) + op + side(y)
}

// c20Prog gives the shape renderers access to the call index (set by c20).
var c20Prog *core.Prog

func c20(r *core.Run) {
	p := r.P
	c20Prog = p
	r.Explanation = "Structural obligations on the two copies of the deprecated BadgerDB middleware: every database write happens on the transaction of one DB.Update closure together with the read of the same key (read-modify-write in one transaction); the guards that make an event inapplicable (index beyond the collection for add / at-or-beyond for remove, create on an existing or defaulted resource, change/remove on a missing resource without default) return their sentinel before the write and have the documented comparison operator; the two copies agree guard-for-guard; the change handler decides 'property absent' by the map's presence flag and records as old value either the looked-up value or the delete action; the delete handler returns what it read in the same transaction before deleting. That an event whose apply fails publishes nothing is C08.O3. Fold-equivalence over histories and reopen are not decided."
	r.NotDecided = []string{"equality of the served value with the fold of all applied events (needs evaluation)", "reopen / durability (BadgerDB)"}
	r.Assumptions = []string{"DB.Update runs the closure in one atomic transaction"}

	r.Rule("T1", "one transaction: every Set/SetEntry/Delete on a badger.Txn in the middleware is made on the parameter of a closure passed directly to DB.Update, and that closure also reads the resource key before writing it", 10)
	r.Rule("T2", "a refused write fails the event: in every apply handler the error returned by the Set / SetEntry / Delete that writes the resource itself flows into the return value of the update closure (through phis and result cells, and through a helper's result when the write sits in a helper)", 10)
	r.Rule("R2", "a create stores what it was given: the bytes the create handler writes under the resource key are json.Marshal of its value parameter itself - not of a converted copy (the value decoded into the handler's type for the index callbacks): a conversion drops members the type does not know, adds zero-valued ones and passes numbers through the type's representation, so get serves something else than the created data and later events fold over the wrong base", 2)
	r.Rule("R1", "what an event does not touch is stored as it was: the change, add and remove handlers decode the stored model / collection into raw elements (map[string]json.RawMessage, []json.RawMessage) before they re-encode it - decoded into interface{} every other property or element goes through float64, and an integer beyond 2^53 (a 64-bit id, a nanosecond timestamp) comes back as a different number although no event touched it", 6)
	r.Rule("T3", "nothing fails after the commit: once DB.Update has returned without error the handler's changes are in the database, so every return of an apply handler after it yields a nil error (the error of DB.Update itself, or an error made on its non-nil edge, aside): an error there makes the event method panic before it publishes anything, although storage has already changed", 10)
	r.Rule("V1", "Value serves what get serves now (shared with C16.O1): Resource.Value builds a fresh get request on every call and stores nothing into the resource it was called on - a value remembered in the resource is the value from before the events applied since", 5)
	c16RequestsOwnTheirMemory(r, "V1")
	r.Rule("G1", "guards: add rejects len<idx, remove rejects len<=idx, create rejects an existing or defaulted resource, change and remove reject a missing resource without default - each by returning its sentinel from the closure on an edge that does not reach the write", 10)
	r.Rule("S1", "sibling agreement: the two middleware copies have the same guard -> sentinel sets in each of the five apply handlers", 5)
	r.Rule("I1", "default stays immutable: the handler's default bytes (served for every resource that is not stored yet) are never a destination: the buffer handed to Item.ValueCopy is nil or freshly made, never (a variable that may hold) the default field, and no element of the default field is stored to", 2)
	r.Rule("I2", "written bytes are owned until commit: the value handed to Txn.Set is never backed by an object taken from a sync.Pool (followed through re-slicing, conversions, bytes.* helpers and Buffer.Bytes): the transaction commits after the update closure - and its deferred Put - has returned", 2)
	r.Rule("D1", "old values: the change handler treats a property as absent only on the not-present edge of a comma-ok lookup on the stored model and records the looked-up value or the delete action as old value; the delete handler returns the bytes read in the same transaction before the delete", 6)

	want := map[string][]string{
		"applyAdd":    {"errIndexOutOfRange@len<idx"},
		"applyRemove": {"ErrNotFound@default==nil", "errIndexOutOfRange@len<=idx"},
		"applyCreate": {"errResourceAlreadyExists@Txn.Get==nil", "errResourceAlreadyExists@default!=nil"},
		"applyChange": {"ErrNotFound@default==nil"},
	}
	sigs := map[string]map[string][]string{}
	for _, mp := range mwPkgs {
		txnRule(r, "T1", mp.rel)
		sigs[mp.rel] = map[string][]string{}
		for _, name := range []string{"applyChange", "applyAdd", "applyRemove", "applyCreate", "applyDelete"} {
			m := methodNamed(p, mp.rel, mp.typ, name)
			if m == nil {
				r.Unres("G1", mp.rel+"."+name, "missing")
				continue
			}
			var upd ssa.CallInstruction
			for _, c := range core.Calls(m) {
				if isBadgerCall(c, "DB", "Update") {
					upd = c
				}
			}
			cl := (*ssa.Function)(nil)
			if upd != nil {
				cl = closureArg(upd)
			}
			if cl == nil {
				r.Bad("T1", core.FuncName(m), "runs-in-one-update-closure", p.Pos(m.Pos()), "apply handler does not run inside a DB.Update closure")
				continue
			}
			c20NothingFailsAfterCommit(r, "T3", m, upd)
			if name == "applyCreate" {
				c20CreateStoresGivenValue(r, "R2", m)
			}
			if name == "applyChange" || name == "applyAdd" || name == "applyRemove" {
				c20UntouchedJSONKept(r, "R1", cl)
			}
			// read-modify-write on the same key inside the closure (statements may live in private
			// helpers taking the transaction: they are lifted to their call sites in the closure)
			var txnPrm ssa.Value
			for _, prm := range cl.Params {
				if strings.HasSuffix(core.TypeName(prm.Type()), "badger.Txn") {
					txnPrm = prm
				}
			}
			onTxn := func(c ssa.CallInstruction) bool {
				sites := p.Lift(c, cl)
				if len(sites) == 0 {
					return false
				}
				for _, x := range sites {
					xc, ok := x.(ssa.CallInstruction)
					if !ok {
						return false
					}
					has := false
					for _, a := range xc.Common().Args {
						if core.Strip(a) == txnPrm {
							has = true
						}
					}
					if !has {
						return false
					}
				}
				return true
			}
			var gets, wrs []ssa.CallInstruction
			for _, c := range helperCalls(p, cl) {
				if isBadgerCall(c, "Txn", "Get") && onTxn(c) {
					gets = append(gets, c)
				}
				if isTxnWrite(c) {
					wrs = append(wrs, c)
				}
			}
			var wr ssa.CallInstruction
			rmw := len(wrs) > 0 && txnPrm != nil
			for _, w := range wrs {
				wr = w
				if !onTxn(w) {
					rmw = false
				}
				dom := false
				for _, g := range gets {
					for _, gs := range p.Lift(g, cl) {
						for _, ws := range p.Lift(w, cl) {
							if gs != ws && core.Dominates(gs, ws) {
								dom = true
							}
						}
					}
				}
				if !dom {
					rmw = false
				}
			}
			r.Check(rmw, "T1", core.FuncName(cl), "read-before-write-on-same-txn", posOf(p, wr), "the stored value is read and rewritten on the closure's own transaction", "the write is not preceded by a read of the resource on the same transaction")
			// the error of the write of the resource itself is the closure's result: DB.Update commits
			// when the closure returns nil, so a write error that is dropped (assigned to a shadowed
			// variable, overwritten) commits an empty transaction and the handler reports success - the
			// event is published although nothing was stored. (Index entries are written with their
			// error explicitly ignored today; they are not the stored value.)
			for _, w := range wrs {
				if len(w.Common().Args) < 2 || w.Value() == nil {
					continue
				}
				isIndexKey := false
				for _, ps := range phiSources(w.Common().Args[1]) {
					if kc, ok := core.Strip(ps.V).(*ssa.Call); ok {
						if cal := kc.Common().StaticCallee(); cal != nil && cal.Pkg == cl.Pkg && cal.Signature.Recv() != nil && strings.HasSuffix(core.TypeName(cal.Signature.Recv().Type()), "Index") {
							isIndexKey = true // a key built by a method of the index type
						}
					}
				}
				if isIndexKey {
					continue
				}
				var reaches func(v ssa.Value, fn *ssa.Function, d int) bool
				reaches = func(v ssa.Value, fn *ssa.Function, d int) bool {
					if d > 6 || v.Referrers() == nil {
						return false
					}
					seen := map[ssa.Value]bool{}
					var fwd func(x ssa.Value) bool
					fwd = func(x ssa.Value) bool {
						if seen[x] || x.Referrers() == nil {
							return false
						}
						seen[x] = true
						for _, rf := range *x.Referrers() {
							switch y := rf.(type) {
							case *ssa.Return:
								if fn == cl || fn.Parent() != nil {
									return true // the update closure of this (or, for a shared helper, another) apply handler
								}
								// a helper: its result must be the closure's result in turn
								all := len(p.CallersOf(fn)) > 0
								for _, cs := range p.CallersOf(fn) {
									cv := cs.Value()
									if cv == nil {
										all = false
										continue
									}
									var ev ssa.Value = cv
									if _, isT := cv.Type().(*types.Tuple); isT {
										ev = nil
										if cv.Referrers() != nil {
											for _, r2 := range *cv.Referrers() {
												if ex, ok := r2.(*ssa.Extract); ok && types.TypeString(ex.Type(), nil) == "error" {
													ev = ex
												}
											}
										}
									}
									if ev == nil || !reaches(ev, cs.Parent(), d+1) {
										all = false
									}
								}
								if all {
									return true
								}
							case *ssa.Phi:
								if fwd(y) {
									return true
								}
							case *ssa.Store:
								// result cell of a function with a defer: *cell = v; ...; return *cell
								if al, ok := y.Addr.(*ssa.Alloc); ok && y.Val == x && al.Referrers() != nil {
									for _, r3 := range *al.Referrers() {
										if ld, ok := r3.(*ssa.UnOp); ok && fwd(ld) {
											return true
										}
									}
								}
							}
						}
						return false
					}
					return fwd(v)
				}
				r.Check(reaches(w.Value(), w.Parent(), 0), "T2", core.FuncName(cl), "resource-write-error-is-the-closure's-result:"+w.Common().StaticCallee().Name(), p.InstrPos(w), "the error of the write reaches the closure's return", "the error returned by the write of the resource never reaches the update closure's return value: when the write is refused (oversized value, read-only database, invalid key) the closure returns nil, DB.Update commits nothing, and the handler reports the event as applied - it is published and the listeners run although storage is unchanged")
			}
			// only the delete handler removes the stored resource: an add / remove / change / create that
			// deletes the entry (e.g. "the collection is empty now, fall back on the default") makes get and
			// Value serve the default again instead of the folded value
			if name != "applyDelete" {
				for _, w := range wrs {
					if !isBadgerCall(w, "Txn", "Delete") || len(w.Common().Args) < 2 {
						continue
					}
					isIndexKey := false
					for _, ps := range phiSources(w.Common().Args[1]) {
						if kc, ok := core.Strip(ps.V).(*ssa.Call); ok {
							if cal := kc.Common().StaticCallee(); cal != nil && cal.Pkg == cl.Pkg && cal.Signature.Recv() != nil && strings.HasSuffix(core.TypeName(cal.Signature.Recv().Type()), "Index") {
								isIndexKey = true
							}
						}
					}
					if !isIndexKey {
						r.Bad("T1", core.FuncName(cl), "stored-resource-deleted-only-by-the-delete-handler", p.InstrPos(w), name+" deletes the stored resource: the value served afterwards is the default (or nothing) instead of the events folded over it")
					}
				}
			}
			sig := guardSignature(p, cl)
			sigs[mp.rel][name] = sig
			for _, w := range want[name] {
				found := false
				for _, s := range sig {
					if strings.HasPrefix(s, w) {
						found = true
					}
				}
				r.Check(found, "G1", core.FuncName(cl), "guard:"+w, p.Pos(cl.Pos()), "guard present with the documented comparison", fmt.Sprintf("expected guard %q is missing or has a different comparison; the closure's guards are %v", w, sig))
			}
			// sentinel returns never reach the write (they are returns) and the guard's If dominates the write
			if wr != nil {
				for _, ret := range core.Returns(cl) {
					if _, ok := loadedGlobal(unspill(ret.Results[0])); !ok {
						continue
					}
					for _, ed := range dominatingEdges(ret) {
						_ = ed
					}
					// the return lies on a path before the write: write must not dominate it
					r.Check(wr.Parent() != cl || !core.Dominates(wr, ret), "G1", core.FuncName(cl), "sentinel-return-before-write:"+condShapeOfReturn(ret), p.InstrPos(ret), "the event is rejected before anything is written", "a sentinel is returned after the write was made (storage already changed)")
				}
			}
		}
	}
	// ---- S1 --------------------------------------------------------------
	for _, name := range []string{"applyChange", "applyAdd", "applyRemove", "applyCreate", "applyDelete"} {
		a, b := sigs[mwPkgs[0].rel][name], sigs[mwPkgs[1].rel][name]
		r.Check(strings.Join(a, ";") == strings.Join(b, ";"), "S1", name, "guards-agree(middleware,resbadger)", "-", fmt.Sprintf("both: %v", a), fmt.Sprintf("the two middleware copies disagree: middleware %v vs resbadger %v", a, b))
	}
	// ---- I1 --------------------------------------------------------------
	for _, mp := range mwPkgs {
		for _, fn := range p.FuncsOfPkg(mp.rel) {
			for _, c := range core.Calls(fn) {
				cal := c.Common().StaticCallee()
				if cal == nil || cal.Name() != "ValueCopy" || !strings.Contains(cal.String(), "badger") || len(c.Common().Args) < 2 {
					continue
				}
				alias, why := mayHoldField(c.Common().Args[1], 0)
				r.Check(!alias, "I1", core.FuncName(fn), "ValueCopy-destination-is-not-the-default", p.InstrPos(c), "the copy destination is nil / a fresh buffer", "Item.ValueCopy writes into "+why+": the stored value overwrites the handler's shared default bytes, so every resource that is not stored yet is afterwards served (and folded) from another resource's data")
			}
			for _, b := range fn.Blocks {
				for _, in := range b.Instrs {
					if st, ok := in.(*ssa.Store); ok {
						if ia, ok := st.Addr.(*ssa.IndexAddr); ok {
							if f, ok := core.LoadedField(ia.X); ok && isByteSlice(ia.X.Type()) && strings.HasSuffix(f.Struct, mp.typ) {
								r.Bad("I1", core.FuncName(fn), "no-element-store-into-"+f.String(), p.InstrPos(st), "an element of the handler's byte field is overwritten")
							}
						}
					}
				}
			}
			// a slice that may be (a re-slice of) a field of the handler - the shared default in any
			// decoded form - is not written through: no element store, no copy into it, and no append
			// onto it (append writes into the spare capacity of the shared backing array)
			holds := func(v ssa.Value) (bool, string) {
				if _, isSl := v.Type().Underlying().(*types.Slice); !isSl {
					return false, ""
				}
				ok, why := mayHoldField(v, 0)
				return ok && strings.Contains(why, mp.typ+"."), why
			}
			for _, b := range fn.Blocks {
				for _, in := range b.Instrs {
					switch x := in.(type) {
					case *ssa.Store:
						if ia, ok := x.Addr.(*ssa.IndexAddr); ok {
							if _, direct := core.LoadedField(ia.X); direct && isByteSlice(ia.X.Type()) {
								continue // reported above
							}
							if ok, why := holds(ia.X); ok {
								r.Bad("I1", core.FuncName(fn), "no-element-store-into-a-handler-slice", p.InstrPos(x), "an element is stored into "+why+": the handler's default is shared by every resource that is not stored yet, which is afterwards served and folded from another resource's data")
							}
						}
					case *ssa.Call:
						switch core.CalleeName(x) {
						case "builtin:copy":
							if ok, why := holds(x.Common().Args[0]); ok {
								r.Bad("I1", core.FuncName(fn), "no-copy-into-a-handler-slice", p.InstrPos(x), "copy writes into "+why+": the shared default is overwritten in place")
							}
						case "builtin:append":
							if ok, why := holds(x.Common().Args[0]); ok {
								r.Bad("I1", core.FuncName(fn), "no-append-onto-a-handler-slice", p.InstrPos(x), "append extends "+why+": when the shared slice has spare capacity the new element (and every later in-place shift) lands in the default's own backing array, so the next not-yet-stored resource is folded over a corrupted default")
							}
						}
					}
				}
			}
		}
	}
	// ---- I2: bytes handed to a transaction stay untouched until it commits --------------
	for _, mp := range mwPkgs {
		for _, fn := range p.FuncsOfPkg(mp.rel) {
			for _, c := range core.Calls(fn) {
				if !isBadgerCall(c, "Txn", "Set") || len(c.Common().Args) < 3 {
					continue
				}
				src := pooledSource(c.Common().Args[2], 0)
				r.Check(src == "", "I2", core.FuncName(fn), "stored-bytes-are-not-pooled", p.InstrPos(c), "the value handed to the transaction is not backed by a pooled buffer", "the value handed to Txn.Set is backed by "+src+": BadgerDB keeps the slice until the transaction commits - after the closure has returned -, so a buffer that goes back to a pool (or is reused) when the closure ends can be overwritten by another resource's event first, and that resource's bytes are committed under this key")
			}
		}
	}
	// ---- I1 (continued): the fold starts from the configured default ------------
	// the raw default is what events on a not-yet-stored resource are folded over (and what is
	// persisted then): it must be the marshalled Default option itself, not a value derived from
	// it through a callback (a view such as Map hides or computes fields)
	for _, mp := range mwPkgs {
		for _, fn := range p.FuncsOfPkg(mp.rel) {
			for _, b := range fn.Blocks {
				for _, in := range b.Instrs {
					st, ok := in.(*ssa.Store)
					if !ok || !isByteSlice(st.Val.Type()) {
						continue
					}
					f, ok := core.FieldOf(st.Addr)
					if !ok || !strings.HasSuffix(f.Struct, mp.typ) {
						continue
					}
					ex, ok := core.Strip(st.Val).(*ssa.Extract)
					var mc *ssa.Call
					if ok && ex.Index == 0 {
						if c, ok := ex.Tuple.(*ssa.Call); ok && core.CalleeName(c) == "encoding/json.Marshal" {
							mc = c
						}
					}
					if mc == nil {
						continue
					}
					bad := ""
					var walk func(v ssa.Value, d int)
					walk = func(v ssa.Value, d int) {
						v = core.Strip(v)
						if phi, ok := v.(*ssa.Phi); ok && d < 5 {
							for _, e := range phi.Edges {
								walk(e, d+1)
							}
							return
						}
						if _, ok := core.LoadedField(v); ok {
							return
						}
						if _, ok := v.(*ssa.Parameter); ok {
							return
						}
						bad = valDesc(v)
					}
					walk(mc.Call.Args[0], 0)
					r.Check(bad == "", "I1", core.FuncName(fn), "raw-default=marshal(configured-default)", p.InstrPos(st), "the raw default is the marshalled Default option", "the raw default is marshalled from "+bad+" instead of the configured default: events on a resource that is not stored yet are folded over (and persist) a different value than the default")
				}
			}
		}
	}
	// ---- I1 (continued): no insert through a truncated prefix ------------------
	// append(c[:k], x...) writes into c's own backing array; unless x is c's own tail (the delete
	// idiom, an overlapping forward copy) every later read of c[k:] sees the new elements instead
	// of the old ones.
	for _, mp := range mwPkgs {
		for _, fn := range p.FuncsOfPkg(mp.rel) {
			for _, c := range core.Calls(fn) {
				call, ok := c.(*ssa.Call)
				if !ok || core.CalleeName(call) != "builtin:append" || len(call.Call.Args) < 2 {
					continue
				}
				pre, ok := call.Call.Args[0].(*ssa.Slice)
				if !ok || pre.High == nil {
					continue
				}
				base := pre.X
				sameBase := func(v ssa.Value) bool { return v == base || sameRoot(v, base) }
				// delete idiom: the appended data is a tail of the same slice
				if tl, ok := call.Call.Args[1].(*ssa.Slice); ok && tl.Low != nil && sameBase(tl.X) {
					r.OKTrivial("I1", core.FuncName(fn), "prefix-append-is-delete-idiom", p.InstrPos(call), "append(c[:i], c[j:]...) moves the slice's own tail")
					continue
				}
				// any later read of the old tail?
				later := ""
				for _, b := range fn.Blocks {
					for _, in := range b.Instrs {
						sl, ok := in.(*ssa.Slice)
						if !ok || sl.Low == nil || !sameBase(sl.X) || sl.Referrers() == nil {
							continue
						}
						for _, rf := range *sl.Referrers() {
							if rf != ssa.Instruction(call) && (core.Reaches(call, rf) || rf.Block() == call.Block()) {
								later = p.InstrPos(rf)
							}
						}
					}
				}
				r.Check(later == "", "I1", core.FuncName(fn), "no-insert-through-truncated-prefix", p.InstrPos(call), "no later read of the overwritten tail", "append(c[:k], new...) overwrites c[k] in place and the old tail c[k:] is read afterwards (at "+later+"): the element that was at k is lost and the new one is stored twice, so the stored collection is not the fold of the applied add events")
			}
		}
	}
	// ---- I1 (continued): an emptied collection stays a collection ---------------
	// a slice rebuilt by appending a spread of unknown length onto a nil slice is nil when nothing
	// is appended; json.Marshal then stores `null` where the fold of the events is `[]`
	for _, mp := range mwPkgs {
		for _, fn := range p.FuncsOfPkg(mp.rel) {
			for _, c := range core.Calls(fn) {
				call, ok := c.(*ssa.Call)
				if !ok || core.CalleeName(call) != "builtin:append" || len(call.Call.Args) < 2 {
					continue
				}
				if !isNilConst(call.Call.Args[0]) {
					continue
				}
				// appending a literal element list (one or more elements) cannot stay nil
				if elemOfVarargs(call.Call.Args[1]) != nil {
					continue
				}
				r.Bad("I1", core.FuncName(fn), "no-rebuild-on-a-nil-slice", p.InstrPos(call), "a collection is rebuilt by appending a slice of unknown length onto a nil slice: when the result is empty it is nil and is stored as JSON null - after removing the last element get serves null instead of []")
			}
		}
	}
	// ---- D1 --------------------------------------------------------------
	for _, mp := range mwPkgs {
		if m := methodNamed(p, mp.rel, mp.typ, "applyChange"); m != nil {
			// the function (closure or private helper) that looks properties up in the stored model
			for _, cl := range p.Scope(m) {
				var lookups []*ssa.Lookup
				for _, b := range cl.Blocks {
					for _, in := range b.Instrs {
						if lk, ok := in.(*ssa.Lookup); ok && strings.HasPrefix(lk.X.Type().String(), "map[string]interface") {
							lookups = append(lookups, lk)
						}
					}
				}
				if len(lookups) == 0 {
					continue
				}
				okPresence := false
				for _, lk := range lookups {
					if lk.CommaOk {
						okPresence = true
					}
				}
				r.Check(okPresence, "D1", core.FuncName(cl), "presence-decided-by-comma-ok-lookup", p.InstrPos(lookups[0]), "a stored property (even null) is distinguished from an absent one by the map's presence flag", "the change handler looks the property up without the presence flag: a property stored as null is treated as absent (delete skipped in storage, wrong old values)")
				// revert entries: updates of a map[string]interface{} other than the model being looked up
				good := true
				why := ""
				nRev := 0
				for _, b := range cl.Blocks {
					for _, in := range b.Instrs {
						mu, ok := in.(*ssa.MapUpdate)
						if !ok || !strings.HasPrefix(mu.Map.Type().String(), "map[string]interface") {
							continue
						}
						isModel := false
						for _, lk := range lookups {
							if sameRoot(mu.Map, lk.X) {
								isModel = true
							}
						}
						if isModel {
							continue
						}
						nRev++
						v := core.Strip(mu.Value)
						isDel := false
						if g, ok := loadedGlobal(v); ok && g == "DeleteAction" {
							isDel = true
						}
						isOld := false
						if ex, ok := v.(*ssa.Extract); ok && ex.Index == 0 {
							if _, ok := ex.Tuple.(*ssa.Lookup); ok {
								isOld = true
							}
						}
						if _, ok := v.(*ssa.Lookup); ok {
							isOld = true
						}
						if !isDel && !isOld {
							good = false
							why = "revert entry is " + valDesc(mu.Value)
						}
						if isDel {
							// must be on the not-present edge
							np := false
							for _, ed := range dominatingEdges(mu) {
								cnd, succ := ed.Norm()
								if ex, ok := cnd.(*ssa.Extract); ok && ex.Index == 1 && succ == 1 {
									if _, ok := ex.Tuple.(*ssa.Lookup); ok {
										np = true
									}
								}
							}
							if !np {
								good = false
								why = "the delete action is recorded as old value outside the not-present edge of the lookup"
							}
						}
					}
				}
				r.Check(good && nRev >= 2, "D1", core.FuncName(cl), "old-values=looked-up-or-delete-action", p.Pos(cl.Pos()), fmt.Sprintf("%d revert entries, each the looked-up old value or (for a new property) the delete action", nRev), "old values handed to listeners are not the previous stored values: "+why)
			}
		}
		if m := methodNamed(p, mp.rel, mp.typ, "applyDelete"); m != nil {
			for _, cl := range m.AnonFuncs {
				var vc, del ssa.CallInstruction
				for _, c := range helperCalls(p, cl) {
					if cal := c.Common().StaticCallee(); cal != nil && cal.Name() == "ValueCopy" && strings.Contains(cal.String(), "badger") {
						vc = c
					}
					if isBadgerCall(c, "Txn", "Delete") {
						del = c
					}
				}
				if del == nil {
					continue
				}
				before := false
				if vc != nil {
					for _, vs := range p.Lift(vc, cl) {
						for _, ds := range p.Lift(del, cl) {
							if vs != ds && core.Dominates(vs, ds) {
								before = true
							}
						}
					}
				}
				r.Check(before, "D1", core.FuncName(cl), "value-read-before-delete-in-same-txn", p.InstrPos(del), "the deleted data is read in the transaction that deletes it", "delete does not read the value in the same transaction before deleting")
				// the outer function unmarshals the captured cell written from ValueCopy's result
				cellOK := false
				for _, b := range cl.Blocks {
					for _, in := range b.Instrs {
						st, ok := in.(*ssa.Store)
						if !ok {
							continue
						}
						fv, ok := st.Addr.(*ssa.FreeVar)
						if !ok || !isByteSlice(st.Val.Type()) {
							continue
						}
						fromVC := false
						for _, lf := range valueLeaves(st.Val, nil, 0) {
							if ex, ok := core.Strip(lf.V).(*ssa.Extract); ok && ex.Index == 0 && vc != nil && ex.Tuple == vc.Value() {
								fromVC = true
							}
						}
						if !fromVC {
							continue
						}
						cell := core.BindingOf(fv)
						for _, c := range core.Calls(m) {
							for i, a := range c.Common().Args {
								if u, ok := a.(*ssa.UnOp); ok && u.X == cell && argReachesUnmarshal(c, i, 0) {
									cellOK = true
								}
							}
						}
					}
				}
				// the decoded value that is returned / handed to the index listeners is assigned on every
				// path: when it lives in a variable shared with the transaction body, the body assigns it under
				// the same "indexes configured" condition under which the outer function relies on it
				for _, ret := range core.Returns(m) {
					if len(ret.Results) != 2 || !isNilConst(ret.Results[1]) {
						continue
					}
					ld, ok := ret.Results[0].(*ssa.UnOp)
					if !ok || ld.Op != token.MUL {
						// a plain local: no source may be the zero value
						if _, isPhi := ret.Results[0].(*ssa.Phi); isPhi {
							unassigned := false
							for _, src := range phiSources(ret.Results[0]) {
								if isNilConst(src.V) {
									unassigned = true
								}
							}
							r.Check(!unassigned, "D1", core.FuncName(m), "deleted-value-assigned-on-every-path", p.InstrPos(ret), "the value returned was assigned on every path to the success return", "a path reaches the success return with the returned value still nil (e.g. the transaction body assigns a shadowing local): delete listeners and index listeners receive nil instead of the deleted value")
						}
						continue
					}
					cellV, ok := ld.X.(*ssa.Alloc)
					if !ok {
						continue
					}
					// condition under which the body stores to the cell
					var bodyCond *core.Field
					bodyStores := false
					for _, b := range cl.Blocks {
						for _, in := range b.Instrs {
							st, ok := in.(*ssa.Store)
							if !ok {
								continue
							}
							fv, ok := st.Addr.(*ssa.FreeVar)
							if !ok || core.BindingOf(fv) != ssa.Value(cellV) {
								continue
							}
							bodyStores = true
							for _, ed := range dominatingEdges(st) {
								ci := core.Cond(ed.If.Cond)
								if ci.Kind == "nilcmp" && ci.HasFld {
									truth := ed.Succ == 0
									if ci.Negate {
										truth = !truth
									}
									if (ci.Op == token.NEQ) == truth {
										f := ci.Field
										bodyCond = &f
									}
								}
							}
						}
					}
					fl := &core.Flow{Fn: m, Entry: core.StateSet(0).Add(0)}
					fl.Transfer = func(in ssa.Instruction, st int) core.StateSet {
						if s2, ok := in.(*ssa.Store); ok && s2.Addr == ssa.Value(cellV) {
							return core.StateSet(0).Add(1)
						}
						if c, ok := in.(*ssa.Call); ok && isBadgerCall(c, "DB", "Update") && bodyStores && st == 0 {
							if bodyCond == nil {
								return core.StateSet(0).Add(1)
							}
							return core.StateSet(0).Add(2) // assigned iff the field is non-nil
						}
						return core.StateSet(0).Add(st)
					}
					fl.BranchOn = func(cond ssa.Value, succ int, st int) (int, bool) {
						if st != 2 || bodyCond == nil {
							return st, true
						}
						ci := core.Cond(cond)
						if ci.Kind == "nilcmp" && ci.HasFld && ci.Field == *bodyCond {
							truth := succ == 0
							if ci.Negate {
								truth = !truth
							}
							if (ci.Op == token.NEQ) == truth {
								return 1, true
							}
							return 0, true
						}
						return st, true
					}
					fl.Branch = func(iff *ssa.If, succ int, st int) (int, bool) { return fl.BranchOn(iff.Cond, succ, st) }
					res := fl.Run()
					st := res.Before[ret]
					r.Check(!st.Empty() && st.Only(1), "D1", core.FuncName(m), "deleted-value-assigned-on-every-path", p.InstrPos(ret), "the value returned and handed to the listeners was assigned on every path to the success return", "a path reaches the success return without the returned value having been assigned (e.g. the transaction body assigns a shadowing local): delete listeners and index listeners receive nil instead of the deleted value")
				}
				r.Check(cellOK, "D1", core.FuncName(m), "returns-the-bytes-read-in-the-transaction", p.Pos(m.Pos()), "the returned data is unmarshalled from what the transaction read", "delete returns data that is not what the transaction read")
			}
		}
	}
}

func condShapeOfReturn(ret *ssa.Return) string {
	g, _ := loadedGlobal(unspill(ret.Results[0]))
	eds := dominatingEdges(ret)
	if len(eds) == 0 {
		return g
	}
	best := eds[0]
	for _, e := range eds[1:] {
		if best.If.Block().Dominates(e.If.Block()) {
			best = e
		}
	}
	return g + "@" + condShape(best)
}

// sameRoot: a and b are the same value or loads of the same variable cell.
func sameRoot(a, b ssa.Value) bool {
	if a == b {
		return true
	}
	ua, ok1 := a.(*ssa.UnOp)
	ub, ok2 := b.(*ssa.UnOp)
	return ok1 && ok2 && ua.Op == token.MUL && ub.Op == token.MUL && ua.X == ub.X
}

// argReachesUnmarshal: the i-th argument of call c is the data argument of
// json.Unmarshal, directly or through module helpers that pass it on unchanged.
func argReachesUnmarshal(c ssa.CallInstruction, i, depth int) bool {
	cal := c.Common().StaticCallee()
	if cal == nil || depth > 3 {
		return false
	}
	if cal.String() == "encoding/json.Unmarshal" {
		return i == 0
	}
	if len(cal.Blocks) == 0 || i >= len(cal.Params) {
		return false
	}
	prm := cal.Params[i]
	for _, c2 := range core.Calls(cal) {
		for j, a := range c2.Common().Args {
			if core.Strip(a) == ssa.Value(prm) && argReachesUnmarshal(c2, j, depth+1) {
				return true
			}
		}
	}
	return false
}

func isByteSlice(t types.Type) bool {
	sl, ok := t.Underlying().(*types.Slice)
	if !ok {
		return false
	}
	b, ok := sl.Elem().Underlying().(*types.Basic)
	return ok && b.Kind() == types.Uint8
}

// mayHoldField: v may be (a slice of) a struct field's value: a field load,
// or a local / captured variable or phi one of whose sources is.
func mayHoldField(v ssa.Value, depth int) (bool, string) {
	if depth > 6 || v == nil {
		return false, ""
	}
	v = core.Strip(v)
	if f, ok := core.LoadedField(v); ok {
		return true, "the field " + f.String()
	}
	switch x := v.(type) {
	case *ssa.Const, *ssa.MakeSlice, *ssa.Call, *ssa.Extract:
		return false, ""
	case *ssa.Slice:
		return mayHoldField(x.X, depth+1)
	case *ssa.Phi:
		for _, e := range x.Edges {
			if e == v {
				continue
			}
			if ok, w := mayHoldField(e, depth+1); ok {
				return true, w
			}
		}
	case *ssa.UnOp:
		if x.Op != token.MUL {
			return false, ""
		}
		cell := x.X
		if fv, ok := cell.(*ssa.FreeVar); ok {
			cell = core.BindingOf(fv)
		}
		al, ok := cell.(*ssa.Alloc)
		if !ok {
			return false, ""
		}
		for _, f2 := range withAnon(core.Outermost(al.Parent())) {
			for _, b := range f2.Blocks {
				for _, in := range b.Instrs {
					st, ok := in.(*ssa.Store)
					if !ok {
						continue
					}
					tgt := st.Addr
					if fv, ok := tgt.(*ssa.FreeVar); ok {
						tgt = core.BindingOf(fv)
					}
					if tgt != ssa.Value(al) {
						continue
					}
					if ok, w := mayHoldField(st.Val, depth+1); ok {
						return true, "a variable that may hold " + w
					}
				}
			}
		}
	}
	return false, ""
}

// unspill: in a function with a defer the returned values travel through
// result cells (store, run defers, load, return): the value behind a returned
// load of such a cell is the one stored last in the same block.
func unspill(v ssa.Value) ssa.Value {
	if u, ok := v.(*ssa.UnOp); ok && u.Op == token.MUL {
		if _, isAl := u.X.(*ssa.Alloc); isAl {
			if st := lastStoreInBlock(u); st != nil {
				return st
			}
		}
	}
	return v
}

// pooledSource: v is (a view of) memory owned by an object obtained from a
// sync.Pool; returns a description, or "" if not.
func pooledSource(v ssa.Value, depth int) string {
	if depth > 8 || v == nil {
		return ""
	}
	switch x := v.(type) {
	case *ssa.Slice:
		return pooledSource(x.X, depth+1)
	case *ssa.Convert:
		return pooledSource(x.X, depth+1)
	case *ssa.ChangeType:
		return pooledSource(x.X, depth+1)
	case *ssa.TypeAssert:
		return pooledSource(x.X, depth+1)
	case *ssa.Extract:
		return pooledSource(x.Tuple, depth+1)
	case *ssa.Phi:
		for _, e := range x.Edges {
			if e != v {
				if s := pooledSource(e, depth+1); s != "" {
					return s
				}
			}
		}
	case *ssa.UnOp:
		if x.Op == token.MUL {
			if al, ok := x.X.(*ssa.Alloc); ok && al.Referrers() != nil {
				for _, rf := range *al.Referrers() {
					if st, ok := rf.(*ssa.Store); ok && st.Addr == ssa.Value(al) {
						if s := pooledSource(st.Val, depth+1); s != "" {
							return s
						}
					}
				}
			}
		}
	case *ssa.Call:
		name := core.CalleeName(x)
		if name == "(*sync.Pool).Get" {
			return "an object taken from a sync.Pool"
		}
		// views: bytes.* helpers return a sub-slice of their argument, Buffer methods a view of the receiver
		if strings.HasPrefix(name, "bytes.") || strings.HasPrefix(name, "(*bytes.Buffer).") {
			for _, a := range x.Common().Args {
				if s := pooledSource(a, depth+1); s != "" {
					return s
				}
			}
		}
	}
	return ""
}

// storedBytesNotPooled: the value handed to Txn.Set (directly, or as the
// argument a helper passes on) is never backed by a pooled buffer - BadgerDB
// keeps the slice until the commit, which happens after the update closure
// (and its deferred Put) has returned (C20.I2's rule for other packages).
func storedBytesNotPooled(r *core.Run, rule string, rels []string) {
	p := r.P
	n := 0
	for _, rel := range rels {
		for _, fn := range p.FuncsOfPkg(rel) {
			for _, c := range core.Calls(fn) {
				if !isBadgerCall(c, "Txn", "Set") || len(c.Common().Args) < 3 {
					continue
				}
				n++
				src := ""
				for _, v := range paramArgs(p, c.Common().Args[2], 0) {
					if s := pooledSource(v, 0); s != "" {
						src = s
					}
				}
				r.Check(src == "", rule, core.FuncName(fn), "stored-bytes-are-not-pooled", p.InstrPos(c), "the value handed to the transaction is not backed by a pooled buffer", "the value handed to Txn.Set is backed by "+src+": BadgerDB keeps the slice until the transaction commits - after the closure has returned -, so a buffer that goes back to a pool when the closure ends can be refilled by a concurrent mutation of another id first, and that id's bytes are committed under this key")
			}
		}
	}
	if n == 0 {
		r.Bad(rule, strings.Join(rels, ","), "stored-bytes-are-not-pooled", "-", "no Txn.Set found (rule went vacuous)")
	}
}

// c20NothingFailsAfterCommit: every error an apply handler can return once
// DB.Update has come back is that call's own error (or one made on its
// non-nil edge).
func c20NothingFailsAfterCommit(r *core.Run, rule string, m *ssa.Function, upd ssa.CallInstruction) {
	p := r.P
	uv := upd.Value()
	if uv == nil {
		r.Unres(rule, core.FuncName(m)+".<update-result>", "the result of DB.Update is not used")
		return
	}
	after := map[*ssa.BasicBlock]bool{}
	var walk func(b *ssa.BasicBlock)
	walk = func(b *ssa.BasicBlock) {
		if after[b] {
			return
		}
		after[b] = true
		for _, s := range b.Succs {
			walk(s)
		}
	}
	for _, s := range upd.Block().Succs {
		walk(s)
	}
	isUpd := func(v ssa.Value) bool {
		for _, l := range phiSources(v) {
			if core.Strip(l.V) != ssa.Value(uv) {
				return false
			}
		}
		return true
	}
	ok := true
	var where ssa.Instruction = upd
	n := 0
	for _, ret := range core.Returns(m) {
		if len(ret.Results) == 0 || !(after[ret.Block()] || ret.Block() == upd.Block()) {
			continue
		}
		n++
		ev := ret.Results[len(ret.Results)-1]
		if types.TypeString(ev.Type(), nil) != "error" {
			continue
		}
		for _, src := range phiSources(ev) {
			v := core.Strip(src.V)
			if c, isC := v.(*ssa.Const); isC && c.IsNil() {
				continue
			}
			if v == ssa.Value(uv) {
				continue
			}
			in, isI := v.(ssa.Instruction)
			if isI && in.Parent() == m && !after[in.Block()] && in.Block() != upd.Block() {
				continue // made before the transaction ran
			}
			onFailure := false
			for _, ed := range srcEdges(ret, src) {
				ci := core.Cond(ed.If.Cond)
				if ci.Kind != "nilcmp" || !isUpd(ci.X) {
					continue
				}
				truth := ed.Succ == 0
				if ci.Negate {
					truth = !truth
				}
				if (ci.Op == token.NEQ) == truth {
					onFailure = true
				}
			}
			if !onFailure {
				ok = false
				where = ret
			}
		}
	}
	if n == 0 {
		r.Unres(rule, core.FuncName(m)+".<return-after-update>", "no return after DB.Update")
		return
	}
	r.Check(ok, rule, core.FuncName(m), "no-error-once-the-update-has-committed", p.InstrPos(where), "after DB.Update only its own error is returned", "the handler can return an error of its own after DB.Update has returned without one: the transaction is committed (the stored resource is changed or gone), but the event method panics on the error before it publishes the event or calls a listener - storage has changed and nothing was published")
}

// c20UntouchedJSONKept is C20.R1.
func c20UntouchedJSONKept(r *core.Run, rule string, cl *ssa.Function) {
	p := r.P
	n := 0
	for _, c := range core.Calls(cl) {
		if core.CalleeName(c) != "encoding/json.Unmarshal" || len(c.Common().Args) != 2 {
			continue
		}
		dst := c.Common().Args[1]
		if mi, ok := dst.(*ssa.MakeInterface); ok {
			dst = mi.X
		}
		pt, ok := dst.Type().Underlying().(*types.Pointer)
		if !ok {
			continue
		}
		var elem types.Type
		switch t := pt.Elem().Underlying().(type) {
		case *types.Slice:
			elem = t.Elem()
		case *types.Map:
			elem = t.Elem()
		default:
			continue
		}
		n++
		raw := types.TypeString(elem, nil) == "encoding/json.RawMessage"
		r.Check(raw, rule, core.FuncName(cl), "stored-value-decoded-into-raw-elements", p.InstrPos(c), "the container is decoded with its elements kept as raw JSON", "the stored value is decoded into "+types.TypeString(pt.Elem(), nil)+" and re-encoded: every element or property the event does not touch passes through float64 - an integer beyond 2^53 is stored back as a different number, so get and Value no longer serve the fold of the applied events")
	}
	if n == 0 {
		r.Unres(rule, core.FuncName(cl)+".<container-decode>", "no json.Unmarshal into a slice or map in the handler's transaction body")
	}
}

// c20CreateStoresGivenValue is C20.R2.
func c20CreateStoresGivenValue(r *core.Run, rule string, m *ssa.Function) {
	p := r.P
	var unit []*ssa.Function
	seen := map[*ssa.Function]bool{}
	work := []*ssa.Function{m}
	for len(work) > 0 {
		f := work[0]
		work = work[1:]
		if seen[f] {
			continue
		}
		seen[f] = true
		unit = append(unit, f)
		work = append(work, f.AnonFuncs...)
		work = append(work, p.Helpers(f)[1:]...)
	}
	var written []ssa.Value
	var at []ssa.Instruction
	for _, f := range unit {
		for _, b := range f.Blocks {
			for _, in := range b.Instrs {
				switch x := in.(type) {
				case *ssa.Call:
					if strings.HasSuffix(core.CalleeName(x), "badger.Txn).Set") && len(x.Call.Args) == 3 {
						if k, isC := x.Call.Args[2].(*ssa.Const); isC && k.IsNil() {
							continue // an index entry
						}
						written = append(written, x.Call.Args[2])
						at = append(at, x)
					}
				case *ssa.Store:
					if f, ok := core.FieldOf(x.Addr); ok && f.Name == "Value" && strings.HasSuffix(f.Struct, "badger.Entry") {
						written = append(written, x.Val)
						at = append(at, x)
					}
				}
			}
		}
	}
	if len(written) == 0 {
		r.Unres(rule, core.FuncName(m)+".<resource-write>", "no Txn.Set / Entry.Value write in the create handler")
		return
	}
	for i, w0 := range written {
		for _, w := range unitArgs(p, core.Strip(w0), seen, 0) { // a write helper shared by several sites
			if k, isC := w.(*ssa.Const); isC && k.IsNil() {
				continue
			}
			good, why := false, "the bytes written are not the result of json.Marshal"
			if ex, ok := valueOrigin(p, w, 0).(*ssa.Extract); ok && ex.Index == 0 {
				if mc, ok := ex.Tuple.(*ssa.Call); ok && core.CalleeName(mc) == "encoding/json.Marshal" {
					// (the encoder may sit in a write helper shared with the other handlers: its parameter is
					// followed to the call sites inside the create handler's own unit)
					good = true
					for _, a := range unitArgs(p, core.Strip(valueOrigin(p, mc.Call.Args[0], 0)), seen, 0) {
						o := valueOrigin(p, a, 0)
						if prm, ok := o.(*ssa.Parameter); !ok || prm.Parent() != m {
							good = false
							why = "the value encoded is " + valDesc(o) + ", not the handler's value parameter as it was handed in (the variable is re-assigned or converted before it is encoded)"
						}
					}
				}
			}
			r.Check(good, rule, core.FuncName(m), "stored-bytes<-json.Marshal(value-parameter)", p.InstrPos(at[i]), "the resource is stored as the encoding of the value handed in", "the create handler does not store the encoding of the value it was given: "+why+" - get serves something else than the created data, and later events fold over the wrong base")
		}
	}
}

// unitArgs is paramArgs restricted to call sites inside the given functions.
func unitArgs(p *core.Prog, v ssa.Value, in map[*ssa.Function]bool, depth int) []ssa.Value {
	prm, ok := v.(*ssa.Parameter)
	if !ok || depth > 4 || !p.IsPrivateHelper(prm.Parent()) {
		return []ssa.Value{v}
	}
	idx := -1
	for i, q := range prm.Parent().Params {
		if q == prm {
			idx = i
		}
	}
	var out []ssa.Value
	for _, c := range p.CallersOf(prm.Parent()) {
		if in[c.Parent()] && idx >= 0 && idx < len(c.Common().Args) {
			out = append(out, unitArgs(p, core.Strip(c.Common().Args[idx]), in, depth+1)...)
		}
	}
	if len(out) == 0 {
		return []ssa.Value{v}
	}
	return out
}
