package props

import (
	"go/constant"
	"go/token"
	"go/types"
	"golang.org/x/tools/go/ssa"
	"strings"

	"resverif/core"
)

// mayExec computes the set of functions (among fns) that may execute an
// instruction satisfying pred, directly or through static, non-go calls.
func mayExec(fns []*ssa.Function, pred func(ssa.Instruction) bool) map[*ssa.Function]bool {
	out := map[*ssa.Function]bool{}
	for _, fn := range fns {
		for _, b := range fn.Blocks {
			for _, in := range b.Instrs {
				if pred(in) {
					out[fn] = true
				}
			}
		}
	}
	for changed := true; changed; {
		changed = false
		for _, fn := range fns {
			if out[fn] {
				continue
			}
			for _, c := range core.Calls(fn) {
				if core.IsGo(c) {
					continue
				}
				if cal := c.Common().StaticCallee(); cal != nil && out[cal] {
					out[fn] = true
					changed = true
					break
				}
			}
		}
	}
	return out
}

// guardSite is a panic guard: a condition (described with the caller's
// names) whose establishment leads to a panic, represented in function F by
// the instruction At (the If itself, or the call of the helper that contains it).
type guardSite struct {
	Desc string
	At   ssa.Instruction
}

// panicGuardsIn lists the panic guards of F including those inside helper
// functions that F calls (one level of helpers, recursively up to depth 3):
// a helper's guard conditions are described with the helper's parameters
// replaced by the call's arguments.
func panicGuardsIn(F *ssa.Function) []guardSite {
	var out []guardSite
	var walk func(fn *ssa.Function, rs *core.Resolver, at ssa.Instruction, depth int)
	walk = func(fn *ssa.Function, rs *core.Resolver, at ssa.Instruction, depth int) {
		for _, b := range fn.Blocks {
			if len(b.Instrs) == 0 {
				continue
			}
			if iff, ok := b.Instrs[len(b.Instrs)-1].(*ssa.If); ok {
				for i, s := range b.Succs {
					// (a block shared by several guards - merged switch cases - still only panics)
					if okp, _ := edgeReachesOnlyPanic(s, func(ssa.Instruction) bool { return false }); okp {
						rep := at
						if rep == nil {
							rep = iff
						}
						out = append(out, guardSite{describeCondWith(edgeCond{iff, i}, rs), rep})
					}
				}
			}
			if depth >= 3 {
				continue
			}
			for _, in := range b.Instrs {
				c, ok := in.(*ssa.Call)
				if !ok {
					continue
				}
				cal := c.Common().StaticCallee()
				if cal == nil || len(cal.Blocks) == 0 || cal.Pkg != F.Pkg || cal == fn {
					continue
				}
				// only helpers that contain a panic at all
				has := false
				for _, cb := range cal.Blocks {
					for _, ci := range cb.Instrs {
						if _, ok := ci.(*ssa.Panic); ok {
							has = true
						}
					}
				}
				if !has {
					continue
				}
				rs2 := core.NewResolver()
				for k, v := range rs.Env {
					rs2.Env[k] = v
				}
				rs2.Bind(c)
				rep := at
				if rep == nil {
					rep = c
				}
				walk(cal, rs2, rep, depth+1)
			}
		}
	}
	walk(F, core.NewResolver(), nil, 0)
	return out
}

// guardMap indexes panicGuardsIn by description (first site wins).
func guardMap(F *ssa.Function) map[string]ssa.Instruction {
	m := map[string]ssa.Instruction{}
	for _, g := range panicGuardsIn(F) {
		if _, ok := m[g.Desc]; !ok {
			m[g.Desc] = g.At
		}
	}
	return m
}

// panicsUnlessCall finds, in fn or the helpers it calls, an If whose
// condition is (the negation of) a direct call of a function named callee and
// whose failing edge only panics. It returns the representative instruction in fn.
func panicsUnlessCall(fn *ssa.Function, callee string) (ssa.Instruction, bool) {
	var find func(f *ssa.Function, at ssa.Instruction, depth int) (ssa.Instruction, bool)
	find = func(f *ssa.Function, at ssa.Instruction, depth int) (ssa.Instruction, bool) {
		for _, b := range f.Blocks {
			if len(b.Instrs) == 0 {
				continue
			}
			if iff, ok := b.Instrs[len(b.Instrs)-1].(*ssa.If); ok {
				c := iff.Cond
				neg := false
				for {
					if u, ok := c.(*ssa.UnOp); ok && u.Op.String() == "!" {
						neg = !neg
						c = u.X
						continue
					}
					break
				}
				// the call may be one operand of a short-circuit chain: look at the If's own condition only
				if call, ok := c.(*ssa.Call); ok {
					if cal := call.Common().StaticCallee(); cal != nil && cal.Name() == callee {
						failSucc := 1
						if neg {
							failSucc = 0
						}
						if okp, _ := edgeReachesOnlyPanic(b.Succs[failSucc], func(ssa.Instruction) bool { return false }); okp {
							if at != nil {
								return at, true
							}
							return iff, true
						}
					}
				}
			}
			if depth >= 2 {
				continue
			}
			for _, in := range b.Instrs {
				if c, ok := in.(*ssa.Call); ok {
					if cal := c.Common().StaticCallee(); cal != nil && len(cal.Blocks) > 0 && cal.Pkg == fn.Pkg && cal != f && cal.Name() != callee {
						rep := at
						if rep == nil {
							rep = c
						}
						if r, ok := find(cal, rep, depth+1); ok {
							return r, true
						}
					}
				}
			}
		}
		return nil, false
	}
	return find(fn, nil, 0)
}

// leaf is a value contributing to another value, with the resolver
// environment under which it was reached.
type leaf struct {
	V  ssa.Value
	Rs *core.Resolver
}

// valueLeaves expands v through phis and through calls of module functions
// (all of their return values, parameters bound to the arguments) down to
// values that are neither; depth-limited.
func valueLeaves(v ssa.Value, rs *core.Resolver, depth int) []leaf {
	if rs == nil {
		rs = core.NewResolver()
	}
	v = rs.R(v)
	if depth > 6 {
		return []leaf{{v, rs}}
	}
	switch x := v.(type) {
	case *ssa.Phi:
		var out []leaf
		for _, e := range x.Edges {
			out = append(out, valueLeaves(e, rs, depth+1)...)
		}
		return out
	case *ssa.Call:
		if out := funcValueLeaves(x, 0, rs, depth); out != nil {
			return out
		}
		cal := x.Common().StaticCallee()
		if cal != nil && len(cal.Blocks) > 0 && cal.Pkg != nil && x.Parent() != nil && cal.Pkg == core.Outermost(x.Parent()).Pkg && cal.Signature.Results().Len() == 1 {
			rs2 := core.NewResolver()
			for k, vv := range rs.Env {
				rs2.Env[k] = vv
			}
			rs2.Bind(x)
			var out []leaf
			for _, ret := range core.Returns(cal) {
				if cal.Recover != nil && ret.Block() == cal.Recover {
					continue
				}
				out = append(out, valueLeaves(ret.Results[0], rs2, depth+1)...)
			}
			if len(out) > 0 {
				return out
			}
		}
	case *ssa.Extract:
		// one component of a multi-result module helper
		if c, ok := x.Tuple.(*ssa.Call); ok {
			if out := funcValueLeaves(c, x.Index, rs, depth); out != nil {
				return out
			}
			cal := c.Common().StaticCallee()
			if cal != nil && len(cal.Blocks) > 0 && cal.Pkg != nil && x.Parent() != nil && cal.Pkg == core.Outermost(x.Parent()).Pkg {
				rs2 := core.NewResolver()
				for k, vv := range rs.Env {
					rs2.Env[k] = vv
				}
				rs2.Bind(c)
				var out []leaf
				for _, ret := range core.Returns(cal) {
					if cal.Recover != nil && ret.Block() == cal.Recover {
						continue
					}
					if x.Index < len(ret.Results) {
						out = append(out, valueLeaves(ret.Results[x.Index], rs2, depth+1)...)
					}
				}
				if len(out) > 0 {
					return out
				}
			}
		}
	}
	return []leaf{{v, rs}}
}

// funcValueLeaves: result idx of a call of a local function variable (default
// implementation or callback): the leaves of every declared function it may
// hold, plus the call itself when it may hold a callback.
func funcValueLeaves(c *ssa.Call, idx int, rs *core.Resolver, depth int) []leaf {
	fns, other := core.FuncValueCallees(c)
	if len(fns) == 0 {
		return nil
	}
	var out []leaf
	for _, cal := range fns {
		rs2 := core.NewResolver()
		for k, vv := range rs.Env {
			rs2.Env[k] = vv
		}
		rs2.BindTo(c, cal)
		for _, ret := range core.Returns(cal) {
			if cal.Recover != nil && ret.Block() == cal.Recover {
				continue
			}
			if idx < len(ret.Results) {
				out = append(out, valueLeaves(ret.Results[idx], rs2, depth+1)...)
			}
		}
	}
	if other {
		out = append(out, leaf{c, rs})
	}
	return out
}

// ctxEdges lists the If edges under which `in` executes in an execution of
// F: those dominating it in its own function plus, when it lives in a private
// helper of F, those of every call site through which it is reached.
func ctxEdges(p *core.Prog, in ssa.Instruction, F *ssa.Function, depth int) []edgeCond {
	out := dominatingEdges(in)
	fn := in.Parent()
	if fn == F || fn.Parent() != nil || depth > 4 {
		return out
	}
	for _, c := range p.CallersOf(fn) {
		if p.Within(c.Parent(), F) {
			out = append(out, ctxEdges(p, c, F, depth+1)...)
		}
	}
	return out
}

// paramArgs: for a parameter of a private helper, the argument values at its
// call sites (resolved recursively); any other value is returned as it is.
func paramArgs(p *core.Prog, v ssa.Value, depth int) []ssa.Value {
	prm, ok := v.(*ssa.Parameter)
	if !ok || depth > 4 || !p.IsPrivateHelper(prm.Parent()) {
		return []ssa.Value{v}
	}
	idx := -1
	for i, q := range prm.Parent().Params {
		if q == prm {
			idx = i
		}
	}
	var out []ssa.Value
	for _, c := range p.CallersOf(prm.Parent()) {
		if idx >= 0 && idx < len(c.Common().Args) {
			out = append(out, paramArgs(p, c.Common().Args[idx], depth+1)...)
		}
	}
	if len(out) == 0 {
		return []ssa.Value{v}
	}
	return out
}

// fieldStores: for a load of a struct field (state kept in an object instead of
// in locals), the values the functions fns store into that field of that struct
// type, with the stores' base addresses; ok is false for any other value.
func fieldStores(v ssa.Value, fns []*ssa.Function) (vals, bases []ssa.Value, ok bool) {
	u, isU := v.(*ssa.UnOp)
	if !isU || u.Op != token.MUL {
		return nil, nil, false
	}
	fa, isF := u.X.(*ssa.FieldAddr)
	if !isF {
		return nil, nil, false
	}
	key := types.TypeString(fa.X.Type(), nil)
	for _, f := range fns {
		for _, b := range f.Blocks {
			for _, in := range b.Instrs {
				st, isS := in.(*ssa.Store)
				if !isS {
					continue
				}
				fa2, isF2 := st.Addr.(*ssa.FieldAddr)
				if isF2 && fa2.Field == fa.Field && types.TypeString(fa2.X.Type(), nil) == key {
					vals = append(vals, st.Val)
					bases = append(bases, fa2.X)
				}
			}
		}
	}
	return vals, bases, true
}

// helperCalls lists the call instructions of F and of the private helpers it calls.
func helperCalls(p *core.Prog, F *ssa.Function) []ssa.CallInstruction {
	var out []ssa.CallInstruction
	for _, f2 := range p.Helpers(F) {
		out = append(out, core.Calls(f2)...)
	}
	return out
}

// valSrc is one non-phi source of a value together with the CFG edge through
// which it enters the (outermost) phi; Pred is nil when the value is used as it is.
type valSrc struct {
	V        ssa.Value
	Pred, To *ssa.BasicBlock
}

// phiSources expands v through phis (a variable assigned on several paths and
// used after the merge, e.g. the single `return result` of a function written
// with one exit).
func phiSources(v ssa.Value) []valSrc {
	var out []valSrc
	seen := map[*ssa.Phi]bool{}
	var walk func(v ssa.Value, pred, to *ssa.BasicBlock)
	walk = func(v ssa.Value, pred, to *ssa.BasicBlock) {
		if phi, ok := v.(*ssa.Phi); ok {
			if seen[phi] {
				return
			}
			seen[phi] = true
			for i, e := range phi.Edges {
				walk(e, phi.Block().Preds[i], phi.Block())
			}
			return
		}
		out = append(out, valSrc{v, pred, to})
	}
	walk(v, nil, nil)
	return out
}

// srcEdges lists the If edges known to have been taken when source s reaches
// the instruction that uses it: for a direct value the edges dominating the use,
// for a phi input the edges dominating the end of the predecessor block plus the
// predecessor's own branch edge into the merge block.
func srcEdges(use ssa.Instruction, s valSrc) []edgeCond {
	if s.Pred == nil {
		return dominatingEdges(use)
	}
	last := s.Pred.Instrs[len(s.Pred.Instrs)-1]
	out := dominatingEdges(last)
	if iff, ok := last.(*ssa.If); ok && len(s.Pred.Succs) == 2 && s.Pred.Succs[0] != s.Pred.Succs[1] {
		for i, sc := range s.Pred.Succs {
			if sc == s.To {
				out = append(out, edgeCond{iff, i})
			}
		}
	}
	return out
}

// condFact: the bool value V is known to be True (or false) at some point.
type condFact struct {
	V    ssa.Value
	True bool
}

// edgeFacts lists what taking edge e establishes: the branch condition itself
// and, when the condition is a flag (a bool phi) that can have the required
// value through one input only, that input's comparison and the edges through
// which it flows in (`ok = a && b; if ok {` establishes b and a).
func edgeFacts(e edgeCond) []condFact { return edgeFactsD(e, 0) }

func edgeFactsD(e edgeCond, depth int) []condFact {
	cnd, succ := e.Norm()
	truth := succ == 0
	out := []condFact{{cnd, truth}}
	if depth <= 3 {
		out = append(out, classifierFacts(cnd, truth, depth)...)
	}
	phi, ok := cnd.(*ssa.Phi)
	if !ok || depth > 3 {
		return out
	}
	var compat []valSrc
	for _, s := range phiSources(phi) {
		if isConstBool(s.V, !truth) {
			continue
		}
		compat = append(compat, s)
	}
	if len(compat) != 1 {
		return out
	}
	s := compat[0]
	if _, isC := s.V.(*ssa.Const); !isC {
		w, t := s.V, truth
		for {
			u, ok := w.(*ssa.UnOp)
			if !ok || u.Op != token.NOT {
				break
			}
			w, t = u.X, !t
		}
		out = append(out, condFact{w, t})
	}
	if s.Pred != nil {
		last := s.Pred.Instrs[len(s.Pred.Instrs)-1]
		for _, e2 := range srcEdges(last, s) {
			out = append(out, edgeFactsD(e2, depth+1)...)
		}
	}
	return out
}

// impliedConds describes what taking edge e establishes, as condition
// descriptions: the edge itself and - when the branch tests the bool result of a
// helper of the same package (`if r.alreadyReplied() { return }`) - the
// conditions that hold on every return of the helper compatible with the edge,
// the helper's parameters shown as the call's arguments.
func impliedConds(e edgeCond, depth int) []string {
	out := []string{describeCond(e)}
	cnd, succ := e.Norm()
	var call *ssa.Call
	idx := 0
	switch x := cnd.(type) {
	case *ssa.Call:
		call = x
	case *ssa.Extract:
		if c, ok := x.Tuple.(*ssa.Call); ok {
			call, idx = c, x.Index
		}
	}
	if call == nil || depth > 3 {
		return out
	}
	cal := call.Common().StaticCallee()
	if cal == nil || len(cal.Blocks) == 0 || cal.Pkg == nil || cal.Pkg != core.Outermost(e.If.Parent()).Pkg {
		return out
	}
	want := succ == 0
	rs := core.NewResolver()
	rs.Bind(call)
	var common map[string]bool
	for _, ret := range core.Returns(cal) {
		if cal.Recover != nil && ret.Block() == cal.Recover {
			continue
		}
		if idx >= len(ret.Results) || isConstBool(ret.Results[idx], !want) {
			continue
		}
		cur := map[string]bool{}
		for _, src := range phiSources(ret.Results[idx]) {
			_ = src
		}
		for _, de := range dominatingEdges(ret) {
			cur[describeCondWith(de, rs)] = true
			for _, s := range impliedConds(de, depth+1)[1:] {
				cur[s] = true
			}
		}
		if common == nil {
			common = cur
		} else {
			for k := range common {
				if !cur[k] {
					delete(common, k)
				}
			}
		}
	}
	return append(out, core.SortedKeys(common)...)
}

// originOf follows v to the one value it stands for: up through the parameters
// of private helpers (when all call sites pass the same value) and into the
// single value a module function returns on all its returns. nil when there
// is no single origin.
func originOf(p *core.Prog, v ssa.Value) ssa.Value {
	for i := 0; i < 8; i++ {
		vs := paramArgs(p, v, 0)
		if len(vs) == 0 {
			return nil
		}
		first := vs[0]
		for _, x := range vs[1:] {
			if x != first {
				return nil
			}
		}
		v = first
		call, ok := v.(*ssa.Call)
		if !ok {
			return v
		}
		cal := call.Common().StaticCallee()
		if cal == nil || len(cal.Blocks) == 0 || cal.Signature.Results().Len() != 1 || !strings.HasPrefix(cal.Pkg.Pkg.Path(), core.ModPath) {
			return v
		}
		var res ssa.Value
		for _, ret := range core.Returns(cal) {
			if cal.Recover != nil && ret.Block() == cal.Recover {
				continue
			}
			if res != nil && ret.Results[0] != res {
				return v
			}
			res = ret.Results[0]
		}
		if res == nil {
			return v
		}
		v = res
	}
	return v
}

// ownerName names a function for obligation keys: a private helper that is only
// ever reached from one outer function is named after that function, so that a
// finding keyed by "the stop function writes the field" survives the extraction
// of that write into a helper.
func ownerName(p *core.Prog, fn *ssa.Function) string {
	cur := fn
	for i := 0; i < 6 && p.IsPrivateHelper(cur); i++ {
		var owner *ssa.Function
		for _, c := range p.CallersOf(cur) {
			o := core.Outermost(c.Parent())
			if o == cur {
				continue
			}
			if owner != nil && owner != o {
				return core.FuncName(fn)
			}
			owner = o
		}
		if owner == nil {
			break
		}
		cur = owner
	}
	return core.FuncName(cur)
}

// classifierFacts: the branch compares the result of a classifying helper of
// the package with a constant (`switch kindOf(tok) { case kindWildcard:`).
// When exactly one return of the helper yields that constant (and every other
// return yields a different constant), taking the "equal" edge establishes
// what holds on the way to that return - facts about the helper's own values
// (its parameters), useful to rules that look at the shape of the comparison
// only (`tok[0] == '>'`).
func classifierFacts(cnd ssa.Value, truth bool, depth int) []condFact {
	// a bool result of a helper tested directly: `v, send := r.apply(x); if !send { return }` -
	// when exactly one return of the helper yields that truth value (all are constants), the facts
	// on the way to it hold
	if ex, isEx := cnd.(*ssa.Extract); isEx {
		if call, isCall := ex.Tuple.(*ssa.Call); isCall {
			cal := call.Common().StaticCallee()
			if cal != nil && len(cal.Blocks) > 0 && call.Parent() != nil && cal.Pkg == call.Parent().Pkg {
				type hit struct {
					ret *ssa.Return
					src valSrc
				}
				var hits []hit
				for _, ret := range core.Returns(cal) {
					if ex.Index >= len(ret.Results) {
						return nil
					}
					for _, src := range phiSources(ret.Results[ex.Index]) {
						if isConstBool(src.V, truth) {
							hits = append(hits, hit{ret, src})
						} else if !isConstBool(src.V, !truth) {
							return nil
						}
					}
				}
				if len(hits) == 1 {
					var out []condFact
					for _, e2 := range srcEdges(hits[0].ret, hits[0].src) {
						out = append(out, edgeFactsD(e2, depth+1)...)
					}
					return out
				}
			}
		}
		return nil
	}
	bo, ok := cnd.(*ssa.BinOp)
	if !ok || (bo.Op != token.EQL && bo.Op != token.NEQ) || (bo.Op == token.EQL) != truth {
		return nil
	}
	x, y := bo.X, bo.Y
	if _, isC := x.(*ssa.Const); isC {
		x, y = y, x
	}
	k, isK := y.(*ssa.Const)
	call, isCall := x.(*ssa.Call)
	if !isK || !isCall || k.Value == nil {
		return nil
	}
	cal := call.Common().StaticCallee()
	if cal == nil || len(cal.Blocks) == 0 || call.Parent() == nil || cal.Pkg != call.Parent().Pkg || cal.Signature.Results().Len() != 1 {
		return nil
	}
	type hit struct {
		ret *ssa.Return
		src valSrc
	}
	var hits []hit
	for _, ret := range core.Returns(cal) {
		for _, src := range phiSources(ret.Results[0]) {
			c, isC := src.V.(*ssa.Const)
			if !isC || c.Value == nil || c.Value.Kind() != k.Value.Kind() {
				return nil // a return that may or may not yield the constant
			}
			if constant.Compare(c.Value, token.EQL, k.Value) {
				hits = append(hits, hit{ret, src})
			}
		}
	}
	if len(hits) != 1 {
		return nil
	}
	var out []condFact
	for _, e2 := range srcEdges(hits[0].ret, hits[0].src) {
		out = append(out, edgeFactsD(e2, depth+1)...)
	}
	return out
}

// closureMaker: fn is a private helper with one call site that returns a
// closure it makes (requestProcessor(...) func()); the call site is returned.
func closureMaker(p *core.Prog, fn *ssa.Function) ssa.CallInstruction {
	if fn == nil || fn.Parent() != nil || !p.IsPrivateHelper(fn) || fn.Signature.Results().Len() != 1 {
		return nil
	}
	if _, isFunc := fn.Signature.Results().At(0).Type().Underlying().(*types.Signature); !isFunc {
		return nil
	}
	cs := p.CallersOf(fn)
	if len(cs) != 1 {
		return nil
	}
	for _, ret := range core.Returns(fn) {
		for _, src := range phiSources(ret.Results[0]) {
			if _, ok := src.V.(*ssa.MakeClosure); !ok {
				return nil
			}
		}
	}
	return cs[0]
}

// messageHandlerOf: the function a call belongs to for the purposes of "the
// message handler": the outermost function, or - when that only makes the
// processing closure for its single caller - that caller.
func messageHandlerOf(p *core.Prog, c ssa.CallInstruction) *ssa.Function {
	h := core.Outermost(c.Parent())
	for i := 0; i < 3; i++ {
		site := closureMaker(p, h)
		if site == nil {
			break
		}
		h = core.Outermost(site.Parent())
	}
	return h
}

// replySubjectFact: the bool value v, being true (or false), says whether the
// Reply member of a message is empty: `m.Reply == ""`, `len(m.Reply) == 0`,
// `len(m.Reply) < 1`, `len(m.Reply) > 0` ... Returns (known, nonEmpty).
func replySubjectFact(v ssa.Value, truth bool) (known, nonEmpty bool) {
	bo, ok := v.(*ssa.BinOp)
	if !ok {
		return false, false
	}
	isReply := func(x ssa.Value) bool {
		f, ok := core.LoadedField(x)
		return ok && f.Name == "Reply" && strings.HasSuffix(f.Struct, "Msg")
	}
	x, y, op := bo.X, bo.Y, bo.Op
	if _, isC := x.(*ssa.Const); isC {
		x, y = y, x
		switch op {
		case token.LSS:
			op = token.GTR
		case token.GTR:
			op = token.LSS
		case token.LEQ:
			op = token.GEQ
		case token.GEQ:
			op = token.LEQ
		}
	}
	if k, isC := core.ConstString(y); isC && k == "" && isReply(x) {
		switch op {
		case token.EQL:
			return true, !truth
		case token.NEQ:
			return true, truth
		}
		return false, false
	}
	lc, isCall := x.(*ssa.Call)
	if !isCall || core.CalleeName(lc) != "builtin:len" || !isReply(lc.Call.Args[0]) {
		return false, false
	}
	k, isC := core.ConstInt(y)
	if !isC {
		return false, false
	}
	// emptyWhenTrue: the comparison is true exactly for length 0 / false exactly for length 0
	switch {
	case k == 0 && op == token.EQL, k == 0 && op == token.LEQ, k == 1 && op == token.LSS:
		return true, !truth
	case k == 0 && op == token.NEQ, k == 0 && op == token.GTR, k == 1 && op == token.GEQ:
		return true, truth
	}
	return false, false
}

// emptinessFact: the bool value v is a test of a string for emptiness - `x ==
// ""`, `x != ""`, `len(x) == 0`, `len(x) < 1`, `len(x) > 0`, `len(x) >= 1` ... -
// of a string accepted by isSubject. nonEmptyWhenTrue says which way it reads.
func emptinessFact(v ssa.Value, isSubject func(ssa.Value) bool) (known, nonEmptyWhenTrue bool) {
	bo, ok := v.(*ssa.BinOp)
	if !ok {
		return false, false
	}
	x, y, op := bo.X, bo.Y, bo.Op
	if _, isC := x.(*ssa.Const); isC {
		x, y = y, x
		switch op {
		case token.LSS:
			op = token.GTR
		case token.GTR:
			op = token.LSS
		case token.LEQ:
			op = token.GEQ
		case token.GEQ:
			op = token.LEQ
		}
	}
	if k, isC := core.ConstString(y); isC && k == "" && isSubject(x) {
		switch op {
		case token.EQL:
			return true, false
		case token.NEQ:
			return true, true
		}
		return false, false
	}
	lc, isCall := x.(*ssa.Call)
	if !isCall || core.CalleeName(lc) != "builtin:len" || !isSubject(lc.Call.Args[0]) {
		return false, false
	}
	k, isC := core.ConstInt(y)
	if !isC {
		return false, false
	}
	switch {
	case k == 0 && op == token.EQL, k == 0 && op == token.LEQ, k == 1 && op == token.LSS:
		return true, false
	case k == 0 && op == token.NEQ, k == 0 && op == token.GTR, k == 1 && op == token.GEQ:
		return true, true
	}
	return false, false
}
