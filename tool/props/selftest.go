package props

import (
	"bufio"
	"encoding/json"
	"fmt"
	"os"
	"os/exec"
	"path/filepath"
	"sort"
	"strings"
	"sync"
)

// SelfTest applies every patch under <verif>/mutants/<prop>/ to a scratch copy
// of the *current* repository tree (outside /repo and /verif, removed at
// once), re-runs the property's analysis on it in a child process, and
// reports whether each mutant was detected (the expected obligation failed)
// and each behaviour-preserving refactor stayed silent. The verdict on /repo
// itself never depends on this battery; an undetected mutant is reported as
// SELFTEST-DEGRADED on stderr and in the evidence.
func SelfTest(prop, repo, verif string) map[string]interface{} {
	dir := filepath.Join(verif, "mutants", prop)
	ents, _ := os.ReadDir(dir)
	var files []string
	for _, e := range ents {
		if strings.HasSuffix(e.Name(), ".patch") {
			files = append(files, filepath.Join(dir, e.Name()))
		}
	}
	// patches that apply to every property (large behaviour-preserving refactorings)
	if ents2, err := os.ReadDir(filepath.Join(verif, "mutants", "_all")); err == nil {
		for _, e := range ents2 {
			if strings.HasSuffix(e.Name(), ".patch") {
				files = append(files, filepath.Join(verif, "mutants", "_all", e.Name()))
			}
		}
	}
	sort.Strings(files)
	type res struct {
		Name    string   `json:"name"`
		Kind    string   `json:"kind"`
		Expect  []string `json:"expect,omitempty"`
		Outcome string   `json:"outcome"` // killed | missed | silent | false-alarm | inapplicable | broken
		Failing []string `json:"failing,omitempty"`
	}
	results := make([]res, len(files))
	sem := make(chan struct{}, 12)
	var wg sync.WaitGroup
	self, _ := os.Executable()
	for i, f := range files {
		wg.Add(1)
		go func(i int, f string) {
			defer wg.Done()
			sem <- struct{}{}
			defer func() { <-sem }()
			r := res{Name: filepath.Base(f), Kind: "mutant"}
			fh, err := os.Open(f)
			if err != nil {
				r.Outcome = "broken"
				results[i] = r
				return
			}
			sc := bufio.NewScanner(fh)
			for sc.Scan() {
				l := sc.Text()
				if !strings.HasPrefix(l, "#") {
					break
				}
				l = strings.TrimSpace(strings.TrimPrefix(l, "#"))
				if strings.HasPrefix(l, "kind:") {
					r.Kind = strings.TrimSpace(strings.TrimPrefix(l, "kind:"))
				}
				if strings.HasPrefix(l, "expect:") {
					r.Expect = append(r.Expect, strings.TrimSpace(strings.TrimPrefix(l, "expect:")))
				}
			}
			fh.Close()
			tmp, err := os.MkdirTemp("", "resverif-mut-")
			if err != nil {
				r.Outcome = "broken"
				results[i] = r
				return
			}
			defer os.RemoveAll(tmp)
			tree := filepath.Join(tmp, "repo")
			tv := filepath.Join(tmp, "verif")
			os.MkdirAll(tv, 0o755)
			if b, err := os.ReadFile(filepath.Join(verif, "known_findings.txt")); err == nil {
				os.WriteFile(filepath.Join(tv, "known_findings.txt"), b, 0o644)
			}
			if out, err := exec.Command("rsync", "-a", "--exclude", ".git", repo+"/", tree+"/").CombinedOutput(); err != nil {
				r.Outcome = "broken"
				r.Failing = []string{"copy: " + string(out)}
				results[i] = r
				return
			}
			cmd := exec.Command("patch", "-p1", "-s", "-f", "--no-backup-if-mismatch", "-i", f)
			cmd.Dir = tree
			if _, err := cmd.CombinedOutput(); err != nil {
				r.Outcome = "inapplicable"
				results[i] = r
				return
			}
			c := exec.Command(self, "-property", prop, "-tier", "quick", "-repo", tree, "-verif", tv, "-no-selftest")
			out, _ := c.CombinedOutput()
			var ev struct {
				Coverage struct {
					Failing []struct {
						Key string `json:"key"`
					} `json:"failing"`
				} `json:"coverage"`
			}
			b, err := os.ReadFile(filepath.Join(tv, "evidence", prop+".json"))
			if err != nil || json.Unmarshal(b, &ev) != nil {
				r.Outcome = "broken"
				s := string(out)
				if len(s) > 400 {
					s = s[:400]
				}
				r.Failing = []string{s}
				results[i] = r
				return
			}
			for _, f := range ev.Coverage.Failing {
				r.Failing = append(r.Failing, f.Key)
			}
			if r.Kind == "refactor" {
				if len(r.Failing) == 0 {
					r.Outcome = "silent"
				} else {
					r.Outcome = "false-alarm"
				}
			} else {
				hit := len(r.Failing) > 0 && len(r.Expect) == 0
				for _, e := range r.Expect {
					for _, k := range r.Failing {
						if strings.Contains(k, e) {
							hit = true
						}
					}
				}
				if hit {
					r.Outcome = "killed"
				} else {
					r.Outcome = "missed"
				}
			}
			results[i] = r
		}(i, f)
	}
	wg.Wait()
	sum := map[string]int{}
	for _, r := range results {
		sum[r.Kind+":"+r.Outcome]++
		if r.Outcome == "missed" || r.Outcome == "false-alarm" || r.Outcome == "broken" {
			fmt.Fprintf(os.Stderr, "SELFTEST-DEGRADED property=%s %s %s: %s (failing: %v; expected: %v)\n", prop, r.Kind, r.Name, r.Outcome, r.Failing, r.Expect)
		}
	}
	return map[string]interface{}{"patches": len(files), "summary": sum, "results": results,
		"note": "each patch is applied to a scratch copy of the current /repo tree and analysed in a child process; mutants must flip the named obligation, refactors must stay silent; informational, never changes the verdict on /repo"}
}
