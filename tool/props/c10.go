package props

import (
	"fmt"
	"go/token"
	"go/types"
	"strings"

	"golang.org/x/tools/go/ssa"

	"resverif/core"
)

func init() { register("C10", c10) }

// c10 decides the structural part of "clients of store-backed resources stay
// coherent with a fresh get": the value representation that the change
// handler diffs is built exactly like the one the get handler serves, the
// model diff marks removed keys with the delete action on the not-present
// edge and reports a key only when it is new or unequal, and create / delete
// events are selected on the nil edges of those same representations. The
// edit-script arithmetic of the collection diff is not decided.
func c10(r *core.Run) {
	p := r.P
	rel := "store"
	r.Explanation = "Sibling agreement between the store handler's get path and its change path, plus edge placement in the model diff: (T1) a missing value is replaced by the configured default in the change handler under the same conditions as in the get handler - in particular with and without a transformer -, (T2) both paths pass stored values through Transformer.Transform when a transformer is set, (S1) create is selected on the before==nil edge with the after representation, delete on the after==nil edge, and the resource id comes from IDToRID of the after (else before) representation, (D1) the model diff stores the delete action exactly on the not-present edge of the lookup in the new map and reports a key only on the edge where it is new or Value.Equal is false, and hands that map to ChangeEvent. Decides representation agreement and edge placement; the remove/add edit script of the collection diff (LCS index arithmetic) and Value.Equal itself are not decided."
	r.NotDecided = []string{"that the remove/add events of collectionDiff are a correct edit script with all indexes in range (LCS arithmetic over values)", "Value.Equal on values (C18)", "what a user-supplied Transformer returns"}
	r.Assumptions = []string{"the store reports (id, before, after) with nil meaning absent (C11.C1)", "encoding/json round-trips the served representation"}

	r.Rule("T1", "default symmetry: in the change handler the configured default replaces a nil before/after value both when a transformer is set and when it is not (the get handler serves the default for a missing value in both cases)", 2)
	r.Rule("T2", "transform symmetry: the get handler passes the stored value through Transformer.Transform when a transformer is set, and the change handler does so for the before and for the after value", 3)
	r.Rule("G1", "responses and events leave in store order: the get handler sends its response while its read transaction is still open (the Close is deferred, or no reply follows it); change events are published under the writer's transaction, so an event can then never overtake a response built from an older value", 1)
	r.Rule("S1", "event selection: CreateEvent is invoked only on the before==nil edge with the after representation, DeleteEvent only on the after==nil edge (before non-nil); the resource id is IDToRID of the after, else the before representation", 3)
	r.Rule("B1", "before-values are what get served (shared with C11.K2): the value a badgerstore write transaction caches is dead or refreshed by every mutation; the change handler diffs the reported before-value, so a stale one yields events relative to a state the client no longer holds", 1)
	r.Rule("D2", "a changed value is seen as changed: Value.Equal - the only comparison the model and collection diffs use - compares encoded bytes and reference ids; it never decodes the two sides into interface{} (numbers become float64) nor compares with reflect.DeepEqual", 1)
	c10EqualityOnBytes(r, "D2")
	r.Rule("V1", "references in served values stay decodable (shared with C17.G2): IsValidRID - the test the store's value parser applies to every reference when the change handler diffs before and after - accepts exactly 33..126 with '?' singled out; a narrower class (\"~\" rejected) makes the diff of any value holding such a reference fail, and the change is served by get but never announced", 1)
	c17CharClass(r, "V1", map[string]bool{"IsValidRID": true})
	r.Rule("B2", "a get and a write of one resource exclude each other (shared idea with C11.K1): where a store locks per key, Read and Write - and the two Close methods - hand the lock the same thing, the transaction's id: a read lock on the prefixed database key beside a write lock on the bare id excludes nothing, a get then overlaps the write of the same resource and its response and the change events cross", 2)
	c10SameLockKey(r, "B2")
	r.Rule("D3", "a diff is computed in memory of its own: the change handler and everything it calls in the package store into no member of the handler object and append to no slice kept there - one handler serves every resource of its pattern, and stores that lock per id (badgerstore) run the change callback of different resources at the same time: a scratch buffer on the handler is overwritten by the other diff and the events sent describe another collection", 1)
	r.Rule("D1", "model diff: the delete action is stored exactly on the not-present edge of the lookup in the new map, a key is reported only where it is new or Value.Equal is false, and the resulting map is what ChangeEvent receives", 3)

	c11CacheCoherence(r, "B1", "store/badgerstore")
	r.Rule("G2", "events only for committed changes (shared with C11.C1): the badgerstore mutations call their change listeners after the transaction returned successfully, never inside the transaction closure; the store handler turns every notification into events, so a notification sent before a commit that then fails (conflict) publishes events for a value that is not stored - and a retried update publishes them twice", 3)
	r.Rule("I1", "seeding announces what it wrote: every change notification Store.Init sends is for an entry whose value it has just written - sent right after the write, or taken from a map that is filled only after the entry's write succeeded; Init skips entries whose key already exists, and a notification for those makes the store handler publish a create (or a diff against the default) for a resource that did not change", 1)
	c10InitAnnouncesWritten(r, "I1", "store/badgerstore")
	c11FanoutAfterCommit(r, "G2", "store/badgerstore")
	r.Rule("P1", "events are addressed to the registered resource (shared with C06.R11): the store handler learns its pattern from OnRegister, which for handlers added before the mux is attached comes from the registration-time traversal of the trie; that traversal must rebind the mount index at mount points like the matcher does, otherwise a handler below a nested mount is told a pattern with its placeholder on the wrong token, IDToRID yields an id no handler matches, and every change event for the resource is dropped", 2)
	if ro := resolveMuxRolesFor(r, "P1"); ro != nil {
		c06MountAware(r, "P1", ro)
	}
	transF, ok1 := fieldByType(p, rel, "storeHandler", func(t types.Type) bool { return core.TypeName(t) == qual(rel, "Transformer") })
	defF, ok2 := fieldByType(p, rel, "storeHandler", func(t types.Type) bool {
		return types.TypeString(t, nil) == "encoding/json.RawMessage" || isEmptyIface(t)
	})
	if !ok1 || !ok2 {
		r.Unres("T1", "storeHandler.<transformer>/<default>", fmt.Sprintf("transformer field resolved=%v default field resolved=%v", ok1, ok2))
		return
	}
	// the two handlers by role
	var get, chg *ssa.Function
	for _, m := range methodsOf(p, rel, "storeHandler") {
		if len(m.Params) == 2 && core.TypeName(m.Params[1].Type()) == "GetRequest" && (get == nil || !p.IsPrivateHelper(m)) {
			get = m
		}
		if len(m.Params) == 4 {
			n := 0
			for _, prm := range m.Params[2:] {
				if isEmptyIface(prm.Type()) {
					n++
				}
			}
			// (a private helper may have the same shape: the handler is the one registered as a
			// callback, i.e. not a plain helper of another method)
			if n == 2 && types.TypeString(m.Params[1].Type(), nil) == "string" && (chg == nil || !p.IsPrivateHelper(m)) {
				chg = m
			}
		}
	}
	if get == nil || chg == nil {
		r.Unres("T1", "storeHandler.<get>/<change>", "cannot resolve the get handler (takes a GetRequest) or the change handler (id, before, after)")
		return
	}
	c10DiffOwnsItsMemory(r, chg)
	// ---- G1 ----------------------------------------------------------------
	// the get response is published while the read transaction is open: the store's change events
	// are published under the writer's transaction, so for one resource responses and events leave
	// in store order; a Close before the reply lets an event overtake a stale response
	{
		unit := p.Helpers(get)
		isReply := func(c ssa.CallInstruction) bool {
			cc := c.Common()
			return cc.IsInvoke() && core.TypeName(cc.Value.Type()) == "GetRequest" && cc.Value == ssa.Value(get.Params[1]) &&
				cc.Method.Type().(*types.Signature).Results().Len() == 0 && cc.Method.Name() != "Timeout"
		}
		nClose := 0
		for _, h := range unit {
			for _, c := range core.Calls(h) {
				cc := c.Common()
				if !cc.IsInvoke() || cc.Method.Name() != "Close" || !strings.HasSuffix(core.TypeName(cc.Value.Type()), "ReadTxn") {
					continue
				}
				nClose++
				if core.IsDefer(c) {
					r.OK("G1", core.FuncName(h), "read-txn-open-until-replied", p.InstrPos(c), "the read transaction is closed by a deferred call: after every reply")
					continue
				}
				late := ""
				for _, h2 := range unit {
					for _, c2 := range core.Calls(h2) {
						if isReply(c2) && p.ReachesIn(get, c, c2) {
							late = cc.Method.Name() + " then " + c2.Common().Method.Name() + " at " + p.InstrPos(c2)
						}
					}
				}
				r.Check(late == "", "G1", core.FuncName(h), "read-txn-open-until-replied", p.InstrPos(c), "no reply follows the close of the read transaction", "the read transaction is closed before the response is sent ("+late+"): a writer can commit and publish its event in between, the event overtakes the stale response and the client keeps the old value for good")
			}
		}
		if nClose == 0 {
			r.Bad("G1", core.FuncName(get), "read-txn-open-until-replied", p.Pos(get.Pos()), "the get handler never closes its read transaction")
		}
	}
	isTransCond := func(e edgeCond) (string, bool) {
		ci := core.Cond(e.If.Cond)
		if ci.Kind != "nilcmp" || !ci.HasFld || ci.Field != transF {
			return "", false
		}
		truth := e.Succ == 0
		if ci.Negate {
			truth = !truth
		}
		if (ci.Op == token.NEQ) == truth {
			return "transformer-set", true
		}
		return "no-transformer", true
	}
	isDefLoad := func(v ssa.Value) bool {
		f, ok := core.LoadedField(core.Strip(v))
		return ok && f == defF
	}
	// ... and the other half: the change handler publishes its events itself, while the store's
	// OnChange callback runs (i.e. under the writer's transaction): it does not hand them to the
	// service's queue (With / WithResource / WithGroup) or to a goroutine, where they would be
	// published after the transaction closed - a get in between already answers with the new value
	// and the client then applies the events on top of it
	{
		deferred := ""
		for _, h := range p.Helpers(chg) {
			for _, f2 := range withAnon(h) {
				for _, c := range core.Calls(f2) {
					if core.IsGo(c) {
						deferred = "go statement at " + p.InstrPos(c)
					}
					if cal := c.Common().StaticCallee(); cal != nil && cal.Signature.Recv() != nil && core.TypeName(cal.Signature.Recv().Type()) == "Service" {
						switch cal.Name() {
						case "With", "WithResource", "WithGroup":
							deferred = cal.Name() + " at " + p.InstrPos(c)
						}
					}
				}
			}
		}
		r.Check(deferred == "", "G1", core.FuncName(chg), "events-published-inside-the-change-callback", p.Pos(chg.Pos()), "the change handler sends its events synchronously", "the change handler defers its events ("+deferred+"): they are published after the writer's transaction was closed, so a get that reads the new value can be answered before the events of that very change arrive - the client applies them on top of the new value (duplicated or wrong collection entries)")
	}

	// ---- S1: find the selection tests -----------------------------------
	var createCall, deleteCall ssa.CallInstruction
	for _, c := range helperCalls(p, chg) { // the selection may sit in a helper handed both sides
		if c.Common().IsInvoke() {
			switch c.Common().Method.Name() {
			case "CreateEvent":
				createCall = c
			case "DeleteEvent":
				deleteCall = c
			}
		}
	}
	if createCall == nil || deleteCall == nil {
		r.Bad("S1", core.FuncName(chg), "has-create-and-delete", p.Pos(chg.Pos()), "the change handler does not invoke CreateEvent and DeleteEvent")
		return
	}
	nilEdgeVal := func(c ssa.Instruction, wantNil bool) []ssa.Value {
		var out []ssa.Value
		for _, ed := range dominatingEdges(c) {
			ci := core.Cond(ed.If.Cond)
			if ci.Kind != "nilcmp" || !isEmptyIface(ci.X.Type()) {
				continue
			}
			truth := ed.Succ == 0
			if ci.Negate {
				truth = !truth
			}
			if ((ci.Op == token.EQL) == truth) == wantNil {
				out = append(out, ci.X)
			}
		}
		return out
	}
	// derivesFrom: v is (a phi / transform result / default substitution of) parameter prm
	var derivesFrom func(v ssa.Value, prm *ssa.Parameter, d int) bool
	derivesFrom = func(v ssa.Value, prm *ssa.Parameter, d int) bool {
		if d > 8 || v == nil {
			return false
		}
		switch x := v.(type) {
		case *ssa.Parameter:
			if x == prm {
				return true
			}
			for _, a := range paramArgs(p, x, 0) {
				if a != v && derivesFrom(a, prm, d+1) {
					return true
				}
			}
			return false
		case *ssa.Phi:
			for _, e := range x.Edges {
				if e != v && derivesFrom(e, prm, d+1) {
					return true
				}
			}
		case *ssa.Extract:
			if c, ok := x.Tuple.(*ssa.Call); ok && c.Common().IsInvoke() && c.Common().Method.Name() == "Transform" {
				for _, a := range c.Common().Args {
					if derivesFrom(a, prm, d+1) {
						return true
					}
				}
			}
		case *ssa.Call:
			// a module helper that builds the representation from its argument
			if cal := x.Common().StaticCallee(); cal != nil && len(cal.Blocks) > 0 && cal.Pkg == chg.Pkg {
				for _, a := range x.Common().Args {
					if derivesFrom(a, prm, d+1) {
						return true
					}
				}
			}
		}
		return false
	}
	before, after := chg.Params[2], chg.Params[3]
	var vBefore, vAfter ssa.Value
	for _, v := range nilEdgeVal(createCall, true) {
		if derivesFrom(v, before, 0) {
			vBefore = v
		}
	}
	for _, v := range nilEdgeVal(deleteCall, true) {
		if derivesFrom(v, after, 0) {
			vAfter = v
		}
	}
	argOK := len(createCall.Common().Args) == 1 && derivesFrom(createCall.Common().Args[0], after, 0)
	r.Check(vBefore != nil && argOK, "S1", core.FuncName(chg), "create-on-before==nil-with-after", p.InstrPos(createCall), "CreateEvent(after representation) only when the before representation is nil", "CreateEvent is not selected on the before==nil edge with the after representation")
	delBeforeNonNil := false
	for _, v := range nilEdgeVal(deleteCall, false) {
		if derivesFrom(v, before, 0) {
			delBeforeNonNil = true
		}
	}
	r.Check(vAfter != nil && delBeforeNonNil, "S1", core.FuncName(chg), "delete-on-after==nil-and-before!=nil", p.InstrPos(deleteCall), "DeleteEvent only when the after representation is nil and the before one is not", "DeleteEvent is not selected on the after==nil (before non-nil) edge")
	// rid: IDToRID of after, else before
	ridOK := 0
	for _, c := range helperCalls(p, chg) {
		if c.Common().IsInvoke() && c.Common().Method.Name() == "IDToRID" && len(c.Common().Args) >= 2 {
			v := c.Common().Args[1]
			nonNil := false
			for _, x := range nilEdgeVal(c, false) {
				if x == v {
					nonNil = true
				}
			}
			if nonNil && (derivesFrom(v, after, 0) || derivesFrom(v, before, 0)) {
				ridOK++
			}
		}
	}
	r.Check(ridOK >= 2, "S1", core.FuncName(chg), "rid<-IDToRID(after-else-before)", p.Pos(chg.Pos()), "the resource id is computed from the non-nil after, else before, representation", "the resource id is not computed from the after (else before) representation on their non-nil edges")

	// ---- T1 ----------------------------------------------------------------
	defPolarities := func(v ssa.Value) map[string]bool {
		out := map[string]bool{}
		record := func(edges []edgeCond) {
			pol := "any"
			for _, ed := range edges {
				if s, ok := isTransCond(ed); ok {
					pol = s
				}
			}
			out[pol] = true
		}
		var walk func(v ssa.Value, use ssa.Instruction, ctx []edgeCond, d int)
		walk = func(v ssa.Value, use ssa.Instruction, ctx []edgeCond, d int) {
			// (no global visited set: a helper reached in two contexts contributes once per context)
			if d > 6 {
				return
			}
			for _, src := range phiSources(v) {
				edges := append([]edgeCond{}, ctx...)
				if src.Pred != nil {
					edges = append(edges, srcEdges(nil, src)...)
				} else if use != nil {
					edges = append(edges, dominatingEdges(use)...)
				}
				if isDefLoad(src.V) {
					record(edges)
					continue
				}
				// the representation may be built by a private helper (value -> served form): its
				// returns are sources too, under the conditions that hold inside the helper
				if c, ok := core.Strip(src.V).(*ssa.Call); ok {
					cal := c.Common().StaticCallee()
					if cal != nil && len(cal.Blocks) > 0 && cal.Pkg == chg.Pkg && cal.Signature.Results().Len() == 1 {
						for _, ret := range core.Returns(cal) {
							walk(ret.Results[0], ret, edges, d+1)
						}
						continue
					}
				}
				for _, lf := range valueLeaves(src.V, nil, 0) {
					if lf.V != src.V && isDefLoad(lf.V) {
						record(edges)
					}
				}
			}
		}
		walk(v, nil, nil, 0)
		return out
	}
	// does the get handler serve the default at all?
	getDefault := false
	for _, h := range p.Helpers(get) {
		for _, b := range h.Blocks {
			for _, in := range b.Instrs {
				if u, ok := in.(*ssa.UnOp); ok && isDefLoad(u) {
					getDefault = true
				}
			}
		}
	}
	for _, x := range []struct {
		name string
		v    ssa.Value
	}{{"before", vBefore}, {"after", vAfter}} {
		if x.v == nil {
			r.Bad("T1", core.FuncName(chg), "default-for-missing-"+x.name, p.Pos(chg.Pos()), "cannot find the "+x.name+" representation tested for nil")
			continue
		}
		// the nil test may sit in a selection helper: the tested value is then the helper's parameter,
		// standing for what the change handler hands in
		xv := x.v
		if prm, isP := xv.(*ssa.Parameter); isP && prm.Parent() != chg {
			if as := paramArgs(p, prm, 0); len(as) == 1 {
				xv = as[0]
			}
		}
		pol := defPolarities(xv)
		good := pol["any"] || (pol["transformer-set"] && pol["no-transformer"])
		if !getDefault && len(pol) == 0 {
			r.OKTrivial("T1", core.FuncName(chg), "default-for-missing-"+x.name, p.Pos(chg.Pos()), "neither handler uses a default")
			continue
		}
		r.Check(good, "T1", core.FuncName(chg), "default-for-missing-"+x.name+":with-and-without-transformer", posOfV(p, xv, chg),
			"a nil "+x.name+" value is replaced by the default whether or not a transformer is set, as in the get handler", fmt.Sprintf("the default replaces a nil %s value only under %v, while the get handler serves the default for a missing value in every configuration: a client that fetched the default is sent create/delete (which the gateway does not apply to a cached resource) instead of the change to/from the default", x.name, core.SortedKeys(pol)))
	}

	// ---- T2 ----------------------------------------------------------------
	hasTransform := func(fn *ssa.Function, prm *ssa.Parameter) (bool, ssa.Instruction) {
		for _, c := range helperCalls(p, fn) {
			if !c.Common().IsInvoke() || c.Common().Method.Name() != "Transform" {
				continue
			}
			underSet := false
			for _, ed := range ctxEdges(p, c, fn, 0) {
				if s, ok := isTransCond(ed); ok && s == "transformer-set" {
					underSet = true
				}
			}
			if !underSet {
				continue
			}
			if prm == nil {
				return true, c
			}
			for _, a := range c.Common().Args {
				if derivesFrom(a, prm, 0) {
					return true, c
				}
			}
		}
		return false, nil
	}
	ok, at := hasTransform(get, nil)
	r.Check(ok, "T2", core.FuncName(get), "get-transforms-stored-value", posOf(p, at), "the served value is Transform(id, stored value) when a transformer is set", "the get handler does not transform the stored value")
	ok, at = hasTransform(chg, before)
	r.Check(ok, "T2", core.FuncName(chg), "change-transforms-before", posOf(p, at), "the before value is transformed like the served value", "the change handler diffs the untransformed before value against what get serves")
	ok, at = hasTransform(chg, after)
	r.Check(ok, "T2", core.FuncName(chg), "change-transforms-after", posOf(p, at), "the after value is transformed like the served value", "the change handler diffs the untransformed after value against what get serves")

	// a value the transformer refuses is a value get reports as missing: the change handler goes on
	// with that side missing (so hiding announces delete, unhiding announces create); it does not
	// give up on the change
	{
		n := 0
		for _, c := range helperCalls(p, chg) {
			if !c.Common().IsInvoke() || c.Common().Method.Name() != "Transform" || c.Value() == nil || c.Value().Referrers() == nil {
				continue
			}
			for _, rf := range *c.Value().Referrers() {
				ex, ok := rf.(*ssa.Extract)
				if !ok || types.TypeString(ex.Type(), nil) != "error" || ex.Referrers() == nil {
					continue
				}
				for _, r2 := range *ex.Referrers() {
					bo, ok := r2.(*ssa.BinOp)
					if !ok || bo.Referrers() == nil {
						continue
					}
					for _, r3 := range *bo.Referrers() {
						iff, ok := r3.(*ssa.If)
						if !ok {
							continue
						}
						ci := core.Cond(iff.Cond)
						if ci.Kind != "nilcmp" {
							continue
						}
						errSucc := 0
						if (ci.Op == token.EQL) != ci.Negate {
							errSucc = 1
						}
						n++
						fn := iff.Parent()
						if fn != chg && fn.Signature.Results().Len() > 0 {
							// a helper that hands the transformed side back (nil when the transformer refused it):
							// returning is how it reports the side; it cannot end the change handler
							nilOnErr := true
							for _, ret := range core.Returns(fn) {
								onErr := false
								for _, ed := range dominatingEdges(ret) {
									if ed.If == iff && ed.Succ == errSucc {
										onErr = true
									}
								}
								if !onErr {
									continue
								}
								for _, rv := range ret.Results {
									if _, isIface := rv.Type().Underlying().(*types.Interface); isIface && types.TypeString(rv.Type(), nil) != "error" {
										if c, isC := rv.(*ssa.Const); !isC || !c.IsNil() {
											nilOnErr = false
										}
									}
								}
							}
							r.Check(nilOnErr, "T2", core.FuncName(fn), fmt.Sprintf("transform-error-makes-the-side-missing#%d", n), p.InstrPos(iff), "the transform helper returns a missing (nil) side on the error edge; the change handler classifies the change", "the transform helper returns something else than a missing side when the transformer refuses the value")
							continue
						}
						bad := ""
						for _, ret := range core.Returns(fn) {
							onErr := false
							for _, ed := range dominatingEdges(ret) {
								if ed.If == iff && ed.Succ == errSucc {
									onErr = true
								}
							}
							if !onErr {
								continue
							}
							announced := false
							for _, ec := range core.Calls(fn) {
								if ec.Common().IsInvoke() && strings.HasSuffix(ec.Common().Method.Name(), "Event") && core.Dominates(ec, ret) {
									for _, ed := range dominatingEdges(ec) {
										if ed.If == iff && ed.Succ == errSucc {
											announced = true
										}
									}
								}
							}
							if !announced {
								bad = p.InstrPos(ret)
							}
						}
						r.Check(bad == "", "T2", core.FuncName(fn), fmt.Sprintf("transform-error-makes-the-side-missing#%d", n), p.InstrPos(iff), "on a transform error the handler goes on with that side missing", "on a transform error the change handler returns (at "+bad+") without announcing anything: a value that the transformer starts (or stops) refusing is reported missing (or present) by get, but no delete (create) event is sent")
					}
				}
			}
		}
	}

	// the default is served as it is: it must never be fed to Transform (get serves it untransformed)
	{
		var derivesFromDef func(v ssa.Value, d int) bool
		derivesFromDef = func(v ssa.Value, d int) bool {
			if d > 8 || v == nil {
				return false
			}
			if isDefLoad(v) {
				return true
			}
			if phi, ok := core.Strip(v).(*ssa.Phi); ok {
				for _, e := range phi.Edges {
					if e != v && derivesFromDef(e, d+1) {
						return true
					}
				}
			}
			return false
		}
		for _, fn := range []*ssa.Function{get, chg} {
			for _, c := range helperCalls(p, fn) {
				if !c.Common().IsInvoke() || c.Common().Method.Name() != "Transform" {
					continue
				}
				bad := false
				for _, a0 := range c.Common().Args {
					for _, a := range paramArgs(p, a0, 0) {
						if derivesFromDef(a, 0) {
							bad = true
						}
						if _, isPhi := a.(*ssa.Phi); !isPhi {
							for _, lf := range valueLeaves(a, nil, 0) {
								if isDefLoad(lf.V) {
									bad = true
								}
							}
						}
					}
				}
				r.Check(!bad, "T2", core.FuncName(fn), "default-is-not-transformed", p.InstrPos(c), "only stored values are transformed; the default is served and diffed as configured", "the configured default can be passed through Transformer.Transform here, while the get handler serves it untransformed: the change is computed against Transform(default) - or, when the transformer rejects it, the value is treated as missing and a create / delete is sent for a resource the client holds")
			}
		}
	}

	// ---- D1 ----------------------------------------------------------------
	md := p.Func(rel + ".modelDiff")
	if md == nil {
		// role: the function that invokes ChangeEvent
		for _, fn := range p.FuncsOfPkg(rel) {
			for _, c := range core.Calls(fn) {
				if c.Common().IsInvoke() && c.Common().Method.Name() == "ChangeEvent" && fn.Parent() == nil {
					md = fn
				}
			}
		}
	}
	if md == nil {
		r.Unres("D1", "modelDiff", "no function invokes ChangeEvent")
		return
	}
	var chMap ssa.Value
	var chCall ssa.CallInstruction
	for _, c := range core.Calls(md) {
		if c.Common().IsInvoke() && c.Common().Method.Name() == "ChangeEvent" {
			chCall = c
			chMap = c.Common().Args[0]
		}
	}
	// the map may be built by a private helper: take the helper's map and analyse the helper
	if chMap != nil {
		if _, isMk := chMap.(*ssa.MakeMap); !isMk {
			for _, lf := range valueLeaves(chMap, nil, 0) {
				if mk, ok := lf.V.(*ssa.MakeMap); ok {
					chMap = mk
					md = mk.Parent()
				}
			}
		}
	}
	nDel, nSet := 0, 0
	delOK, setOK := true, true
	why := ""
	heads := rangeLoopHead(md)
	for _, b := range md.Blocks {
		for _, in := range b.Instrs {
			mu, ok := in.(*ssa.MapUpdate)
			if !ok || mu.Map != chMap {
				continue
			}
			if g, isG := loadedGlobal(core.Strip(mu.Value)); isG && g == "DeleteValue" {
				nDel++
				np := false
				for _, ed := range dominatingEdges(mu) {
					cnd, succ := ed.Norm()
					if ex, ok := cnd.(*ssa.Extract); ok && ex.Index == 1 && succ == 1 {
						if _, isLk := ex.Tuple.(*ssa.Lookup); isLk {
							np = true
						}
					}
				}
				if !np {
					delOK = false
					why = "the delete action is stored outside the not-present edge of the lookup in the new map"
				}
				// whether keys were removed cannot be decided from the size of the new map: an edge testing
				// len(<new map>) above the scan skips removed keys whenever as many keys were added
				for _, ed := range dominatingEdges(mu) {
					cnd, _ := ed.Norm()
					bo, ok := cnd.(*ssa.BinOp)
					if !ok {
						continue
					}
					for _, side := range []ssa.Value{bo.X, bo.Y} {
						if lc, ok := side.(*ssa.Call); ok && core.CalleeName(lc) == "builtin:len" {
							for _, ed2 := range dominatingEdges(mu) {
								c2, _ := ed2.Norm()
								if ex, ok := c2.(*ssa.Extract); ok {
									if lk, ok := ex.Tuple.(*ssa.Lookup); ok && sameRoot(lk.X, lc.Call.Args[0]) {
										delOK = false
										why = "the scan for removed keys only runs under a test of the new map's size (" + describeCond(ed) + "): a write that removes keys and adds at least as many reports no delete action"
									}
								}
							}
						}
					}
				}
				continue
			}
			nSet++
			// not reachable from the Equal==true edge within the iteration
			for _, c := range core.Calls(md) {
				cal := c.Common().StaticCallee()
				if cal == nil || cal.Name() != "Equal" || c.Value() == nil || c.Value().Referrers() == nil {
					continue
				}
				for _, rf := range *c.Value().Referrers() {
					iff, ok := rf.(*ssa.If)
					neg := false
					if !ok {
						if u, isU := rf.(*ssa.UnOp); isU && u.Op == token.NOT && u.Referrers() != nil {
							for _, r2 := range *u.Referrers() {
								if i2, ok2 := r2.(*ssa.If); ok2 {
									iff, ok, neg = i2, true, true
								}
							}
						}
					}
					if !ok {
						continue
					}
					eqSucc := 0
					if neg {
						eqSucc = 1
					}
					if reachAvoiding(iff.Block().Succs[eqSucc], mu.Block(), func(*ssa.BasicBlock) bool { return false }, heads) {
						setOK = false
						why = "a key whose old and new values are Equal is still reported"
					}
				}
			}
		}
	}
	r.Check(nDel >= 1 && delOK, "D1", core.FuncName(md), "delete-action-on-not-present-edge", p.Pos(md.Pos()), "keys missing from the new map get the delete action", "removed keys are not (only) marked with the delete action on the not-present edge: "+why)
	r.Check(nSet >= 1 && setOK, "D1", core.FuncName(md), "reports-only-new-or-unequal-keys", p.Pos(md.Pos()), "a key is reported only where it is new or Value.Equal is false", "the model diff reports unchanged keys or none: "+why)
	_, isMk := chMap.(*ssa.MakeMap)
	r.Check(chCall != nil && isMk && !strings.Contains(core.FuncName(md), "$"), "D1", core.FuncName(md), "ChangeEvent(diff-map)", posOf(p, chCall), "the freshly built diff map is what ChangeEvent receives (ChangeEvent itself drops an empty map: C08.O3)", "ChangeEvent does not receive the diff map built here")
}

// isEmptyIface: interface{} or its alias any.
func isEmptyIface(t types.Type) bool {
	i, ok := types.Unalias(t).(*types.Interface)
	return ok && i.Empty()
}

// c10EqualityOnBytes: whether a value changed is decided on its encoded bytes
// (and reference ids). A comparison that first decodes both sides into
// interface{} compares every JSON number as a float64: two different integers
// beyond 2^53 (64-bit ids, nanosecond timestamps) are then "equal", no event is
// published, and the client keeps the old number while get serves the new one.
func c10EqualityOnBytes(r *core.Run, rule string) {
	p := r.P
	eq := methodNamed(p, "store", "Value", "Equal")
	if eq == nil {
		r.Unres(rule, "store.Value.Equal", "missing")
		return
	}
	hasEmptyIface := func(t types.Type) bool {
		var walk func(t types.Type, d int) bool
		walk = func(t types.Type, d int) bool {
			if d > 4 {
				return false
			}
			switch x := types.Unalias(t).Underlying().(type) {
			case *types.Interface:
				return x.NumMethods() == 0
			case *types.Pointer:
				return walk(x.Elem(), d+1)
			case *types.Slice:
				return walk(x.Elem(), d+1)
			case *types.Map:
				return walk(x.Elem(), d+1)
			}
			return false
		}
		return walk(t, 0)
	}
	bad := ""
	n := 0
	for _, h := range p.Helpers(eq) {
		for _, c := range core.Calls(h) {
			n++
			switch core.CalleeName(c) {
			case "encoding/json.Unmarshal":
				dst := c.Common().Args[1]
				if mi, ok := dst.(*ssa.MakeInterface); ok {
					dst = mi.X
				}
				if hasEmptyIface(dst.Type()) {
					bad = "json.Unmarshal into " + types.TypeString(dst.Type(), nil) + " at " + p.InstrPos(c)
				}
			case "reflect.DeepEqual":
				bad = "reflect.DeepEqual at " + p.InstrPos(c)
			}
		}
	}
	r.Check(bad == "", rule, core.FuncName(eq), "values-compared-on-their-encoded-bytes", p.Pos(eq.Pos()), fmt.Sprintf("%d calls in Equal's unit: no decoding into interface{}, no deep comparison", n), "Value.Equal compares decoded values ("+bad+"): JSON numbers are compared as float64, so a change between two integers that round to the same float64 is not seen as a change - no event is published and the client keeps the old value")
}

// c10DiffOwnsItsMemory is C10.D3.
func c10DiffOwnsItsMemory(r *core.Run, chg *ssa.Function) {
	p := r.P
	bad := ""
	n := 0
	for _, h := range p.Scope(chg) {
		for _, b := range h.Blocks {
			for _, in := range b.Instrs {
				n++
				switch x := in.(type) {
				case *ssa.Store:
					if f, ok := core.FieldOf(x.Addr); ok && strings.HasSuffix(f.Struct, "storeHandler") {
						bad = "store to " + f.String() + " at " + p.InstrPos(x)
					}
				case *ssa.Call:
					if core.CalleeName(x) == "builtin:append" {
						v := core.Strip(x.Call.Args[0])
						if sl, isSl := v.(*ssa.Slice); isSl {
							v = core.Strip(sl.X)
						}
						if f, ok := core.LoadedField(v); ok && strings.HasSuffix(f.Struct, "storeHandler") {
							bad = "append onto " + f.String() + " at " + p.InstrPos(x)
						}
					}
				case *ssa.Slice:
					if f, ok := core.LoadedField(core.Strip(x.X)); ok && strings.HasSuffix(f.Struct, "storeHandler") {
						if _, isSlT := x.X.Type().Underlying().(*types.Slice); isSlT {
							bad = "re-slice of " + f.String() + " at " + p.InstrPos(x)
						}
					}
				}
			}
		}
	}
	r.Check(bad == "", "D3", core.FuncName(chg), "change-handler-writes-no-member-of-the-handler", p.Pos(chg.Pos()), fmt.Sprintf("%d instructions of the change handler's unit scanned: no store to, append onto or re-slice of a member of the handler", n), "the change handler keeps working memory in the handler object ("+bad+"): the handler is shared by every resource of its pattern, and two changes on different resources can be diffed at the same time - one diff's pending events are overwritten by the other's")
}

// posOfV: the position of a value (its instruction, or the function for a parameter).
func posOfV(p *core.Prog, v ssa.Value, fn *ssa.Function) string {
	if in, ok := v.(ssa.Instruction); ok {
		return p.InstrPos(in)
	}
	return p.Pos(fn.Pos())
}

// c10SameLockKey is C10.B2.
func c10SameLockKey(r *core.Run, rule string) {
	p := r.P
	n := 0
	for _, rel := range storePkgs {
		short := rel[strings.LastIndex(rel, "/")+1:]
		for _, spec := range []struct{ typ, name string }{{"Store", "Read"}, {"Store", "Write"}, {"readTxn", "Close"}, {"writeTxn", "Close"}} {
			m := methodNamed(p, rel, spec.typ, spec.name)
			if m == nil {
				continue
			}
			idF, okID := accessorField(p, rel, "readTxn", "ID")
			for _, h := range p.Helpers(m) {
				for _, c := range core.Calls(h) {
					if isLockCall(c) == "" {
						continue
					}
					args := c.Common().Args
					if c.Common().StaticCallee() != nil && c.Common().StaticCallee().Signature.Recv() != nil && len(args) > 0 {
						args = args[1:]
					}
					if len(args) == 0 {
						continue // one lock for the whole store
					}
					n++
					good := false
					for _, av := range paramArgs(p, args[0], 0) {
						v := core.Strip(av)
						if prm, ok := v.(*ssa.Parameter); ok && isStringType(prm.Type()) && prm.Parent() == m {
							good = true
						}
						if f, ok := core.LoadedField(v); ok && okID && f == idF {
							good = true
						}
					}
					r.Check(good, rule, core.FuncName(h), "lock-key-is-the-transaction-id:"+isLockCall(c), p.InstrPos(c), "the lock is taken / released on the transaction's id", short+"."+spec.typ+"."+spec.name+" hands the key lock "+valDesc(args[0])+" instead of the transaction's id: readers and writers of one resource then lock different keys and do not exclude each other")
				}
			}
		}
	}
	if n == 0 {
		r.Unres(rule, "store-lock-calls", "no keyed lock call found in Read / Write / Close of the shipped stores")
	}
}
