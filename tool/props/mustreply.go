package props

import (
	"go/token"
	"go/types"

	"golang.org/x/tools/go/ssa"

	"resverif/core"
)

// Must-reply typestate: abstract value of the request's "replied" flag.
const (
	stNo  = 0
	stYes = 1
)

// replyModel is the flag-sensitive must-reply analysis for one request type.
type replyModel struct {
	p     *core.Prog
	rel   string
	tname string
	flag  core.Field
	// summaries over declared methods of *T and helper functions taking *T
	may  map[*ssa.Function]bool
	must map[*ssa.Function]bool
	// extraMust are callees on other types that count as "replied" for T
	// (e.g. the dispatcher when analysing processRequest).
	extraMust map[*ssa.Function]bool
	// root is the function whose flow is being computed (set by flow()).
	root *ssa.Function
	// exemptRet, when set, names the documented reason for which a return of an
	// inlined private helper may leave the request unanswered (state No); the
	// state then continues as if replied and the reason is recorded in Exempted.
	exemptRet func(*ssa.Return) string
	Exempted  map[*ssa.Return]string
	// exemptEdge is the same for a dispatcher written with a single exit: the
	// documented reason is then attached to a branch edge (the handler-is-nil
	// edge) instead of to a return.
	exemptEdge    func(edgeCond) string
	ExemptedEdges map[edgeCond]string
}

// The flow states are base | tag<<1: base is the replied flag (stNo/stYes),
// tag remembers the constant bool a just-inlined private helper returned
// (1 = true, 2 = false) until the caller branches on the call's value.
const (
	tagNone  = 0
	tagTrue  = 1
	tagFalse = 2
)

// inlineable: private helpers and local closures of the root package are
// analysed in the context of their callers instead of through may/must summaries.
func (m *replyModel) inlineable(cal *ssa.Function) bool {
	if cal == nil || len(cal.Blocks) == 0 || cal.Pkg == nil || (m.root != nil && cal.Pkg != m.root.Pkg) {
		return false
	}
	if cal.Parent() != nil {
		return true
	}
	return m.p.IsPrivateHelper(cal)
}

func isPtrTo(t types.Type, name string) bool {
	pt, ok := t.Underlying().(*types.Pointer)
	if !ok {
		return false
	}
	return core.TypeName(pt.Elem()) == name
}

// takesT reports whether the call passes a value of type *T (possibly wrapped
// in an interface) as receiver or argument.
func (m *replyModel) takesT(c ssa.CallInstruction) bool {
	name := qual(m.rel, m.tname)
	for _, a := range c.Common().Args {
		if isPtrTo(core.Strip(a).Type(), name) {
			return true
		}
	}
	if c.Common().IsInvoke() && isPtrTo(core.Strip(c.Common().Value).Type(), name) {
		return true
	}
	return false
}

// unitArgs: for a parameter of a helper that the flow analyses in place, the
// argument values at the helper's call sites that lie in the unit of the
// function being analysed (the helper may be shared with other request types,
// whose call sites do not count here).
func (m *replyModel) unitArgs(prm *ssa.Parameter) []ssa.Value {
	if m.root == nil || prm.Parent() == m.root {
		return nil
	}
	idx := -1
	for i, q := range prm.Parent().Params {
		if q == prm {
			idx = i
		}
	}
	unit := map[*ssa.Function]bool{}
	for _, f := range m.p.Scope(m.root) {
		unit[f] = true
	}
	for _, f := range m.p.Helpers(m.root) {
		unit[f] = true
	}
	var out []ssa.Value
	for _, cs := range m.p.CallersOf(prm.Parent()) {
		if idx >= 0 && idx < len(cs.Common().Args) && (unit[cs.Parent()] || unit[core.Outermost(cs.Parent())]) {
			out = append(out, cs.Common().Args[idx])
		}
	}
	return out
}

// flagThroughPointer: v loads the replied flag through a *bool parameter of a
// shared helper to which every call site of the unit passes the address of the
// flag field.
func (m *replyModel) flagThroughPointer(v ssa.Value) bool {
	u, ok := v.(*ssa.UnOp)
	if !ok || u.Op != token.MUL {
		return false
	}
	prm, ok := u.X.(*ssa.Parameter)
	if !ok {
		return false
	}
	args := m.unitArgs(prm)
	if len(args) == 0 {
		return false
	}
	for _, a := range args {
		f, ok := core.FieldOf(a)
		if !ok || f != m.flag {
			return false
		}
	}
	return true
}

// boundCallees: the methods a function-typed parameter of a shared helper
// stands for at the unit's call sites (method values / plain functions); nil
// if some call site passes anything else.
func (m *replyModel) boundCallees(v ssa.Value) []*ssa.Function {
	prm, ok := v.(*ssa.Parameter)
	if !ok {
		return nil
	}
	if _, isSig := prm.Type().Underlying().(*types.Signature); !isSig {
		return nil
	}
	args := m.unitArgs(prm)
	if len(args) == 0 {
		return nil
	}
	var out []*ssa.Function
	for _, a := range args {
		switch x := a.(type) {
		case *ssa.MakeClosure:
			f, _ := x.Fn.(*ssa.Function)
			if bm := boundMethod(f); bm != nil {
				out = append(out, bm)
			} else if f != nil {
				out = append(out, f)
			} else {
				return nil
			}
		case *ssa.Function:
			out = append(out, x)
		default:
			return nil
		}
	}
	return out
}

func (m *replyModel) transfer(in ssa.Instruction, s0 int) core.StateSet {
	base, tag := s0&1, s0>>1
	res := m.baseTransfer(in, base)
	newTag := tagNone
	switch x := in.(type) {
	case *ssa.If, *ssa.UnOp, *ssa.DebugRef, *ssa.Phi, *ssa.BinOp, *ssa.Jump:
		newTag = tag // transparent between the helper's return and the caller's branch on it
	case *ssa.Return:
		if m.root != nil && x.Parent() != m.root {
			if base == stNo && m.exemptRet != nil {
				if why := m.exemptRet(x); why != "" {
					res = core.StateSet(0).Add(stYes)
					if m.Exempted != nil {
						m.Exempted[x] = why
					}
				}
			}
			if len(x.Results) == 1 {
				if isConstBool(x.Results[0], true) {
					newTag = tagTrue
				} else if isConstBool(x.Results[0], false) {
					newTag = tagFalse
				}
			}
		}
	}
	var out core.StateSet
	for _, b := range res.List() {
		out = out.Add(b | newTag<<1)
	}
	return out
}

func (m *replyModel) baseTransfer(in ssa.Instruction, s int) core.StateSet {
	var one core.StateSet
	one = one.Add(s)
	switch in := in.(type) {
	case *ssa.Store:
		if f, ok := core.FieldOf(in.Addr); ok && f == m.flag {
			if isConstBool(in.Val, true) {
				return core.StateSet(0).Add(stYes)
			}
			if isConstBool(in.Val, false) {
				return core.StateSet(0).Add(stNo)
			}
			return core.StateSet(0).Add(stNo).Add(stYes)
		}
	case *ssa.Call:
		cc := in.Common()
		if callee := cc.StaticCallee(); callee != nil {
			if m.extraMust[callee] {
				return core.StateSet(0).Add(stYes)
			}
			if m.inlineable(callee) && callee != m.root {
				return one // its body is analysed in place by the flow engine
			}
			if !m.takesT(in) {
				return one
			}
			if m.must[callee] {
				return core.StateSet(0).Add(stYes)
			}
			if m.may[callee] {
				return one.Add(stYes)
			}
			return one
		}
		if _, ok := cc.Value.(*ssa.Builtin); ok {
			return one
		}
		// a function value handed to a shared helper by the unit (e.g. the reply method as the
		// "send this error" callback): judged like a call of the method(s) it stands for
		if cals := m.boundCallees(cc.Value); len(cals) > 0 {
			allMust, anyMay := true, false
			for _, cal := range cals {
				must, may := m.literalMustMay(cal)
				if !must {
					allMust = false
				}
				if may {
					anyMay = true
				}
			}
			switch {
			case allMust:
				return core.StateSet(0).Add(stYes)
			case anyMay:
				return one.Add(stYes)
			}
			return one
		}
		// dynamic call or interface invoke: havoc iff the request is passed
		if m.takesT(in) {
			return one.Add(stYes)
		}
	}
	return one
}

func (m *replyModel) branch(iff *ssa.If, succ int, s0 int) (int, bool) {
	s, tag := s0&1, s0>>1
	// the caller branches on the constant an inlined helper just returned
	if tag != tagNone {
		c, neg := iff.Cond, false
		for {
			u, ok := c.(*ssa.UnOp)
			if !ok || u.Op != token.NOT {
				break
			}
			c, neg = u.X, !neg
		}
		if call, ok := c.(*ssa.Call); ok && m.inlineable(call.Common().StaticCallee()) {
			truth := (succ == 0) != neg
			if (tag == tagTrue) != truth {
				return s, false
			}
		}
	}
	// no panic in flight: the recover()==nil edge of a recover function is judged by R1, not here
	if m.root != nil && isRecoverNilEdge(edgeCond{iff, succ}) {
		return stYes, true
	}
	if m.exemptEdge != nil && s == stNo && iff.Parent() == m.root {
		if why := m.exemptEdge(edgeCond{iff, succ}); why != "" {
			if m.ExemptedEdges != nil {
				m.ExemptedEdges[edgeCond{iff, succ}] = why
			}
			return stYes, true
		}
	}
	ci := core.Cond(iff.Cond)
	if ci.Kind != "boolfield" {
		// `if !*replied` in a helper that receives &req.replied
		c, neg := iff.Cond, false
		for {
			u, ok := c.(*ssa.UnOp)
			if !ok || u.Op != token.NOT {
				break
			}
			c, neg = u.X, !neg
		}
		if m.flagThroughPointer(c) {
			ci.Kind, ci.Field, ci.Negate = "boolfield", m.flag, neg
		}
	}
	if ci.Kind == "boolfield" && ci.Field == m.flag {
		truth := succ == 0
		if ci.Negate {
			truth = !truth
		}
		// on this edge the flag equals truth
		if truth && s == stNo {
			return s, false
		}
		if !truth && s == stYes {
			return s, false
		}
	}
	return s, true
}

func (m *replyModel) flow(fn *ssa.Function, entry core.StateSet) *core.FlowResult {
	saved := m.root
	m.root = fn
	f := &core.Flow{Fn: fn, Entry: entry, Transfer: m.transfer, Branch: m.branch, Tags: true, Inline: func(cal *ssa.Function) bool { return m.inlineable(cal) }}
	res := f.Run()
	m.root = saved
	// strip the return-value tags: consumers see {No,Yes} only
	strip := func(st core.StateSet) core.StateSet {
		var o core.StateSet
		for _, x := range st.List() {
			o = o.Add(x & 1)
		}
		return o
	}
	for k, v := range res.Before {
		res.Before[k] = strip(v)
	}
	for k, v := range res.After {
		res.After[k] = strip(v)
	}
	for k, v := range res.In {
		res.In[k] = strip(v)
	}
	res.Exit = strip(res.Exit)
	return res
}

// storesFlag reports whether fn directly stores true to the flag.
func (m *replyModel) storesFlag(fn *ssa.Function) bool {
	for _, b := range fn.Blocks {
		for _, in := range b.Instrs {
			if st, ok := in.(*ssa.Store); ok && isConstBool(st.Val, true) {
				if f, ok := core.FieldOf(st.Addr); ok && f == m.flag {
					return true
				}
			}
		}
	}
	return false
}

// summarise computes may/must for all candidate functions to a fix-point.
func (m *replyModel) summarise(cands []*ssa.Function) {
	m.may = map[*ssa.Function]bool{}
	m.must = map[*ssa.Function]bool{}
	// may: reaches a flag store through static calls that pass *T
	changed := true
	for changed {
		changed = false
		for _, fn := range cands {
			if m.may[fn] {
				continue
			}
			ok := m.storesFlag(fn)
			if !ok {
				for _, c := range core.Calls(fn) {
					if cal := c.Common().StaticCallee(); cal != nil && m.may[cal] && m.takesT(c) && !core.IsGo(c) && !core.IsDefer(c) {
						ok = true
					}
				}
			}
			if ok {
				m.may[fn] = true
				changed = true
			}
		}
	}
	changed = true
	for changed {
		changed = false
		for _, fn := range cands {
			if m.must[fn] || !m.may[fn] {
				continue
			}
			res := m.flow(fn, core.StateSet(0).Add(stNo).Add(stYes))
			ok := true
			n := 0
			for _, r := range core.Returns(fn) {
				st := res.Before[r]
				if st.Empty() {
					continue // unreachable
				}
				n++
				if !st.Only(stYes) {
					ok = false
				}
			}
			if ok && n > 0 {
				m.must[fn] = true
				changed = true
			}
		}
	}
}

func stateStr(s core.StateSet) string {
	switch {
	case s.Empty():
		return "unreachable"
	case s.Only(stYes):
		return "Yes"
	case s.Only(stNo):
		return "No"
	}
	return "{No,Yes}"
}

// isRecoverNil: condition compares the result of recover() with nil.
func isRecoverNilEdge(e edgeCond) bool {
	ci := core.Cond(e.If.Cond)
	if ci.Kind != "nilcmp" {
		return false
	}
	c, ok := core.Strip(ci.X).(*ssa.Call)
	if !ok || core.CalleeName(c) != "builtin:recover" {
		return false
	}
	truth := e.Succ == 0
	if ci.Negate {
		truth = !truth
	}
	return (ci.Op == token.EQL) == truth
}

// literalMustMay: must / may reply of a callee; a func literal handed on as a
// callback (`func(e *Error) { r.error(e, r.meta()) }`) is judged by its body.
func (m *replyModel) literalMustMay(cal *ssa.Function) (must, may bool) {
	must, may = m.must[cal], m.may[cal]
	if cal.Parent() == nil || must || may {
		return
	}
	for _, c2 := range core.Calls(cal) {
		if c3 := c2.Common().StaticCallee(); c3 != nil && !core.IsGo(c2) && !core.IsDefer(c2) {
			if m.must[c3] && unconditionalIn(c2) {
				must = true
			}
			if m.may[c3] || m.must[c3] {
				may = true
			}
		}
	}
	return
}
