package props

import (
	"go/token"
	"go/types"

	"golang.org/x/tools/go/ssa"

	"resverif/core"
)

// Must-reply typestate: abstract value of the request's "replied" flag.
const (
	stNo  = 0
	stYes = 1
)

// replyModel is the flag-sensitive must-reply analysis for one request type.
type replyModel struct {
	p     *core.Prog
	rel   string
	tname string
	flag  core.Field
	// summaries over declared methods of *T and helper functions taking *T
	may  map[*ssa.Function]bool
	must map[*ssa.Function]bool
	// extraMust are callees on other types that count as "replied" for T
	// (e.g. the dispatcher when analysing processRequest).
	extraMust map[*ssa.Function]bool
}

func isPtrTo(t types.Type, name string) bool {
	pt, ok := t.Underlying().(*types.Pointer)
	if !ok {
		return false
	}
	return core.TypeName(pt.Elem()) == name
}

// takesT reports whether the call passes a value of type *T (possibly wrapped
// in an interface) as receiver or argument.
func (m *replyModel) takesT(c ssa.CallInstruction) bool {
	name := qual(m.rel, m.tname)
	for _, a := range c.Common().Args {
		if isPtrTo(core.Strip(a).Type(), name) {
			return true
		}
	}
	if c.Common().IsInvoke() && isPtrTo(core.Strip(c.Common().Value).Type(), name) {
		return true
	}
	return false
}

func (m *replyModel) transfer(in ssa.Instruction, s int) core.StateSet {
	var one core.StateSet
	one = one.Add(s)
	switch in := in.(type) {
	case *ssa.Store:
		if f, ok := core.FieldOf(in.Addr); ok && f == m.flag {
			if isConstBool(in.Val, true) {
				return core.StateSet(0).Add(stYes)
			}
			if isConstBool(in.Val, false) {
				return core.StateSet(0).Add(stNo)
			}
			return core.StateSet(0).Add(stNo).Add(stYes)
		}
	case *ssa.Call:
		cc := in.Common()
		if callee := cc.StaticCallee(); callee != nil {
			if m.extraMust[callee] {
				return core.StateSet(0).Add(stYes)
			}
			if !m.takesT(in) {
				return one
			}
			if m.must[callee] {
				return core.StateSet(0).Add(stYes)
			}
			if m.may[callee] {
				return one.Add(stYes)
			}
			return one
		}
		if _, ok := cc.Value.(*ssa.Builtin); ok {
			return one
		}
		// dynamic call or interface invoke: havoc iff the request is passed
		if m.takesT(in) {
			return one.Add(stYes)
		}
	}
	return one
}

func (m *replyModel) branch(iff *ssa.If, succ int, s int) (int, bool) {
	ci := core.Cond(iff.Cond)
	if ci.Kind == "boolfield" && ci.Field == m.flag {
		truth := succ == 0
		if ci.Negate {
			truth = !truth
		}
		// on this edge the flag equals truth
		if truth && s == stNo {
			return s, false
		}
		if !truth && s == stYes {
			return s, false
		}
	}
	return s, true
}

func (m *replyModel) flow(fn *ssa.Function, entry core.StateSet) *core.FlowResult {
	f := &core.Flow{Fn: fn, Entry: entry, Transfer: m.transfer, Branch: m.branch}
	return f.Run()
}

// storesFlag reports whether fn directly stores true to the flag.
func (m *replyModel) storesFlag(fn *ssa.Function) bool {
	for _, b := range fn.Blocks {
		for _, in := range b.Instrs {
			if st, ok := in.(*ssa.Store); ok && isConstBool(st.Val, true) {
				if f, ok := core.FieldOf(st.Addr); ok && f == m.flag {
					return true
				}
			}
		}
	}
	return false
}

// summarise computes may/must for all candidate functions to a fix-point.
func (m *replyModel) summarise(cands []*ssa.Function) {
	m.may = map[*ssa.Function]bool{}
	m.must = map[*ssa.Function]bool{}
	// may: reaches a flag store through static calls that pass *T
	changed := true
	for changed {
		changed = false
		for _, fn := range cands {
			if m.may[fn] {
				continue
			}
			ok := m.storesFlag(fn)
			if !ok {
				for _, c := range core.Calls(fn) {
					if cal := c.Common().StaticCallee(); cal != nil && m.may[cal] && m.takesT(c) && !core.IsGo(c) && !core.IsDefer(c) {
						ok = true
					}
				}
			}
			if ok {
				m.may[fn] = true
				changed = true
			}
		}
	}
	changed = true
	for changed {
		changed = false
		for _, fn := range cands {
			if m.must[fn] || !m.may[fn] {
				continue
			}
			res := m.flow(fn, core.StateSet(0).Add(stNo).Add(stYes))
			ok := true
			n := 0
			for _, r := range core.Returns(fn) {
				st := res.Before[r]
				if st.Empty() {
					continue // unreachable
				}
				n++
				if !st.Only(stYes) {
					ok = false
				}
			}
			if ok && n > 0 {
				m.must[fn] = true
				changed = true
			}
		}
	}
}

func stateStr(s core.StateSet) string {
	switch {
	case s.Empty():
		return "unreachable"
	case s.Only(stYes):
		return "Yes"
	case s.Only(stNo):
		return "No"
	}
	return "{No,Yes}"
}

// isRecoverNil: condition compares the result of recover() with nil.
func isRecoverNilEdge(e edgeCond) bool {
	ci := core.Cond(e.If.Cond)
	if ci.Kind != "nilcmp" {
		return false
	}
	c, ok := core.Strip(ci.X).(*ssa.Call)
	if !ok || core.CalleeName(c) != "builtin:recover" {
		return false
	}
	truth := e.Succ == 0
	if ci.Negate {
		truth = !truth
	}
	return (ci.Op == token.EQL) == truth
}
