package props

import (
	"fmt"
	"go/token"
	"sort"
	"strings"

	"golang.org/x/tools/go/ssa"

	"resverif/core"
)

// E4 linear layout check for hand-assembled byte buffers:
//   b := make([]byte, L); copy(b[o1:], s1); b[o2] = c; ...
// Lengths and offsets are evaluated as linear expressions over the symbols
// len(<value>) so the check holds for every input length.

type linExpr struct {
	c    int64
	syms map[string]int64
	ok   bool
}

func linConst(c int64) linExpr { return linExpr{c: c, syms: map[string]int64{}, ok: true} }

func (a linExpr) add(b linExpr, sign int64) linExpr {
	if !a.ok || !b.ok {
		return linExpr{}
	}
	out := linExpr{c: a.c + sign*b.c, syms: map[string]int64{}, ok: true}
	for k, v := range a.syms {
		out.syms[k] += v
	}
	for k, v := range b.syms {
		out.syms[k] += sign * v
	}
	for k, v := range out.syms {
		if v == 0 {
			delete(out.syms, k)
		}
	}
	return out
}

func (a linExpr) eq(b linExpr) bool {
	if !a.ok || !b.ok || a.c != b.c || len(a.syms) != len(b.syms) {
		return false
	}
	for k, v := range a.syms {
		if b.syms[k] != v {
			return false
		}
	}
	return true
}

func (a linExpr) String() string {
	if !a.ok {
		return "?"
	}
	var parts []string
	for _, k := range core.SortedKeys(a.syms) {
		if a.syms[k] == 1 {
			parts = append(parts, k)
		} else {
			parts = append(parts, fmt.Sprintf("%d*%s", a.syms[k], k))
		}
	}
	if a.c != 0 || len(parts) == 0 {
		parts = append(parts, fmt.Sprint(a.c))
	}
	return strings.Join(parts, "+")
}

// lenSym names the length symbol of a value (stable across loads).
func lenSym(v ssa.Value) string {
	v = core.Strip(v)
	if s, ok := core.ConstString(v); ok {
		return fmt.Sprintf("#%d", len(s))
	}
	d := valDesc(v)
	if d == "value" {
		if c, ok := v.(*ssa.Extract); ok {
			d = "extract:" + valDesc(c.Tuple)
		}
	}
	return "len(" + d + ")"
}

func linEval(v ssa.Value, depth int) linExpr {
	if depth > 10 {
		return linExpr{}
	}
	if c, ok := core.ConstInt(v); ok {
		return linConst(c)
	}
	switch x := v.(type) {
	case *ssa.BinOp:
		switch x.Op {
		case token.ADD:
			return linEval(x.X, depth+1).add(linEval(x.Y, depth+1), 1)
		case token.SUB:
			return linEval(x.X, depth+1).add(linEval(x.Y, depth+1), -1)
		}
	case *ssa.Call:
		if core.CalleeName(x) == "builtin:len" {
			a := x.Call.Args[0]
			if s, ok := core.ConstString(a); ok {
				return linConst(int64(len(s)))
			}
			// len of the buffer itself is handled by the caller via bufLen
			return linExpr{syms: map[string]int64{lenSym(a): 1}, ok: true}
		}
	case *ssa.Convert, *ssa.ChangeType:
		return linEval(core.Strip(v), depth+1)
	}
	return linExpr{}
}

type segment struct {
	start, end linExpr
	what       string
	pos        string
}

// byteBuffers lists the make([]byte, n) buffers of fn.
func byteBuffers(fn *ssa.Function) []*ssa.MakeSlice {
	var out []*ssa.MakeSlice
	for _, b := range fn.Blocks {
		for _, in := range b.Instrs {
			if ms, ok := in.(*ssa.MakeSlice); ok && strings.Contains(ms.Type().String(), "byte") {
				out = append(out, ms)
			}
		}
	}
	return out
}

// layoutCheck analyses fn for its (last) make([]byte, L) buffer and returns
// whether the writes tile [0, L) exactly.
func layoutCheck(p *core.Prog, fn *ssa.Function) (ok bool, desc string, segs []segment, total linExpr) {
	bufs := byteBuffers(fn)
	if len(bufs) == 0 {
		return false, "no make([]byte, n) buffer", nil, linExpr{}
	}
	return layoutCheckBuf(p, fn, bufs[len(bufs)-1])
}

// layoutCheckBuf checks one buffer.
func layoutCheckBuf(p *core.Prog, fn *ssa.Function, buf *ssa.MakeSlice) (ok bool, desc string, segs []segment, total linExpr) {
	total = linEval(buf.Len, 0)
	if !total.ok {
		return false, "buffer length is not linear in input lengths", nil, total
	}
	// substitute len(buf) by total when evaluating offsets
	eval := func(v ssa.Value) linExpr {
		e := linEval(v, 0)
		if !e.ok {
			return e
		}
		bs := "len(" + valDesc(buf) + ")"
		_ = bs
		return e
	}
	isBufLen := func(v ssa.Value) bool {
		c, ok := v.(*ssa.Call)
		return ok && core.CalleeName(c) == "builtin:len" && c.Call.Args[0] == ssa.Value(buf)
	}
	var evalOff func(v ssa.Value, d int) linExpr
	evalOff = func(v ssa.Value, d int) linExpr {
		if d > 10 {
			return linExpr{}
		}
		if isBufLen(v) {
			return total
		}
		if bo, ok := v.(*ssa.BinOp); ok && (bo.Op == token.ADD || bo.Op == token.SUB) {
			sign := int64(1)
			if bo.Op == token.SUB {
				sign = -1
			}
			return evalOff(bo.X, d+1).add(evalOff(bo.Y, d+1), sign)
		}
		return eval(v)
	}
	for _, b := range fn.Blocks {
		for _, in := range b.Instrs {
			switch x := in.(type) {
			case *ssa.Call:
				if core.CalleeName(x) != "builtin:copy" {
					continue
				}
				dst, src := x.Call.Args[0], x.Call.Args[1]
				start := linConst(0)
				switch d := dst.(type) {
				case *ssa.MakeSlice:
					if d != buf {
						continue
					}
				case *ssa.Slice:
					if d.X != ssa.Value(buf) {
						continue
					}
					if d.Low != nil {
						start = evalOff(d.Low, 0)
					}
				default:
					continue
				}
				var l linExpr
				if s, ok := core.ConstString(src); ok {
					l = linConst(int64(len(s)))
				} else {
					l = linExpr{syms: map[string]int64{lenSym(src): 1}, ok: true}
				}
				segs = append(segs, segment{start, start.add(l, 1), "copy(" + lenSym(src) + ")", p.InstrPos(x)})
			case *ssa.Store:
				ia, ok := x.Addr.(*ssa.IndexAddr)
				if !ok || ia.X != ssa.Value(buf) {
					continue
				}
				start := evalOff(ia.Index, 0)
				segs = append(segs, segment{start, start.add(linConst(1), 1), "byte(" + valDesc(x.Val) + ")", p.InstrPos(x)})
			}
		}
	}
	if len(segs) == 0 {
		return false, "no writes into the buffer", segs, total
	}
	// order segments: by constant part then number of symbols (program order is kept as tiebreak)
	sort.SliceStable(segs, func(i, j int) bool {
		a, b := segs[i].start, segs[j].start
		if len(a.syms) != len(b.syms) {
			return len(a.syms) < len(b.syms)
		}
		return a.c < b.c
	})
	// greedy chaining from 0
	used := make([]bool, len(segs))
	cur := linConst(0)
	var chain []string
	for n := 0; n < len(segs); n++ {
		found := -1
		for i, s := range segs {
			if !used[i] && s.start.eq(cur) {
				found = i
				break
			}
		}
		if found < 0 {
			return false, fmt.Sprintf("gap or overlap at offset %s (layout so far: %s)", cur, strings.Join(chain, " ")), segs, total
		}
		used[found] = true
		chain = append(chain, fmt.Sprintf("[%s..%s)=%s", segs[found].start, segs[found].end, segs[found].what))
		cur = segs[found].end
	}
	if !cur.eq(total) {
		return false, fmt.Sprintf("writes end at %s but the buffer has length %s (%s)", cur, total, strings.Join(chain, " ")), segs, total
	}
	return true, strings.Join(chain, " "), segs, total
}
