package props

import (
	"fmt"
	"go/token"
	"sort"
	"strings"

	"golang.org/x/tools/go/ssa"

	"resverif/core"
)

// E4 linear layout check for hand-assembled byte buffers:
//   b := make([]byte, L); copy(b[o1:], s1); b[o2] = c; ...
// Lengths and offsets are evaluated as linear expressions over the symbols
// len(<value>) so the check holds for every input length.

type linExpr struct {
	c    int64
	syms map[string]int64
	ok   bool
}

func linConst(c int64) linExpr { return linExpr{c: c, syms: map[string]int64{}, ok: true} }

func (a linExpr) add(b linExpr, sign int64) linExpr {
	if !a.ok || !b.ok {
		return linExpr{}
	}
	out := linExpr{c: a.c + sign*b.c, syms: map[string]int64{}, ok: true}
	for k, v := range a.syms {
		out.syms[k] += v
	}
	for k, v := range b.syms {
		out.syms[k] += sign * v
	}
	for k, v := range out.syms {
		if v == 0 {
			delete(out.syms, k)
		}
	}
	return out
}

func (a linExpr) eq(b linExpr) bool {
	if !a.ok || !b.ok || a.c != b.c || len(a.syms) != len(b.syms) {
		return false
	}
	for k, v := range a.syms {
		if b.syms[k] != v {
			return false
		}
	}
	return true
}

func (a linExpr) String() string {
	if !a.ok {
		return "?"
	}
	var parts []string
	for _, k := range core.SortedKeys(a.syms) {
		if a.syms[k] == 1 {
			parts = append(parts, k)
		} else {
			parts = append(parts, fmt.Sprintf("%d*%s", a.syms[k], k))
		}
	}
	if a.c != 0 || len(parts) == 0 {
		parts = append(parts, fmt.Sprint(a.c))
	}
	return strings.Join(parts, "+")
}

// layEnv maps a helper's parameters to the caller's argument values, so that
// length symbols are named after the outermost function's values.
type layEnv map[ssa.Value]ssa.Value

func (e layEnv) subst(v ssa.Value) ssa.Value {
	for i := 0; i < 8; i++ {
		w, ok := e[core.Strip(v)]
		if !ok {
			return v
		}
		v = w
	}
	return v
}

// lenSym names the length symbol of a value (stable across loads).
func lenSym(v ssa.Value, env layEnv) string {
	v = core.Strip(env.subst(v))
	if s, ok := core.ConstString(v); ok {
		return fmt.Sprintf("#%d", len(s))
	}
	d := valDesc(v)
	if d == "value" {
		if c, ok := v.(*ssa.Extract); ok {
			d = "extract:" + valDesc(c.Tuple)
		}
	}
	return "len(" + d + ")"
}

func linEval(v ssa.Value, env layEnv, depth int) linExpr {
	if depth > 12 {
		return linExpr{}
	}
	if env != nil {
		if _, isPrm := core.Strip(v).(*ssa.Parameter); isPrm {
			v = env.subst(v)
		}
	}
	if c, ok := core.ConstInt(v); ok {
		return linConst(c)
	}
	switch x := v.(type) {
	case *ssa.BinOp:
		switch x.Op {
		case token.ADD:
			return linEval(x.X, env, depth+1).add(linEval(x.Y, env, depth+1), 1)
		case token.SUB:
			return linEval(x.X, env, depth+1).add(linEval(x.Y, env, depth+1), -1)
		}
	case *ssa.Call:
		if core.CalleeName(x) == "builtin:len" {
			a := env.subst(x.Call.Args[0])
			if s, ok := core.ConstString(a); ok {
				return linConst(int64(len(s)))
			}
			return linExpr{syms: map[string]int64{lenSym(a, env): 1}, ok: true}
		}
		// copy returns the number of bytes copied: len(src) whenever the destination has room,
		// which is what the exact-fill verdict itself establishes
		if core.CalleeName(x) == "builtin:copy" && len(x.Call.Args) == 2 {
			src := env.subst(x.Call.Args[1])
			if sv, ok := core.ConstString(src); ok {
				return linConst(int64(len(sv)))
			}
			return linExpr{syms: map[string]int64{lenSym(src, env): 1}, ok: true}
		}
		// a module helper returning an offset (one return statement, linear in its inputs)
		if cal := x.Common().StaticCallee(); cal != nil && len(cal.Blocks) > 0 && cal.Signature.Results().Len() == 1 {
			rets := core.Returns(cal)
			if len(rets) == 1 {
				return linEval(rets[0].Results[0], bindEnv(env, x), depth+1)
			}
		}
	case *ssa.Convert, *ssa.ChangeType:
		return linEval(core.Strip(v), env, depth+1)
	}
	return linExpr{}
}

// bindEnv extends env with the callee's parameters bound to the call's arguments.
func bindEnv(env layEnv, c ssa.CallInstruction) layEnv {
	out := layEnv{}
	for k, v := range env {
		out[k] = v
	}
	cal := c.Common().StaticCallee()
	if cal == nil {
		return out
	}
	for i, a := range c.Common().Args {
		if i < len(cal.Params) {
			out[cal.Params[i]] = env.subst(a)
		}
	}
	return out
}

type segment struct {
	start, end linExpr
	what       string
	pos        string
}

// byteBuffers lists the make([]byte, n) buffers of fn.
func byteBuffers(fn *ssa.Function) []*ssa.MakeSlice {
	var out []*ssa.MakeSlice
	for _, b := range fn.Blocks {
		for _, in := range b.Instrs {
			if ms, ok := in.(*ssa.MakeSlice); ok && strings.Contains(ms.Type().String(), "byte") {
				out = append(out, ms)
			}
		}
	}
	return out
}

// layoutCheck analyses fn for its (last) make([]byte, L) buffer and returns
// whether the writes tile [0, L) exactly.
func layoutCheck(p *core.Prog, fn *ssa.Function) (ok bool, desc string, segs []segment, total linExpr) {
	bufs := byteBuffers(fn)
	if len(bufs) == 0 {
		return false, "no make([]byte, n) buffer", nil, linExpr{}
	}
	return layoutCheckBuf(p, fn, bufs[len(bufs)-1])
}

// layoutCheckBuf checks one buffer. Writes made by module helpers that are
// handed the buffer (or a tail of it) are collected too, with the helper's
// parameters bound to the arguments.
func layoutCheckBuf(p *core.Prog, fn *ssa.Function, buf *ssa.MakeSlice) (ok bool, desc string, segs []segment, total linExpr) {
	return layoutCheckBufIn(p, fn, buf, nil)
}

// layoutCheckBufIn: with a call site `via` of fn given, the buffer is one that
// fn makes, fills in part and returns: its length is evaluated with fn's
// parameters bound to the call's arguments, and the writes the caller makes
// into the returned value are part of the layout.
func layoutCheckBufIn(p *core.Prog, fn *ssa.Function, buf *ssa.MakeSlice, via ssa.CallInstruction) (ok bool, desc string, segs []segment, total linExpr) {
	// a buffer made with length 0 and built by appends cannot have gaps: its layout is the
	// sequence of appended pieces
	if k, isC := core.ConstInt(buf.Len); isC && k == 0 {
		return appendLayout(p, fn, buf)
	}
	env0 := layEnv{}
	if via != nil {
		env0 = bindEnv(layEnv{}, via)
	}
	total = linEval(buf.Len, env0, 0)
	if !total.ok {
		return false, "buffer length is not linear in input lengths", nil, total
	}
	var collect func(fn *ssa.Function, bufVal ssa.Value, base linExpr, env layEnv, depth int)
	collect = func(fn *ssa.Function, bufVal ssa.Value, base linExpr, env layEnv, depth int) {
		isBufLen := func(v ssa.Value) bool {
			c, ok := v.(*ssa.Call)
			return ok && core.CalleeName(c) == "builtin:len" && c.Call.Args[0] == bufVal
		}
		var evalOff func(v ssa.Value, d int) linExpr
		evalOff = func(v ssa.Value, d int) linExpr {
			if d > 10 {
				return linExpr{}
			}
			if isBufLen(v) {
				return total.add(base, -1)
			}
			if bo, ok := v.(*ssa.BinOp); ok && (bo.Op == token.ADD || bo.Op == token.SUB) {
				sign := int64(1)
				if bo.Op == token.SUB {
					sign = -1
				}
				return evalOff(bo.X, d+1).add(evalOff(bo.Y, d+1), sign)
			}
			return linEval(v, env, 0)
		}
		// dstOf: is v the buffer or a tail slice of it? returns the start offset (relative to the whole buffer)
		dstOf := func(v ssa.Value) (linExpr, bool) {
			if v == bufVal {
				return base, true
			}
			if sl, ok := v.(*ssa.Slice); ok && sl.X == bufVal && sl.High == nil {
				if sl.Low == nil {
					return base, true
				}
				return base.add(evalOff(sl.Low, 0), 1), true
			}
			return linExpr{}, false
		}
		for _, b := range fn.Blocks {
			for _, in := range b.Instrs {
				switch x := in.(type) {
				case *ssa.Call:
					if core.CalleeName(x) == "builtin:copy" {
						start, isDst := dstOf(x.Call.Args[0])
						if !isDst {
							continue
						}
						src := env.subst(x.Call.Args[1]) // a constant handed in by the caller counts with its length
						var l linExpr
						if s, ok := core.ConstString(src); ok {
							l = linConst(int64(len(s)))
						} else {
							l = linExpr{syms: map[string]int64{lenSym(src, env): 1}, ok: true}
						}
						segs = append(segs, segment{start, start.add(l, 1), "copy(" + lenSym(src, env) + ")", p.InstrPos(x)})
						continue
					}
					cal := x.Common().StaticCallee()
					if cal == nil || len(cal.Blocks) == 0 || depth >= 3 {
						continue
					}
					for i, a := range x.Common().Args {
						if start, isDst := dstOf(a); isDst && i < len(cal.Params) {
							collect(cal, cal.Params[i], start, bindEnv(env, x), depth+1)
						}
					}
				case *ssa.Store:
					ia, ok := x.Addr.(*ssa.IndexAddr)
					if !ok || ia.X != bufVal {
						continue
					}
					start := base.add(evalOff(ia.Index, 0), 1)
					segs = append(segs, segment{start, start.add(linConst(1), 1), "byte(" + valDesc(x.Val) + ")", p.InstrPos(x)})
				}
			}
		}
	}
	collect(fn, buf, linConst(0), env0, 0)
	if via != nil && via.Value() != nil {
		// the returned buffer in the caller: the call's value or the component that carries the buffer
		idx := -1
		for _, ret := range core.Returns(fn) {
			for j, rv := range ret.Results {
				for _, src := range phiSources(rv) {
					if src.V == ssa.Value(buf) {
						idx = j
					}
				}
			}
		}
		var ret ssa.Value
		if idx >= 0 {
			if fn.Signature.Results().Len() == 1 {
				ret = via.Value()
			} else if via.Value().Referrers() != nil {
				for _, rf := range *via.Value().Referrers() {
					if ex, ok := rf.(*ssa.Extract); ok && ex.Index == idx {
						ret = ex
					}
				}
			}
		}
		if ret != nil {
			collect(via.Parent(), ret, linConst(0), layEnv{}, 0)
		}
	}
	if len(segs) == 0 {
		return false, "no writes into the buffer", segs, total
	}
	// order segments: by constant part then number of symbols (program order is kept as tiebreak)
	sort.SliceStable(segs, func(i, j int) bool {
		a, b := segs[i].start, segs[j].start
		if len(a.syms) != len(b.syms) {
			return len(a.syms) < len(b.syms)
		}
		return a.c < b.c
	})
	// greedy chaining from 0
	used := make([]bool, len(segs))
	cur := linConst(0)
	var chain []string
	for n := 0; n < len(segs); n++ {
		found := -1
		for i, s := range segs {
			if !used[i] && s.start.eq(cur) {
				found = i
				break
			}
		}
		if found < 0 {
			return false, fmt.Sprintf("gap or overlap at offset %s (layout so far: %s)", cur, strings.Join(chain, " ")), segs, total
		}
		used[found] = true
		chain = append(chain, fmt.Sprintf("[%s..%s)=%s", segs[found].start, segs[found].end, segs[found].what))
		cur = segs[found].end
	}
	if !cur.eq(total) {
		return false, fmt.Sprintf("writes end at %s but the buffer has length %s (%s)", cur, total, strings.Join(chain, " ")), segs, total
	}
	return true, strings.Join(chain, " "), segs, total
}

// appendLayout reads the layout of a buffer that starts empty and is extended
// only by append: the chain of appends from the make to the returned value.
func appendLayout(p *core.Prog, fn *ssa.Function, buf *ssa.MakeSlice) (bool, string, []segment, linExpr) {
	var ret ssa.Value
	for _, r := range core.Returns(fn) {
		if len(r.Results) > 0 {
			ret = r.Results[0]
		}
	}
	var pieces []segment
	v := ret
	for i := 0; i < 16 && v != nil; i++ {
		if v == ssa.Value(buf) {
			break
		}
		call, ok := v.(*ssa.Call)
		if !ok || core.CalleeName(call) != "builtin:append" || len(call.Call.Args) != 2 {
			return false, "the buffer is not built by a plain chain of appends", nil, linExpr{}
		}
		arg := call.Call.Args[1]
		var seg segment
		if el := elemOfVarargs(arg); el != nil {
			seg = segment{what: "byte(" + valDesc(el) + ")", pos: p.InstrPos(call)}
			seg.end = linConst(1)
		} else if sv, isC := core.ConstString(arg); isC {
			seg = segment{what: fmt.Sprintf("copy(#%d)", len(sv)), pos: p.InstrPos(call)}
			seg.end = linConst(int64(len(sv)))
		} else {
			seg = segment{what: "copy(" + lenSym(arg, nil) + ")", pos: p.InstrPos(call)}
			seg.end = linExpr{syms: map[string]int64{lenSym(arg, nil): 1}, ok: true}
		}
		pieces = append([]segment{seg}, pieces...)
		v = call.Call.Args[0]
	}
	if v != ssa.Value(buf) || len(pieces) == 0 {
		return false, "the returned value is not the appended buffer", nil, linExpr{}
	}
	cur := linConst(0)
	var chain []string
	for i := range pieces {
		l := pieces[i].end
		pieces[i].start = cur
		pieces[i].end = cur.add(l, 1)
		cur = pieces[i].end
		chain = append(chain, fmt.Sprintf("[%s..%s)=%s", pieces[i].start, pieces[i].end, pieces[i].what))
	}
	return true, strings.Join(chain, " "), pieces, cur
}
