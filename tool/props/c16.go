package props

import (
	"fmt"
	"go/token"
	"go/types"
	"strings"

	"golang.org/x/tools/go/ssa"

	"resverif/core"
)

func init() { register("C16", c16) }

// configFn: configuration / registration functions are not thread roots
// (documented to run before Serve).
func isConfigFn(fn *ssa.Function) bool {
	o := core.Outermost(fn)
	n := o.Name()
	if strings.HasPrefix(n, "Set") || strings.HasPrefix(n, "New") {
		return true
	}
	switch n {
	case "Handle", "AddHandler", "AddListener", "Mount", "Route", "OnChange", "BeforeChange", "OnQueryChange", "AddIndex", "Add", "Register", "init":
		return true
	}
	return false
}

// isConfigHelper: a private helper whose every call site lies in a
// configuration function (or in another such helper) - setOwnership shared by
// SetOwnedResources and SetReset.
func isConfigHelper(p *core.Prog, fn *ssa.Function, depth int) bool {
	o := core.Outermost(fn)
	if isConfigFn(o) {
		return true
	}
	if depth > 3 || !p.IsPrivateHelper(o) {
		return false
	}
	cs := p.CallersOf(o)
	if len(cs) == 0 {
		return false
	}
	for _, c := range cs {
		if !isConfigHelper(p, c.Parent(), depth+1) {
			return false
		}
	}
	return true
}

func c16(r *core.Run) {
	p := r.P
	r.Explanation = "Lockset discipline on the library's shared structures (not a whole-program race proof): for every field of the service and of the work item that is written anywhere outside configuration functions and outside serve's initialisation (which is ordered before the workers by the go statements and before API users by the atomic state), all such accesses must hold the queue mutex, or all be sync/atomic operations, or fall under a named, reasoned exemption; the in-memory logger's buffer is only touched under the logger's mutex; the mock store's map is only touched by transaction methods (whose receivers exist only between Read/Write and Close, C11.K1) and the configuration helper; closures handed on from inside a loop do not capture a variable the loop re-assigns. Request/transaction objects are confined to one callback by the API contract and are not analysed. 'State touched only from a group's callbacks needs no user synchronisation' follows from C01 plus the mutex hand-over around every callback (C01.L2); of C01's obligations the one a data race hinges on directly - check-then-register of a group's work item in one critical section (A2) - is re-checked here, the rest is an inference."
	r.NotDecided = []string{"whole-program race freedom including user code and third-party modules", "races on per-request objects used from foreign goroutines against the documented contract"}
	r.Assumptions = []string{"configuration and registration functions are called before Serve", "API goroutines other than the Serve caller start no earlier than OnServe", "sync.Mutex / sync/atomic give the usual happens-before edges"}

	r.Rule("D1", "guarded-by discipline for Service and work-item fields: a field with a write outside configuration and initialisation is accessed only under the queue mutex, or only atomically, or is covered by a named exemption (guarded lazy default)", 6)
	r.Rule("D2", "logger: the in-memory logger's buffer and log.Logger are used only with the logger's mutex held (configuration setters aside)", 2)
	r.Rule("D3", "mock store: the resource map is accessed only by transaction methods (alive only between Read/Write and Close) and the configuration helper Add", 2)
	r.Rule("D4", "badgerstore configuration is frozen in use: fields of Store and QueryStore are written only by constructors and by the store's own exported configuration methods (Set*, OnChange, BeforeChange, OnQueryChange, AddIndex), which no transaction, query or rebuild path calls; transactions on different ids take different key locks and run in parallel, so any write on such a path is unsynchronised", 6)
	r.Rule("G1", "callbacks only on workers (shared with C01.F1; the other premise of 'state touched only from a group's callbacks needs no user synchronisation'): every callback-kind dynamic call runs on a worker goroutine through the group's queue, or synchronously inside such a callback - never directly on the timer goroutine or another foreign goroutine, where it would run concurrently with the group's queued callbacks", 6)
	r.Rule("A2", "group confinement (premise of 'state touched only from a group's callbacks needs no user synchronisation'): the lookup of a group's pending work item and the register/append that follows are one critical section (same obligations as C01.A2); otherwise two producers create two work items for one group, two workers run the group's callbacks at once and handler state races", 4)
	r.Rule("O1", "request objects own their memory: in every function that builds a request object (Request, queryRequest, getRequest) each store into a field of the request or of its resource part goes to memory allocated in that function - not through a pointer into a longer-lived object (the query event, the service); requests of one query event or Parallel resource are processed concurrently, so a write through such a pointer is an unsynchronised write to shared state", 3)
	r.Rule("O2", "lookups share no scratch state (shared with C06.R6): no function reachable from Mux.GetHandler writes Mux / node / handler state or appends into a slice or array held there; lookups run on the listener goroutine and on every goroutine calling With / Resource or emitting store changes", 1)
	r.Rule("O3", "index queries only read the query value: in the badgerstore query path no slice loaded from a member of the caller's IndexQuery (key prefix ...) is appended to, copied into or stored into - append writes into spare capacity of the caller's backing array, which two queries on different workers may share", 1)
	r.Rule("V1", "no shared loop variable: a closure created in a loop and handed on does not capture a variable the loop re-assigns", 1)

	a, e := queueEngine(r, "D1")
	if e == nil {
		return
	}
	c01Enqueue(r, a, e)
	c16QueryValueReadOnly(r, "O3", "store/badgerstore")
	r.Rule("H1", "hand-over to the next run: in the stop sequence every write of a per-run field (connection, in-channel, registry, work queue) comes before the atomic store of the stopped state - that store is what publishes the fields to a Serve that wins the stopped->starting CAS on another goroutine; a write after it races with the new run's initialisation and can wipe the new connection", 2)
	c16ReleaseBeforeStopped(r, "H1", a, p.FuncsOfPkg(""))
	r.Rule("G2", "group-confined state stays confined (shared with C01.F4 / C06.R2): the group evaluator falls back on the resource name only for the nil group, so a configured group is honoured on every pattern (also the root pattern, which has no tokens) and all members of a group share one worker", 1)
	if ro := resolveMuxRolesFor(r, "G2"); ro != nil {
		c06DefaultGroupOnlyWithoutGroup(r, "G2", ro)
	}
	r.Rule("G3", "requests carry their group (shared with C01.F2 / C02.W5): the group a Resource / Request reports is the routed Match.Group, every enqueue is keyed by it, and no resource is built from a routed handler without its group member", 5)
	if sa := resolveSvc(r, "G3"); sa.ok {
		c01GroupArg(r, "G3", sa, r.P.FuncsOfPkg(""))
	}
	r.Rule("L3", "no close racing with a delivery (shared with C15.L2): the channel a query-event subscription delivers into is closed, if at all, only after that subscription was removed synchronously - Drain returns before the connection's read loop has stopped sending into the channel, so a close after Drain races with that send (race detector) and can panic", 1)
	c15CloseAfterUnsubscribe(r, "L3")
	r.Rule("H2", "hand-over from serve to the producers (shared with C03.S5): serve initialises the queue state without the mutex and then publishes the started state with an atomic store; enqueue (With, WithResource, WithGroup, requests) touches that state only after an atomic load has seen started - that load/store pair is the only thing ordering serve's unlocked writes before a producer's first access", 1)
	if e != nil {
		ops, _ := stateOps(p.FuncsOfPkg(""), a)
		c03EnqueueStartedCheck(r, "H2", a, e, startedConst(p, a, ops))
	}
	c01Funnel(r, "G1", a, p.FuncsOfPkg(""))
	root := p.FuncsOfPkg("")
	firstGo := firstWorkerStart(p, a)
	// universe: fields of S and W, except sync-typed fields and the embedded Mux
	inUniverse := func(f core.Field) bool {
		if f.Struct != a.S && f.Struct != a.W {
			return false
		}
		if f == a.Mu || f == a.Cond || f == a.WG {
			return false
		}
		return f.Name != "Mux"
	}
	type fieldAcc struct {
		writes, all []core.Access
	}
	byField := map[core.Field]*fieldAcc{}
	// a state word wrapped in a small type of its own: a call of one of the wrapper's methods on the
	// member counts as an atomic access when every access of the wrapped word in that method is one
	wrapperAtomic := func(ac core.Access) bool {
		if a.State.Struct == a.S || !strings.HasPrefix(ac.Kind, "addr-call:") {
			return false
		}
		ci, ok := ac.Instr.(ssa.CallInstruction)
		if !ok {
			return false
		}
		cal := ci.Common().StaticCallee()
		if cal == nil || cal.Signature.Recv() == nil || core.TypeName(cal.Signature.Recv().Type()) != a.State.Struct {
			return false
		}
		n := 0
		for _, in := range core.FieldAccesses([]*ssa.Function{cal}, func(f core.Field) bool { return f == a.State }) {
			n++
			if !strings.Contains(in.Kind, "sync/atomic") {
				return false
			}
		}
		return n > 0
	}
	for _, ac := range core.FieldAccesses(root, inUniverse) {
		if isConfigHelper(p, ac.Fn, 0) {
			continue
		}
		if wrapperAtomic(ac) {
			ac.Kind = "addr-call:sync/atomic (through " + core.CalleeName(ac.Instr.(ssa.CallInstruction)) + ")"
		}
		if beforeWorkers(p, a, ac.Instr, firstGo) {
			continue // initialisation, ordered before every other thread of the run
		}
		if freshBase(ac.Addr, ac.Instr) {
			continue
		}
		fa := byField[ac.F]
		if fa == nil {
			fa = &fieldAcc{}
			byField[ac.F] = fa
		}
		fa.all = append(fa.all, ac)
		if ac.Write && ac.Kind != "close" {
			fa.writes = append(fa.writes, ac)
		}
	}
	var fields []core.Field
	for f := range byField {
		fields = append(fields, f)
	}
	sortFields(fields)
	r.Analysed["shared_fields_with_runtime_access"] = len(fields)
	// the ownership lists by role: the fields the exported setter stores its arguments into
	lazyDefault := map[string]bool{}
	for i := 0; i < 2; i++ {
		if f, ok := setterField(p, "", a.S, "SetOwnedResources", i); ok {
			lazyDefault[f.Name] = true
		}
	}
	for _, f := range fields {
		fa := byField[f]
		if len(fa.writes) == 0 {
			r.OKTrivial("D1", f.String(), "read-only-after-initialisation", "-", fmt.Sprintf("%d reads, no write outside configuration/initialisation", len(fa.all)))
			continue
		}
		allHeld, allAtomic := true, true
		var bad []string
		for _, ac := range fa.all {
			st := e.stateAt(ac.Instr)
			if !st.Only(lkHeld) {
				allHeld = false
			}
			if !strings.Contains(ac.Kind, "sync/atomic") {
				allAtomic = false
			}
		}
		switch {
		case allHeld:
			r.OK("D1", f.String(), "all-accesses-under-queue-mutex", "-", fmt.Sprintf("%d accesses (%d writes), all with the queue mutex held", len(fa.all), len(fa.writes)))
		case allAtomic:
			r.OK("D1", f.String(), "all-accesses-atomic", "-", fmt.Sprintf("%d accesses, all sync/atomic", len(fa.all)))
		case lazyDefault[f.Name] && f.Struct == a.S:
			// guarded lazy default: every write is dominated by a ==nil test of the same field
			ok := true
			for _, w := range fa.writes {
				g := false
				for _, ed := range dominatingEdges(w.Instr) {
					if describeCond(ed) == f.String()+"==nil" || fieldIsNilOnEdge(ed, f) {
						g = true
					}
				}
				if !g {
					ok = false
				}
			}
			// ... and it is one-shot: once the guarded region has run the field is non-nil, whatever
			// the handlers are - every value stored is provably non-nil and every path from the
			// nil edge to a return stores one. Otherwise the guard stays open and every later
			// ResetAll (any goroutine, also the reconnect callback) writes the field again.
			oneShot, why := true, ""
			for _, w := range fa.writes {
				if st, isSt := w.Instr.(*ssa.Store); isSt && !nonNilSlice(st.Val, 0) {
					oneShot, why = false, "the value stored at "+p.InstrPos(st)+" can be nil ("+valDesc(st.Val)+")"
				}
			}
			if ok && oneShot && len(fa.writes) > 0 {
				fn := fa.writes[0].Instr.Parent()
				fl := &core.Flow{Fn: fn, Entry: core.StateSet(0).Add(0)}
				fl.Transfer = func(in ssa.Instruction, st int) core.StateSet {
					if sto, isSt := in.(*ssa.Store); isSt {
						if g, ok := core.FieldOf(sto.Addr); ok && g == f {
							return core.StateSet(0).Add(0)
						}
					}
					return core.StateSet(0).Add(st)
				}
				fl.Branch = func(iff *ssa.If, succ int, st int) (int, bool) {
					for _, ed := range []edgeCond{{If: iff, Succ: succ}} {
						if describeCond(ed) == f.String()+"==nil" || fieldIsNilOnEdge(ed, f) {
							return 1, true
						}
					}
					return st, true
				}
				res := fl.Run()
				for _, ret := range core.Returns(fn) {
					if res.Before[ret].Has(1) {
						oneShot, why = false, "a path from the ==nil edge reaches the return at "+p.InstrPos(ret)+" without storing"
					}
				}
			}
			if ok && !oneShot {
				r.Bad("D1", f.String(), "guarded-lazy-default:one-shot", p.InstrPos(fa.writes[0].Instr), "the ==nil guard of the lazily defaulted ownership list is not closed by the defaulting ("+why+"): for a service without handlers of that kind the field stays nil, so every ResetAll - from user goroutines and from the reconnect callback - stores to it again, unsynchronised with the other callers' reads and writes")
			} else if ok {
				r.ExemptObl("D1", f.String(), "guarded-lazy-default", "-", "written only when still nil; the start-up path (subscribe, on the Serve goroutine before OnServe) executes the defaulting first, so later executions from ResetAll/reconnect only read")
			} else {
				r.Bad("D1", f.String(), "guarded-lazy-default", p.InstrPos(fa.writes[0].Instr), "ownership list written without the ==nil guard")
			}
		default:
			for _, w := range fa.writes {
				bad = append(bad, core.FuncName(w.Fn)+"@"+p.InstrPos(w.Instr))
			}
			for _, w := range fa.writes {
				r.Bad("D1", ownerName(p, w.Fn), "unsynchronised-write("+a.label(f)+")", p.InstrPos(w.Instr),
					fmt.Sprintf("%s is written here without the queue mutex and not atomically, while %d other accesses (e.g. from publishing entry points, workers, Serve's subscribe) read it with no common lock: data race", f, len(fa.all)-len(fa.writes)))
			}
		}
	}

	// ---- D2 --------------------------------------------------------------
	lfns := p.FuncsOfPkg("logger")
	for _, tn := range []string{"MemLogger"} {
		mu, okMu := fieldByType(p, "logger", tn, typeIs("sync.Mutex"))
		if !okMu {
			r.Unres("D2", "logger."+tn+".<mutex>", "no unique sync.Mutex field")
			continue
		}
		guarded := map[string]bool{}
		if st, ok := structType(p, "logger", tn); ok {
			for i := 0; i < st.NumFields(); i++ {
				switch types.TypeString(st.Field(i).Type(), nil) {
				case "*bytes.Buffer", "*log.Logger":
					guarded[st.Field(i).Name()] = true
				}
			}
		}
		le := newLockEngine(p, lfns, mu, core.Field{})
		var an []*ssa.Function
		for _, m := range methodsOf(p, "logger", tn) {
			an = append(an, m)
		}
		le.solve(an)
		n := 0
		for _, ac := range core.FieldAccesses(an, func(f core.Field) bool { return f.Struct == "logger."+tn && guarded[f.Name] }) {
			if isConfigFn(ac.Fn) || ac.Kind != "load" {
				continue
			}
			n++
			st := le.stateAt(ac.Instr)
			r.Check(st.Only(lkHeld), "D2", core.FuncName(ac.Fn), "use("+ac.F.String()+")-under-logger-mutex", p.InstrPos(ac.Instr), "buffer/logger used with the logger's mutex held", "the in-memory logger's buffer is used with lock state "+lkStr(st))
		}
		if n == 0 {
			r.Bad("D2", "logger."+tn, "buffer-uses", "-", "no use of the buffer found (rule went vacuous)")
		}
	}

	// ---- D3 --------------------------------------------------------------
	mfns := p.FuncsOfPkg("store/mockstore")
	resF := core.Field{Struct: "store/mockstore.Store", Name: "Resources"}
	// heldBy: fn is a method of one of the named transaction types, the
	// configuration helper Add, or a private helper all of whose call sites are
	// in such functions (the caller's lock is held while it runs).
	var heldBy func(fn *ssa.Function, types []string, seen map[*ssa.Function]bool) bool
	heldBy = func(fn *ssa.Function, tns []string, seen map[*ssa.Function]bool) bool {
		o := core.Outermost(fn)
		if seen[o] {
			return true
		}
		seen[o] = true
		recv := ""
		if o.Signature.Recv() != nil {
			recv = core.TypeName(o.Signature.Recv().Type())
		}
		for _, tn := range tns {
			if strings.HasSuffix(recv, tn) {
				return true
			}
		}
		if o.Name() == "Add" && strings.HasSuffix(recv, "Store") {
			return true
		}
		if (o.Object() != nil && o.Object().Exported()) || p.AddrTaken(o) {
			return false
		}
		cs := p.CallersOf(o)
		if len(cs) == 0 {
			return false
		}
		for _, c := range cs {
			if core.IsGo(c) || !heldBy(c.Parent(), tns, seen) {
				return false
			}
		}
		return true
	}
	okAll := true
	n := 0
	for _, ac := range core.FieldAccesses(mfns, func(f core.Field) bool { return f == resF }) {
		n++
		if !heldBy(ac.Fn, []string{"readTxn", "writeTxn"}, map[*ssa.Function]bool{}) {
			okAll = false
			r.Bad("D3", core.FuncName(ac.Fn), "access("+resF.String()+")-outside-transaction", p.InstrPos(ac.Instr), "the mock store's map is accessed outside a transaction method: no lock is held")
		}
	}
	if okAll {
		r.OK("D3", "store/mockstore", "map-only-in-transaction-methods", "-", fmt.Sprintf("%d accesses, all in readTxn/writeTxn methods (or their private helpers) or Add", n))
	}
	// writes only in writeTxn methods (exclusive lock)
	wOK := true
	for _, ac := range core.FieldAccesses(mfns, func(f core.Field) bool { return f == resF }) {
		if !ac.Write {
			continue
		}
		if !heldBy(ac.Fn, []string{"writeTxn"}, map[*ssa.Function]bool{}) {
			wOK = false
			r.Bad("D3", core.FuncName(ac.Fn), "write("+resF.String()+")-outside-write-transaction", p.InstrPos(ac.Instr), "the map is written under a shared (read) lock")
		}
	}
	if wOK {
		r.OK("D3", "store/mockstore", "map-writes-only-in-write-transactions", "-", "writes happen under the exclusive lock")
	}

	// ---- D4 --------------------------------------------------------------
	c16StoreConfigFrozen(r, "D4")

	// ---- O1 --------------------------------------------------------------
	c16RequestsOwnTheirMemory(r, "O1")

	// ---- O2 (shared with C06) ------------------------------------------------
	c06PureLookup(r, "O2")
	r.Rule("O4", "no append onto a slice that lives in a shared object unless the result is stored back into it: append(x.f, ...) handed elsewhere writes into x.f's backing array whenever it has spare capacity, so two goroutines (or two open transactions) building a value that way write the same memory", 1)
	c16NoForeignAppend(r, "O4", []string{"", "store", "store/badgerstore", "store/mockstore", "resprot", "middleware", "middleware/resbadger"}, "library")

	// ---- V1 --------------------------------------------------------------
	nLoopCl := 0
	for _, rel := range core.LibPkgs {
		for _, fn := range p.FuncsOfPkg(rel) {
			for _, b := range fn.Blocks {
				for _, in := range b.Instrs {
					if mc, ok := in.(*ssa.MakeClosure); ok && core.Reaches(mc, mc) {
						nLoopCl++
					}
				}
			}
			for _, lc := range sharedLoopCaptures(fn) {
				escapes := false
				if lc.mc.Referrers() != nil {
					for _, rf := range *lc.mc.Referrers() {
						switch rf.(type) {
						case *ssa.Call, *ssa.Go, *ssa.Defer, *ssa.Store, *ssa.MapUpdate:
							escapes = true
						}
					}
				}
				if escapes {
					r.Bad("V1", core.FuncName(fn), "loop-closure-captures-reassigned-variable:"+lc.cell.Comment, p.InstrPos(lc.mc), "a closure created in a loop and handed to another goroutine/queue captures '"+lc.cell.Comment+"', which the loop re-assigns: unsynchronised write (loop) / read (callback) of the same variable")
				}
			}
		}
	}
	r.OKTrivial("V1", "library", "closures-in-loops-scanned", "-", fmt.Sprintf("%d closures created in loops, none shares a re-assigned variable", nLoopCl))
	_ = types.Typ
}

func sortFields(fs []core.Field) {
	for i := 0; i < len(fs); i++ {
		for j := i + 1; j < len(fs); j++ {
			if fs[j].String() < fs[i].String() {
				fs[i], fs[j] = fs[j], fs[i]
			}
		}
	}
}

// loopCaptureRule: no closure created in a loop and handed on captures a
// variable the loop re-assigns (shared by C02, C15, C16 under their own rule ids).
func loopCaptureRule(r *core.Run, rule, badText string) {
	p := r.P
	nLoopCl := 0
	for _, rel := range core.LibPkgs {
		for _, fn := range p.FuncsOfPkg(rel) {
			for _, b := range fn.Blocks {
				for _, in := range b.Instrs {
					if mc, ok := in.(*ssa.MakeClosure); ok && core.Reaches(mc, mc) {
						nLoopCl++
					}
				}
			}
			for _, lc := range sharedLoopCaptures(fn) {
				escapes := false
				if lc.mc.Referrers() != nil {
					for _, rf := range *lc.mc.Referrers() {
						switch rf.(type) {
						case *ssa.Call, *ssa.Go, *ssa.Defer, *ssa.Store, *ssa.MapUpdate:
							escapes = true
						}
					}
				}
				if escapes {
					r.Bad(rule, core.FuncName(fn), "loop-closure-captures-reassigned-variable:"+lc.cell.Comment, p.InstrPos(lc.mc), "a closure created in a loop and handed on captures '"+lc.cell.Comment+"', which the loop re-assigns: "+badText)
				}
			}
		}
	}
	r.OKTrivial(rule, "library", "closures-in-loops-scanned", "-", fmt.Sprintf("%d closures created in loops, none shares a re-assigned variable", nLoopCl))
}

// nonNilSlice: v is provably a non-nil slice - a composite literal or make, or
// the result of a module function all of whose returns are.
func nonNilSlice(v ssa.Value, depth int) bool {
	if depth > 4 {
		return false
	}
	switch x := v.(type) {
	case *ssa.Slice:
		_, isAlloc := x.X.(*ssa.Alloc)
		return isAlloc
	case *ssa.MakeSlice:
		return true
	case *ssa.Phi:
		for _, e := range x.Edges {
			if !nonNilSlice(e, depth+1) {
				return false
			}
		}
		return len(x.Edges) > 0
	case *ssa.Call:
		cal := x.Common().StaticCallee()
		if cal == nil || len(cal.Blocks) == 0 || cal.Signature.Results().Len() != 1 {
			return false
		}
		n := 0
		for _, ret := range core.Returns(cal) {
			if cal.Recover != nil && ret.Block() == cal.Recover {
				continue
			}
			n++
			if !nonNilSlice(ret.Results[0], depth+1) {
				return false
			}
		}
		return n > 0
	}
	return false
}

// c16ReleaseBeforeStopped: no write of a per-run field in the stop function is
// reachable from its store of the stopped state.
func c16ReleaseBeforeStopped(r *core.Run, rule string, a *svcAnchors, root []*ssa.Function) {
	p := r.P
	ops, _ := stateOps(root, a)
	var started int64 = -1
	started = startedConst(p, a, ops)
	var shutdown *ssa.Function
	for _, op := range ops {
		if op.Op == "cas" && op.Old == started {
			shutdown = op.Fn
		}
	}
	if shutdown == nil {
		r.Unres(rule, "shutdown", "no function performs the stop transition")
		return
	}
	var storeStopped ssa.Instruction
	for _, op := range ops {
		if op.Fn == shutdown && op.Op == "store" {
			storeStopped = op.Instr
		}
	}
	perRun := func(f core.Field) bool {
		return f == a.NC || f == a.InCh || f == a.RWork || f == a.WorkQueue || f == a.WorkBuf
	}
	for _, ac := range core.FieldAccesses(p.Helpers(shutdown), perRun) {
		if !ac.Write {
			continue
		}
		ok := storeStopped != nil
		for _, site := range p.Lift(ac.Instr, shutdown) {
			if storeStopped != nil && core.Reaches(storeStopped, site) {
				ok = false
			}
		}
		r.Check(ok, rule, core.FuncName(ac.Fn), "write("+a.label(ac.F)+")-before-Store(stopped)", p.InstrPos(ac.Instr), "the field is written before the stopped state is published", "the field is written after the stopped state was stored: a Serve on another goroutine that wins the stopped->starting CAS initialises the same field concurrently (write/write race), and this write can clear the new run's value")
	}
}

// c16QueryValueReadOnly: see rule O3.
func c16QueryValueReadOnly(r *core.Run, rule, rel string) {
	p := r.P
	n, bad := 0, 0
	fromQuery := func(v ssa.Value) (core.Field, bool) {
		for _, lf := range valueLeaves(v, nil, 0) {
			w := core.Strip(lf.V)
			if sl, ok := w.(*ssa.Slice); ok {
				w = core.Strip(sl.X)
			}
			if f, ok := core.LoadedField(w); ok && strings.HasSuffix(f.Struct, "IndexQuery") {
				if _, isSl := w.Type().Underlying().(*types.Slice); isSl {
					return f, true
				}
			}
		}
		return core.Field{}, false
	}
	for _, fn := range p.FuncsOfPkg(rel) {
		for _, b := range fn.Blocks {
			for _, in := range b.Instrs {
				switch x := in.(type) {
				case *ssa.Call:
					name := core.CalleeName(x)
					if name != "builtin:append" && name != "builtin:copy" {
						continue
					}
					n++
					if f, ok := fromQuery(x.Common().Args[0]); ok {
						bad++
						r.Bad(rule, core.FuncName(fn), "no-"+strings.TrimPrefix(name, "builtin:")+"-onto("+f.String()+")", p.InstrPos(x), "the query writes into the caller's "+f.String()+" ("+name+" onto the loaded slice): when the slice has spare capacity the bytes land in the caller's backing array - concurrent queries that share it race, and a prefix that is a sub-slice of another key is corrupted")
					}
				case *ssa.Store:
					if ia, ok := x.Addr.(*ssa.IndexAddr); ok {
						if f, ok := fromQuery(ia.X); ok {
							bad++
							r.Bad(rule, core.FuncName(fn), "no-element-store-into("+f.String()+")", p.InstrPos(x), "the query stores into an element of the caller's "+f.String())
						}
					}
				}
			}
		}
	}
	if bad == 0 {
		r.OK(rule, rel, "query-value-read-only", "-", fmt.Sprintf("%d append/copy calls scanned, none targets a slice of the query value", n))
	}
}

// c16NoForeignAppend: append(x.f, ...) whose result is not stored back into
// x.f extends a slice that lives in a shared object on behalf of someone
// else: when x.f has spare capacity the appended bytes land in x.f's backing
// array, and every goroutine (or transaction) doing the same writes the same
// memory. The in-place idiom x.f = append(x.f, v) is the owner growing its own
// slice and is judged by the lock rules.
func c16NoForeignAppend(r *core.Run, rule string, rels []string, what string) {
	p := r.P
	n, bad := 0, 0
	for _, rel := range rels {
		for _, fn := range p.FuncsOfPkg(rel) {
			for _, c := range core.Calls(fn) {
				call, ok := c.(*ssa.Call)
				if !ok || core.CalleeName(call) != "builtin:append" {
					continue
				}
				n++
				var fld core.Field
				found := false
				for _, lf := range valueLeaves(call.Call.Args[0], nil, 0) {
					w := core.Strip(lf.V)
					if f, ok := core.LoadedField(w); ok {
						if _, isSl := w.Type().Underlying().(*types.Slice); isSl {
							fld, found = f, true
						}
					}
				}
				if !found {
					continue
				}
				back := false
				var seen map[ssa.Value]bool = map[ssa.Value]bool{}
				var walk func(v ssa.Value, d int)
				walk = func(v ssa.Value, d int) {
					if d > 4 || seen[v] || v.Referrers() == nil {
						return
					}
					seen[v] = true
					for _, rf := range *v.Referrers() {
						switch x := rf.(type) {
						case *ssa.Store:
							if f, ok := core.FieldOf(x.Addr); ok && f == fld && x.Val == v {
								back = true
							}
						case *ssa.Phi:
							walk(x, d+1)
						case *ssa.Call:
							// append(append(x.f, a), b): the outer append decides
							if core.CalleeName(x) == "builtin:append" && x.Call.Args[0] == v {
								walk(x, d+1)
							}
						}
					}
				}
				walk(call, 0)
				if !back {
					bad++
					r.Bad(rule, core.FuncName(fn), "no-append-onto-a-shared-field-slice("+fld.String()+")", p.InstrPos(call), "append extends "+fld.String()+" but the result is not stored back into it: when that slice has spare capacity the appended bytes are written into its backing array, which every other caller (goroutine, open transaction) doing the same shares - they overwrite each other's data")
				}
			}
		}
	}
	if bad == 0 {
		r.OK(rule, what, "no-append-onto-a-shared-field-slice", "-", fmt.Sprintf("%d append calls scanned: every append onto a field's slice stores its result back into that field", n))
	}
}

// derefNamed: the named type of t or of what t points to.
func derefNamed(t types.Type) (*types.Named, bool) {
	if pt, ok := t.Underlying().(*types.Pointer); ok {
		t = pt.Elem()
	}
	nt, ok := t.(*types.Named)
	return nt, ok
}

// c16RequestsOwnTheirMemory is C16.O1 (shared as C18.V13): request objects own
// their memory, and per-request code neither writes members of the longer-lived
// object it was handed nor starts a request on a re-slice of a buffer kept there.
func c16RequestsOwnTheirMemory(r *core.Run, rule string) {
	p := r.P
	root := p.FuncsOfPkg("")
	reqTypes := map[string]bool{"Request": true, "queryRequest": true, "getRequest": true, "resource": true}
	// fresh: the address denotes memory allocated in this function
	var fresh func(fn *ssa.Function, addr ssa.Value, d int) (bool, string)
	fresh = func(fn *ssa.Function, addr ssa.Value, d int) (bool, string) {
		if d > 8 {
			return false, "too deep"
		}
		switch x := addr.(type) {
		case *ssa.Alloc:
			return true, ""
		case *ssa.FieldAddr:
			return fresh(fn, x.X, d+1)
		case *ssa.IndexAddr:
			return fresh(fn, x.X, d+1)
		case *ssa.UnOp:
			if x.Op != token.MUL {
				return false, valDesc(x)
			}
			// a pointer loaded from a field of a fresh object: every value stored there must be fresh
			fa, ok := x.X.(*ssa.FieldAddr)
			if !ok {
				return false, "pointer loaded from " + valDesc(x.X)
			}
			if ok, why := fresh(fn, fa.X, d+1); !ok {
				return false, why
			}
			n := 0
			for _, b := range fn.Blocks {
				for _, in := range b.Instrs {
					st, ok := in.(*ssa.Store)
					if !ok {
						continue
					}
					fb, ok := st.Addr.(*ssa.FieldAddr)
					if !ok || fb.X != fa.X || fb.Field != fa.Field {
						continue
					}
					n++
					if ok, why := fresh(fn, st.Val, d+1); !ok {
						return false, "the pointer member is set to " + valDesc(st.Val) + " (" + why + ")"
					}
				}
			}
			if n == 0 {
				return false, "pointer member never set here"
			}
			return true, ""
		case *ssa.Parameter, *ssa.FreeVar:
			return false, "memory of " + valDesc(x)
		}
		return false, valDesc(addr)
	}
	nChecked := 0
	for _, fn := range root {
		builds := false
		for _, b := range fn.Blocks {
			for _, in := range b.Instrs {
				if al, ok := in.(*ssa.Alloc); ok && al.Heap {
					tn := core.TypeName(al.Type())
					if tn == "Request" || tn == "queryRequest" || tn == "getRequest" {
						builds = true
					}
				}
			}
		}
		if !builds {
			continue
		}
		for _, b := range fn.Blocks {
			for _, in := range b.Instrs {
				st, ok := in.(*ssa.Store)
				if !ok {
					continue
				}
				f, ok := core.FieldOf(st.Addr)
				if ok && !reqTypes[f.Struct] {
					// per-request code writing a member of a longer-lived object of the package (the
					// query event, the service, the mux) it was handed: a buffer or cache shared by all
					// requests of that object
					if fa, isFA := st.Addr.(*ssa.FieldAddr); isFA {
						if isFresh, why := fresh(fn, fa.X, 0); !isFresh && strings.HasPrefix(why, "memory of") {
							if nt, isN := derefNamed(fa.X.Type()); isN && nt.Obj().Pkg() != nil && nt.Obj().Pkg() == fn.Pkg.Pkg {
								nChecked++
								r.Bad(rule, core.FuncName(fn), "store("+f.String()+")-by-per-request-code", p.InstrPos(st), "the function that builds and runs a request stores into "+f.String()+", a member of an object that outlives the request ("+why+") and is shared by every request on it: with a Parallel resource (or any two workers) concurrent requests write and reuse the same memory - a response can carry another request's data")
							}
						}
					}
					continue
				}
				if !ok {
					continue
				}
				// a request member initialised with a re-slice of a buffer kept in a longer-lived object
				if sl, isSl := core.Strip(st.Val).(*ssa.Slice); isSl {
					if lf, isLF := core.LoadedField(sl.X); isLF && !reqTypes[lf.Struct] {
						nChecked++
						r.Bad(rule, core.FuncName(fn), "store("+f.String()+")<-re-slice-of("+lf.String()+")", p.InstrPos(st), "the request's "+f.String()+" shares its backing array with "+lf.String()+", which every request of that object is handed: appends of concurrent requests overwrite each other")
						continue
					}
				}
				nChecked++
				isFresh, why := fresh(fn, st.Addr, 0)
				r.Check(isFresh, rule, core.FuncName(fn), "store("+f.String()+")-targets-request-owned-memory", p.InstrPos(st), "written into the request object allocated here", "this store goes through a pointer into a longer-lived object ("+why+"): concurrent requests of the same query event / Parallel resource write the same memory without synchronisation (data race; a callback can see another request's data)")
			}
		}
	}
	r.Analysed["request_field_stores_checked"] = nChecked

}

// c16StoreConfigFrozen is C16.D4 (shared as C11.K6): fields of badgerstore's
// Store and QueryStore are written only by constructors and configuration
// methods no runtime path calls.
func c16StoreConfigFrozen(r *core.Run, rule string) {
	p := r.P
	rel := "store/badgerstore"
	n := 0
	for _, ac := range core.FieldAccesses(p.FuncsOfPkg(rel), func(f core.Field) bool {
		return f.Struct == rel+".Store" || f.Struct == rel+".QueryStore"
	}) {
		if ac.Kind != "store" {
			continue
		}
		n++
		fn := ac.Fn
		st := ac.Instr.(*ssa.Store)
		fresh := false
		if fa, ok := st.Addr.(*ssa.FieldAddr); ok {
			if al, ok := core.Strip(fa.X).(*ssa.Alloc); ok && al.Parent() == fn {
				fresh = true
			}
		}
		okRecv := false
		if rcv := fn.Signature.Recv(); rcv != nil {
			if pt, ok := rcv.Type().Underlying().(*types.Pointer); ok && core.TypeName(pt.Elem()) == ac.F.Struct {
				okRecv = true
			}
		}
		var cfgOnly func(f *ssa.Function, d int) bool
		cfgOnly = func(f *ssa.Function, d int) bool {
			if f.Parent() != nil || d > 4 {
				return false
			}
			cs := p.CallersOf(f)
			if f.Object() != nil && f.Object().Exported() {
				if !isConfigFn(f) {
					return false
				}
			} else if len(cs) == 0 {
				return false
			}
			for _, c := range cs {
				if core.IsGo(c) || !cfgOnly(core.Outermost(c.Parent()), d+1) {
					return false
				}
			}
			return true
		}
		good := fresh || (okRecv && cfgOnly(fn, 0))
		r.Check(good, rule, core.FuncName(fn), "store("+ac.F.String()+")", p.InstrPos(ac.Instr), "written by a constructor or an exported configuration method of the store itself that no runtime path calls", "a store field is written outside configuration (in a function transactions or queries reach): transactions on different ids hold different key locks and run in parallel, so the write races with every reader of the field")
	}
	r.Analysed["badgerstore_field_stores"] = n

}

// fieldIsNilOnEdge: taking the edge establishes that the member f is nil - the
// true edge of `f == nil` or the false edge of `f != nil` (a guard clause).
func fieldIsNilOnEdge(ed edgeCond, f core.Field) bool {
	ci := core.Cond(ed.If.Cond)
	if ci.Kind != "nilcmp" || !ci.HasFld || ci.Field != f {
		return false
	}
	truth := ed.Succ == 0
	if ci.Negate {
		truth = !truth
	}
	return (ci.Op == token.EQL) == truth
}
