package props

import (
	"encoding/json"
	"fmt"
	"go/constant"
	"go/token"
	"go/types"
	"reflect"
	"sort"
	"strings"

	"golang.org/x/tools/go/ssa"

	"resverif/core"
)

func init() { register("C07", c07) }

// ---- shared vocabulary helpers (also used by C05/C18/C19) ------------------

// jsonTags returns field name -> (json key, omitempty) for a named struct.
type tagInfo struct {
	Key       string
	OmitEmpty bool
	Type      string
}

func jsonTags(t types.Type) map[string]tagInfo {
	st, ok := t.Underlying().(*types.Struct)
	if !ok {
		return nil
	}
	out := map[string]tagInfo{}
	for i := 0; i < st.NumFields(); i++ {
		tag := reflect.StructTag(st.Tag(i)).Get("json")
		if tag == "-" {
			continue
		}
		parts := strings.Split(tag, ",")
		key := parts[0]
		if key == "" {
			key = st.Field(i).Name()
		}
		ti := tagInfo{Key: key, Type: types.TypeString(st.Field(i).Type(), func(p *types.Package) string { return p.Name() })}
		for _, o := range parts[1:] {
			if o == "omitempty" {
				ti.OmitEmpty = true
			}
		}
		out[st.Field(i).Name()] = ti
	}
	return out
}

func tagKeys(m map[string]tagInfo) []string {
	var ks []string
	for _, v := range m {
		s := v.Key
		if v.OmitEmpty {
			s += "?"
		}
		ks = append(ks, s)
	}
	sort.Strings(ks)
	return ks
}

// byteGlobals returns the package-level []byte variables of a package that are
// initialised from a string constant, name -> content.
func byteGlobals(p *core.Prog, rel string) map[string]string {
	out := map[string]string{}
	sp := p.SPkgs[rel]
	init := sp.Func("init")
	if init == nil {
		return out
	}
	for _, b := range init.Blocks {
		for _, in := range b.Instrs {
			st, ok := in.(*ssa.Store)
			if !ok {
				continue
			}
			g, ok := st.Addr.(*ssa.Global)
			if !ok {
				continue
			}
			if cv, ok := st.Val.(*ssa.Convert); ok {
				if s, ok := core.ConstString(cv.X); ok {
					out[g.Name()] = s
				}
			}
		}
	}
	return out
}

// stringConsts returns the string constants of a package, name -> value.
func stringConsts(p *core.Prog, rel string) map[string]string {
	out := map[string]string{}
	sc := p.Pkgs[rel].Types.Scope()
	for _, n := range sc.Names() {
		if c, ok := sc.Lookup(n).(*types.Const); ok && c.Val().Kind() == constant.String {
			out[n] = constant.StringVal(c.Val())
		}
	}
	return out
}

// concatParts flattens a string concatenation tree into its leaves, looking
// through single-return helper functions (a subject built by a helper such as
// eventSubject(name) is expanded with the helper's parameters bound).
func concatParts(v ssa.Value) []ssa.Value { return concatPartsWith(v, core.NewResolver()) }

func concatPartsWith(v ssa.Value, rs *core.Resolver) []ssa.Value {
	v = rs.R(v)
	if bo, ok := v.(*ssa.BinOp); ok && bo.Op == token.ADD {
		if b, ok := bo.Type().Underlying().(*types.Basic); ok && b.Info()&types.IsString != 0 {
			return append(concatPartsWith(bo.X, rs), concatPartsWith(bo.Y, rs)...)
		}
	}
	return []ssa.Value{v}
}

// mergeConstParts joins adjacent constant string leaves ("." + "change" -> ".change").
type subjPart struct {
	Const string
	IsC   bool
	V     ssa.Value
}

func subjectParts(v ssa.Value) []subjPart {
	var out []subjPart
	for _, pt := range concatParts(v) {
		if s, ok := core.ConstString(pt); ok {
			if n := len(out); n > 0 && out[n-1].IsC {
				out[n-1].Const += s
				continue
			}
			out = append(out, subjPart{Const: s, IsC: true})
			continue
		}
		out = append(out, subjPart{V: pt})
	}
	return out
}

// analyserValidPart mirrors the documented subject-token rule: non-empty,
// printable ASCII 33..126 without '.', '*', '>', '?'.
func analyserValidPart(s string) bool {
	if s == "" {
		return false
	}
	for _, r := range s {
		if r < 33 || r > 126 || r == '?' || r == '*' || r == '>' || r == '.' {
			return false
		}
	}
	return true
}

// validatedBy: is value v (a parameter) checked by a call to validator fn
// whose failing edge panics, dominating instruction at?
func validatedBy(v ssa.Value, at ssa.Instruction, validator string) bool {
	fn := at.Parent()
	// the validation may have been extracted into a helper that is called with v and panics unless valid
	for _, c := range core.Calls(fn) {
		cal := c.Common().StaticCallee()
		if cal == nil || len(cal.Blocks) == 0 || cal.Pkg != fn.Pkg || cal.Name() == validator || !core.Dominates(c, at) {
			continue
		}
		for i, a := range c.Common().Args {
			if a != v || i >= len(cal.Params) {
				continue
			}
			// inside the helper: the validator is called on that parameter and its failure only panics
			for _, hc := range core.Calls(cal) {
				if hcal := hc.Common().StaticCallee(); hcal != nil && hcal.Name() == validator && len(hc.Common().Args) > 0 && hc.Common().Args[0] == ssa.Value(cal.Params[i]) {
					if _, ok := panicsUnlessCall(cal, validator); ok {
						return true
					}
				}
			}
		}
	}
	for _, c := range core.Calls(fn) {
		cal := c.Common().StaticCallee()
		if cal == nil || cal.Name() != validator || len(c.Common().Args) == 0 || c.Common().Args[0] != v {
			continue
		}
		// find an If on the call's result whose false-validity edge panics and whose valid edge dominates at
		for _, ed := range dominatingEdges(at) {
			cond := ed.If.Cond
			neg := false
			for {
				if u, ok := cond.(*ssa.UnOp); ok && u.Op == token.NOT {
					neg = !neg
					cond = u.X
					continue
				}
				break
			}
			if cond == c.Value() {
				truth := ed.Succ == 0
				if neg {
					truth = !truth
				}
				if truth {
					return true
				}
			}
			// a && chain: cond may be a phi/other; accept if the call's block dominates and the invalid edge panics
		}
		// handle "x == "" || !valid(x)" style: the validity call sits in a cond.false block; its false result edge goes to a panic block
		if c.Value().Referrers() != nil {
			for _, rf := range *c.Value().Referrers() {
				var iff *ssa.If
				neg := false
				switch x := rf.(type) {
				case *ssa.If:
					iff = x
				case *ssa.UnOp:
					if x.Op == token.NOT && x.Referrers() != nil {
						for _, r2 := range *x.Referrers() {
							if i2, ok := r2.(*ssa.If); ok {
								iff = i2
								neg = true
							}
						}
					}
				}
				if iff == nil {
					continue
				}
				validSucc := 0
				if neg {
					validSucc = 1
				}
				invalid := iff.Block().Succs[1-validSucc]
				if ok, _ := edgeReachesOnlyPanic(invalid, func(ssa.Instruction) bool { return false }); ok {
					if reachableOnlyVia(fn, at.Block(), iff.Block(), validSucc) {
						return true
					}
				}
			}
		}
	}
	return false
}

// reachableOnlyVia: target is unreachable when edge (d, succ) is cut.
func reachableOnlyVia(fn *ssa.Function, target, d *ssa.BasicBlock, succ int) bool {
	return !reachableWithout(fn, target, d, succ)
}

// ---- C07 -----------------------------------------------------------------------

// protocolEventFields: RES service protocol, documented payload members per event (frozen table; '?' = optional).
var protocolEventFields = map[string][]string{
	"change":            {"values"},
	"add":               {"idx", "value"},
	"remove":            {"idx"},
	"query":             {"subject"},
	"system.reset":      {"access?", "resources?"},
	"token":             {"tid?", "token"},
	"system.tokenReset": {"subject", "tids"},
}

func c07(r *core.Run) {
	p := r.P
	r.Explanation = "Vocabulary and funnel analysis: every Conn.Publish site and every caller of the two event funnels is enumerated; each subject expression is flattened into its concatenation leaves and matched against the five documented templates, with variable leaves required to be the routed resource name or a parameter validated by isValidPart/isValidPath on a panicking edge; the validator itself must reject everything NATS forbids in a token; response envelopes (struct tags) and the static payload literals (parsed with encoding/json inside the analyser) must have exactly one of result/resource/error; meta is only settable behind the HTTP and not-yet-replied guards; marshal results are only published on the err==nil edge; pre-responses have the documented literal shape; event payload structs carry the protocol's fields. Decides the shape of subjects and envelopes for every handler program; JSON produced by encoding/json for user values is trusted."
	r.NotDecided = []string{"JSON that encoding/json produces for user-supplied values (must be object/array for models/collections)", "validity of resource names supplied by the gateway", "connection id of a request (assumed protocol-conformant by the property)"}
	r.Assumptions = []string{"encoding/json marshals a struct with a field tagged k (no omitempty) to an object containing member k"}

	r.Rule("P1", "funnels: Conn.Publish is invoked only from the two reply funnels and the two event funnels (subject = own parameter); PublishRequest is not used by the service", 4)
	r.Rule("P2", "subject templates: every subject handed to an event funnel is system.reset, system.tokenReset, conn.<V>.token, event.<R>.<E> or the request's reply subject, where R is the routed resource name, E a valid constant token or a parameter validated by isValidPart, V validated by isValidPart (the request's own cid exempt); the token validator rejects empty, <33, >126, '.', '*', '>', '?'", 16)
	r.Rule("P3", "envelopes: every struct marshalled on a reply path has exactly one of result/resource/error (no omitempty) plus optional meta,omitempty; Error has string code and message; every static payload literal parses as JSON with exactly one of those keys, and error literals carry a declared Code* constant", 14)
	r.Rule("P8", "payload provenance: every payload handed to a reply funnel is a package-level literal (checked by P3) or the output of json.Marshal on its err==nil edge (P5); no reply is assembled by string concatenation around handler-supplied text, which would bypass JSON escaping", 8)
	r.Rule("P9", "a custom event cannot pose as a protocol event (shared with C08.O4): the custom event method panics, before it publishes, on every reserved name (change, delete, add, remove, patch, reaccess, unsubscribe, query) and on names the token validator rejects - otherwise a handler's payload is published on event.<rid>.query (or .change, ...) without the fields documented for that event", 9)
	c08CustomEventValidity(r, "P9")
	r.Rule("P10", "a payload is not written after it was encoded: no function appends onto a truncated prefix (p[:n]) of a slice it was handed - a logging or tracing helper that shortens a payload that way overwrites the bytes the caller publishes next", 1)
	c07NoAppendIntoForeignPrefix(r, "P10", []string{"", "resprot"})
	r.Rule("P4", "meta only for HTTP: status/header are written only by the two setters, behind the !isHTTP->panic and replied->panic guards; metaObject is built only by meta(), which returns nil when nothing is set; envelope Meta fields are fed only from meta() (or nil)", 6)
	r.Rule("P5", "marshal fallback: a json.Marshal result is published only on its err==nil edge; the error edge substitutes an error reply; where that reply is built with ToError, ToError maps by a plain type assertion (no unwrapping), so a marshal failure is always system.internalError", 4)
	r.Rule("P6", "pre-response: both Timeout methods reject negative durations by panic before publishing and publish exactly timeout:\"<decimal ms>\" on the reply subject", 2)
	r.Rule("P7", "event payloads: the struct published with each event kind carries the protocol's members for that kind, and agrees tag-for-tag with the client package's mirror type on the fields both declare", 10)

	root := p.FuncsOfPkg("")
	models := c04Models(r, "P1")
	c07ReplySubjectNonEmpty(r, "P2", root)
	c07MarshalersEscape(r, "P3", root)

	// ---- P1 ----------------------------------------------------------------
	funnelFns := map[*ssa.Function]bool{}
	for _, tn := range requestTypes {
		if _, setters, ok := flagOf(p, "", tn); ok && len(setters) == 1 {
			for _, h := range funnelWithHelpers(p, replyFunnel(p, setters[0])) {
				funnelFns[h] = true
			}
		}
	}
	eventFunnels := map[*ssa.Function]bool{}
	for _, c := range invokes(root, "Conn", "Publish") {
		fn := c.Parent()
		if funnelFns[fn] {
			subj := c.Common().Args[0]
			f, ok := core.LoadedField(subj)
			r.Check(ok && f.Name == "Reply", "P1", core.FuncName(fn), "reply-funnel-publishes-on-Msg.Reply", p.InstrPos(c), "reply published on the request's reply subject", "reply funnel publishes on "+valDesc(subj))
			continue
		}
		_, isParam := c.Common().Args[0].(*ssa.Parameter)
		r.Check(isParam && fn.Parent() == nil, "P1", core.FuncName(fn), "event-funnel(subject=param)", p.InstrPos(c), "publishes on its own subject parameter; callers are judged by P2", "Conn.Publish outside the funnels with a computed subject")
		if isParam {
			eventFunnels[fn] = true
		}
	}
	// a function that hands its own subject parameter on to a funnel is a funnel too
	for changed := true; changed; {
		changed = false
		for _, fn := range root {
			if eventFunnels[fn] || fn.Parent() != nil {
				continue
			}
			for _, c := range core.Calls(fn) {
				cal := c.Common().StaticCallee()
				if cal == nil || !eventFunnels[cal] || core.IsGo(c) {
					continue
				}
				si := -1
				for i, prm := range cal.Params {
					if b, ok := prm.Type().Underlying().(*types.Basic); ok && b.Kind() == types.String {
						si = i
						break
					}
				}
				if si >= 0 {
					if prm, ok := c.Common().Args[si].(*ssa.Parameter); ok && prm.Parent() == fn {
						eventFunnels[fn] = true
						changed = true
					}
				}
			}
		}
	}
	// (how many functions make up the funnel chain is a matter of style - event, rawEvent, a shared
	// publish helper -: every one publishes on its own subject parameter, and every caller that
	// supplies a subject is judged by P2)
	r.Check(len(eventFunnels) >= 1, "P1", "package", "event-funnels-found", "-", fmt.Sprintf("%d event funnels, each publishing on its own subject parameter", len(eventFunnels)), "no event funnel found")
	for _, c := range invokes(root, "Conn", "PublishRequest") {
		r.Bad("P1", core.FuncName(c.Parent()), "no-PublishRequest", p.InstrPos(c), "the service publishes a request")
	}

	// ---- P2 ----------------------------------------------------------------
	consts := stringConsts(p, "")
	_ = consts
	subjIdx := func(fn *ssa.Function) int {
		for i, prm := range fn.Params {
			if b, ok := prm.Type().Underlying().(*types.Basic); ok && b.Kind() == types.String {
				return i
			}
		}
		return -1
	}
	type site struct {
		c    ssa.CallInstruction
		subj ssa.Value
		pay  ssa.Value
	}
	var sites []site
	for fn := range eventFunnels {
		si := subjIdx(fn)
		for _, c := range callsTo(root, fn) {
			if eventFunnels[c.Parent()] {
				if _, fw := c.Common().Args[si].(*ssa.Parameter); fw {
					continue // funnel forwarding its own subject parameter
				}
			}
			sites = append(sites, site{c, c.Common().Args[si], c.Common().Args[si+1]})
		}
	}
	sort.Slice(sites, func(i, j int) bool { return p.InstrPos(sites[i].c) < p.InstrPos(sites[j].c) })
	r.Analysed["event_funnel_call_sites"] = len(sites)
	eventKindOf := map[ssa.CallInstruction]string{}
	for _, s := range sites {
		fname := core.FuncName(s.c.Parent())
		parts := subjectParts(s.subj)
		var descs []string
		for _, pt := range parts {
			if pt.IsC {
				descs = append(descs, "const:"+pt.Const)
			} else {
				descs = append(descs, valDesc(pt.V))
			}
		}
		tmpl := strings.Join(descs, "|")
		ok, kind, why := matchSubjectTemplate(parts, s.c)
		eventKindOf[s.c] = kind
		if why == "exempt-cid" {
			r.ExemptObl("P2", fname, "subject:"+tmpl, p.InstrPos(s.c), "conn.<cid>.token with the request's own connection id: the property assumes a protocol-conformant cid")
			continue
		}
		r.Check(ok, "P2", fname, "subject:"+tmpl, p.InstrPos(s.c), "instance of template "+kind, "subject is not an instance of a documented template: "+why)
	}
	// TokenReset's subject argument passes isValidPath (it is payload, but a subject nonetheless)
	for _, fn := range methodsOf(p, "", "Service") {
		if fn.Name() != "TokenReset" {
			continue
		}
		for _, c := range core.Calls(fn) {
			if cal := c.Common().StaticCallee(); cal != nil && eventFunnels[cal] {
				prm := fn.Params[1]
				// both tests may sit in one predicate helper (isValidResetSubject(subject)): what its true
				// answer implies about the argument
				predNonEmpty, predValid := false, false
				for _, ed := range dominatingEdges(c) {
					cnd, succ := ed.Norm()
					pc, ok := cnd.(*ssa.Call)
					if !ok || succ != 0 {
						continue
					}
					cal := pc.Common().StaticCallee()
					if cal == nil || len(cal.Blocks) == 0 || cal.Pkg != fn.Pkg || cal.Name() == "isValidPath" {
						continue
					}
					for i, a := range pc.Common().Args {
						if a == ssa.Value(prm) && i < len(cal.Params) {
							ne, va := predicateImplies(cal, cal.Params[i], "isValidPath")
							predNonEmpty = predNonEmpty || ne
							predValid = predValid || va
						}
					}
				}
				r.Check(predValid || validatedBy(prm, c, "isValidPath"), "P2", core.FuncName(fn), "subject-argument-validated(isValidPath)", p.InstrPos(c), "the announced auth subject passed isValidPath on the non-panicking edge", "the token-reset subject is published without validation")
				// isValidPath accepts the empty path (a mux without prefix): the subject needs its own test
				nonEmpty := predNonEmpty
				if vf := p.Func("isValidPath"); vf != nil && !classOf(p, vf).EmptyAccept {
					nonEmpty = true
				}
				for _, ed := range dominatingEdges(c) {
					cnd, succ := ed.Norm()
					bo, ok := cnd.(*ssa.BinOp)
					if !ok {
						continue
					}
					x, y := bo.X, bo.Y
					if _, isC := x.(*ssa.Const); isC {
						x, y = y, x
					}
					if sv, isC := core.ConstString(y); isC && sv == "" && x == ssa.Value(prm) {
						if (bo.Op == token.EQL && succ == 1) || (bo.Op == token.NEQ && succ == 0) {
							nonEmpty = true
						}
					}
					if lc, isCall := x.(*ssa.Call); isCall && core.CalleeName(lc) == "builtin:len" && lc.Common().Args[0] == ssa.Value(prm) {
						if k, isC := core.ConstInt(y); isC {
							switch {
							case k == 0 && ((bo.Op == token.EQL && succ == 1) || (bo.Op == token.NEQ && succ == 0) || (bo.Op == token.GTR && succ == 0) || (bo.Op == token.LEQ && succ == 1)):
								nonEmpty = true
							case k == 1 && ((bo.Op == token.LSS && succ == 1) || (bo.Op == token.GEQ && succ == 0)):
								nonEmpty = true
							}
						}
					}
				}
				r.Check(nonEmpty, "P2", core.FuncName(fn), "subject-argument-non-empty", p.InstrPos(c), "the announced auth subject was tested non-empty (the path validator accepts the empty path)", "the token-reset event can carry an empty subject: the path validator accepts \"\" (a mux without prefix) and no separate test rejects it, so system.tokenReset is published with a subject no auth request can be sent to")
			}
		}
	}
	// the validator
	c07Validator(r, "P2", "", "isValidPart", true)

	// ---- P3 ----------------------------------------------------------------
	envelopeKeys := map[string]bool{"result": true, "resource": true, "error": true}
	mayReply := map[*ssa.Function]bool{}
	for _, m := range models {
		for fn := range m.may {
			mayReply[fn] = true
		}
	}
	// handleQueryRequest builds a reply too
	for _, fn := range root {
		for _, c := range core.Calls(fn) {
			if cal := c.Common().StaticCallee(); cal != nil && funnelFns[cal] {
				mayReply[fn] = true
			}
		}
	}
	var marshals []ssa.CallInstruction
	for _, fn := range root {
		if !mayReply[fn] {
			continue
		}
		for _, c := range core.Calls(fn) {
			if cal := c.Common().StaticCallee(); cal != nil && cal.String() == "encoding/json.Marshal" {
				marshals = append(marshals, c)
			}
		}
	}
	type marg struct {
		c   ssa.CallInstruction
		arg ssa.Value
	}
	var margs []marg
	for _, c := range marshals {
		// a marshal-and-reply helper takes the envelope as a parameter: judge what its callers pass
		for _, a := range paramArgs(p, core.Strip(c.Common().Args[0]), 0) {
			margs = append(margs, marg{c, core.Strip(a)})
		}
	}
	for _, ma := range margs {
		c, arg := ma.c, ma.arg
		tn := core.TypeName(arg.Type())
		tags := jsonTags(arg.Type())
		n := 0
		bad := ""
		for _, ti := range tags {
			if envelopeKeys[ti.Key] {
				n++
				if ti.OmitEmpty {
					bad = ti.Key + " is omitempty"
				}
			} else if !(ti.Key == "meta" && ti.OmitEmpty) {
				bad = "unexpected member " + ti.Key
			}
		}
		r.Check(tags != nil && n == 1 && bad == "", "P3", core.FuncName(c.Parent()), "marshal-envelope:"+tn, p.InstrPos(c), "envelope members "+strings.Join(tagKeys(tags), ","), "value marshalled on a reply path is not a one-of result/resource/error envelope ("+tn+": "+bad+")")
	}
	if eT := p.NamedType("", "Error"); eT != nil {
		tags := jsonTags(eT)
		okE := tags["Code"].Key == "code" && tags["Code"].Type == "string" && !tags["Code"].OmitEmpty && tags["Message"].Key == "message" && tags["Message"].Type == "string" && !tags["Message"].OmitEmpty
		r.Check(okE, "P3", "Error", "string-code-and-message", "-", "Error marshals string code and message", "Error does not marshal string code/message: "+strings.Join(tagKeys(tags), ","))
	}
	codes := map[string]bool{}
	for n, v := range stringConsts(p, "") {
		if strings.HasPrefix(n, "Code") {
			codes[v] = true
		}
	}
	globals := byteGlobals(p, "")
	// which globals flow into a reply funnel / event funnel
	used := map[string]bool{}
	for _, fn := range root {
		for _, b := range fn.Blocks {
			for _, in := range b.Instrs {
				if u, ok := in.(*ssa.UnOp); ok && u.Op == token.MUL {
					if g, ok := u.X.(*ssa.Global); ok {
						if _, ok := globals[g.Name()]; ok {
							used[g.Name()] = true
						}
					}
				}
			}
		}
	}
	for _, name := range core.SortedKeys(globals) {
		if !used[name] {
			continue
		}
		var obj map[string]json.RawMessage
		err := json.Unmarshal([]byte(globals[name]), &obj)
		n := 0
		why := ""
		if err != nil {
			why = "not a JSON object: " + err.Error()
		}
		for k := range obj {
			if envelopeKeys[k] {
				n++
			} else {
				why = "unexpected member " + k
			}
		}
		if n != 1 && why == "" {
			why = fmt.Sprintf("%d of result/resource/error present", n)
		}
		if e, ok := obj["error"]; ok && why == "" {
			var eo map[string]interface{}
			if json.Unmarshal(e, &eo) != nil {
				why = "error is not an object"
			} else {
				code, ok1 := eo["code"].(string)
				_, ok2 := eo["message"].(string)
				if !ok1 || !ok2 {
					why = "error lacks string code/message"
				} else if !codes[code] {
					why = "error code " + code + " is not a declared Code* constant"
				}
			}
		}
		r.Check(why == "", "P3", "var "+name, "static-payload-is-envelope", "-", "parses to a one-of envelope: "+globals[name], "static payload is malformed: "+why)
	}

	// ---- P4 ----------------------------------------------------------------
	c07Meta(r, root)

	// ---- P5 ----------------------------------------------------------------
	usesToError := false
	// P5 also covers the event funnels: an event whose value cannot be marshalled is not published
	marshalsP5 := append([]ssa.CallInstruction{}, marshals...)
	for fn := range eventFunnels {
		for _, c := range core.Calls(fn) {
			if cal := c.Common().StaticCallee(); cal != nil && cal.String() == "encoding/json.Marshal" {
				dup := false
				for _, m := range marshals {
					if m == c {
						dup = true
					}
				}
				if !dup {
					marshalsP5 = append(marshalsP5, c)
				}
			}
		}
	}
	sort.Slice(marshalsP5, func(i, j int) bool { return marshalsP5[i].Pos() < marshalsP5[j].Pos() })
	for _, c := range marshalsP5 {
		fn := c.Parent()
		var data, errv ssa.Value
		if c.Value().Referrers() != nil {
			for _, rf := range *c.Value().Referrers() {
				if ex, ok := rf.(*ssa.Extract); ok {
					if ex.Index == 0 {
						data = ex
					} else {
						errv = ex
					}
				}
			}
		}
		if errv == nil {
			r.Bad("P5", core.FuncName(fn), "marshal-error-tested", p.InstrPos(c), "the error of json.Marshal is discarded on a reply path")
			continue
		}
		// find the If on errv
		var iff *ssa.If
		nilSucc := -1
		if errv.Referrers() != nil {
			for _, rf := range *errv.Referrers() {
				if bo, ok := rf.(*ssa.BinOp); ok && bo.Referrers() != nil {
					for _, r2 := range *bo.Referrers() {
						if i2, ok := r2.(*ssa.If); ok {
							ci := core.Cond(i2.Cond)
							if ci.Kind == "nilcmp" {
								iff = i2
								nilSucc = 1
								if (ci.Op == token.EQL) != ci.Negate {
									nilSucc = 0
								}
							}
						}
					}
				}
			}
		}
		if iff == nil {
			r.Bad("P5", core.FuncName(fn), "marshal-error-tested", p.InstrPos(c), "the error of json.Marshal is not tested")
			continue
		}
		// every use of data as a publish payload must be on the nil edge
		good := true
		why := ""
		if data != nil && data.Referrers() != nil {
			for _, rf := range *data.Referrers() {
				switch x := rf.(type) {
				case ssa.CallInstruction:
					if !reachableOnlyVia(fn, x.Block(), iff.Block(), nilSucc) {
						good = false
						why = "marshal output used at " + p.InstrPos(x) + " off the err==nil edge"
					}
				case *ssa.Phi:
					for i, ed := range x.Edges {
						if ed != data {
							continue
						}
						pred := x.Block().Preds[i]
						if pred == iff.Block() {
							if iff.Block().Succs[nilSucc] != x.Block() {
								good = false
								why = "marshal output merged from the error edge"
							}
						} else if len(pred.Instrs) > 0 && !reachableOnlyVia(fn, pred, iff.Block(), nilSucc) {
							good = false
							why = "marshal output merged from a block reachable on the error edge"
						}
					}
				}
			}
		}
		// ... and on the error edge a reply is still sent: every path from there to a return of the
		// encoder passes a call that always replies (the reply funnel, or a function all of whose
		// paths pass one)
		if callsAny(fn, funnelFns) {
			errSucc := iff.Block().Succs[1-nilSucc]
			silent := returnReachableWithout(errSucc, func(b *ssa.BasicBlock) bool { return blockAlwaysReplies(p, b, funnelFns, map[*ssa.Function]bool{}) })
			r.Check(silent == nil, "P5", core.FuncName(fn), "marshal-error-edge-still-replies", p.InstrPos(c), "every path from the encoder's error edge to a return sends a reply", "when the value cannot be encoded the encoder can return without any reply having been sent: after a panic (a panicking handler, RequireValue re-raising the get handler's error) nothing else answers, so the requester gets no message at all instead of system.internalError")
		}
		r.Check(good, "P5", core.FuncName(fn), "marshal-output-only-on-err==nil", p.InstrPos(c), "the marshalled bytes are used only where err==nil; the error edge sends an error reply (C04.R4)", why)
		// the marshal error becomes an internal error: it is handed to InternalError, or to ToError
		// (json.Marshal never returns an *Error itself, so a plain assertion there yields InternalError)
		conv := ""
		if errv.Referrers() != nil {
			for _, rf := range *errv.Referrers() {
				if cc, ok := rf.(ssa.CallInstruction); ok {
					if cal := cc.Common().StaticCallee(); cal != nil && (cal.Name() == "ToError" || cal.Name() == "InternalError") && cal.Pkg == fn.Pkg {
						conv = cal.Name()
						usesToError = usesToError || cal.Name() == "ToError"
					}
				}
			}
		}
		if conv != "" {
			r.OK("P5", core.FuncName(fn), "marshal-error->"+conv, p.InstrPos(c), "the marshal error is converted by "+conv)
		}
	}
	if usesToError {
		toErrorRule(r, "P5")
	}

	// ---- P8 ----------------------------------------------------------------
	c07PayloadProvenance(r, "P8", funnelFns, root)

	// ---- P6 ----------------------------------------------------------------
	nT := 0
	for _, tn := range []string{"Request", "queryRequest"} {
		for _, fn := range methodsOf(p, "", tn) {
			if fn.Name() != "Timeout" {
				continue
			}
			nT++
			var pub ssa.CallInstruction
			for _, c := range core.Calls(fn) {
				if cal := c.Common().StaticCallee(); cal != nil && eventFunnels[cal] {
					pub = c
				}
			}
			if pub == nil {
				r.Bad("P6", core.FuncName(fn), "publishes-pre-response", p.Pos(fn.Pos()), "Timeout publishes nothing")
				continue
			}
			guards := guardMap(fn)
			g, okg := guards["param:"+fn.Params[1].Name()+"<0"]
			rs6 := core.NewResolver()
			pay := rs6.R(pub.Common().Args[len(pub.Common().Args)-1])
			shape := ""
			if cv, ok := pay.(*ssa.Convert); ok {
				for _, pt := range concatPartsWith(cv.X, rs6) {
					if s, ok := core.ConstString(pt); ok {
						shape += s
					} else if c, ok := pt.(*ssa.Call); ok && c.Common().StaticCallee() != nil && c.Common().StaticCallee().String() == "strconv.FormatInt" {
						base, _ := core.ConstInt(c.Common().Args[1])
						shape += fmt.Sprintf("<int base %d>", base)
						// the integer is d / time.Millisecond
						if mc, ok := core.Strip(rs6.R(core.Strip(c.Common().Args[0]))).(*ssa.Call); ok && mc.Common().StaticCallee() != nil && mc.Common().StaticCallee().String() == "(time.Duration).Milliseconds" {
							// the library's own conversion of the guarded duration
							if core.Strip(mc.Common().Args[0]) == ssa.Value(fn.Params[1]) {
								shape += "ms"
							}
						}
						if bo, ok := core.Strip(rs6.R(core.Strip(c.Common().Args[0]))).(*ssa.BinOp); ok && bo.Op == token.QUO {
							if k, ok := core.ConstInt(bo.Y); ok && k == 1000000 {
								shape += "ms"
							}
							// only the parameter is known non-negative (the panic guard): the dividend must be the
							// parameter itself - arithmetic on it before the division can overflow into a negative number
							dv := core.Strip(rs6.R(core.Strip(bo.X)))
							for {
								cv, ok := dv.(*ssa.Convert)
								if !ok {
									break
								}
								dv = core.Strip(cv.X)
							}
							r.Check(dv == ssa.Value(fn.Params[1]), "P6", core.FuncName(fn), "ms-dividend-is-the-guarded-duration", p.InstrPos(c),
								"the milliseconds are the guarded (non-negative) duration divided by a constant", "the milliseconds are computed from "+valDesc(bo.X)+", not from the guarded duration itself: arithmetic before the division can overflow for large durations and publish a negative timeout:\"-N\"")
						}
					} else {
						shape += "<?>"
					}
				}
			}
			subjF, sok := core.LoadedField(pub.Common().Args[1])
			r.Check(okg && core.Dominates(g, pub) && shape == `timeout:"<int base 10>ms"` && sok && subjF.Name == "Reply", "P6", core.FuncName(fn), "pre-response-shape", p.InstrPos(pub),
				`negative durations panic first; payload is timeout:"<decimal ms>" on Msg.Reply`, fmt.Sprintf("pre-response malformed: negative-guard=%v shape=%s subject=%s", okg, shape, valDesc(pub.Common().Args[1])))
		}
	}
	r.Check(nT == 2, "P6", "package", "two-Timeout-methods", "-", "Request and queryRequest both implement Timeout", fmt.Sprintf("%d Timeout methods found", nT))

	// ---- P7 ----------------------------------------------------------------
	for _, s := range sites {
		kind := eventKindOf[s.c]
		want, has := protocolEventFields[kind]
		if !has {
			continue
		}
		pay := core.Strip(s.pay)
		tags := jsonTags(pay.Type())
		got := tagKeys(tags)
		r.Check(tags != nil && strings.Join(got, ",") == strings.Join(want, ","), "P7", core.FuncName(s.c.Parent()), "payload("+kind+")="+core.TypeName(pay.Type()), p.InstrPos(s.c),
			"members "+strings.Join(got, ","), fmt.Sprintf("payload of a %s event has members %v, the protocol documents %v", kind, got, want))
	}
	// payload-less events publish nil
	for _, s := range sites {
		kind := eventKindOf[s.c]
		if kind == "create" || kind == "delete" || kind == "reaccess" {
			c, ok := s.pay.(*ssa.Const)
			r.Check(ok && c.IsNil(), "P7", core.FuncName(s.c.Parent()), "payload("+kind+")=none", p.InstrPos(s.c), "no payload", "a "+kind+" event carries a payload")
		}
	}
	mirrors := [][2]string{{"resetEvent", "ResetEvent"}, {"tokenEvent", "TokenEvent"}, {"changeEvent", "ChangeEvent"}, {"addEvent", "AddEvent"}, {"removeEvent", "RemoveEvent"},
		{"resQueryEvent", "QueryEvent"}, {"resEvent", "EventEntry"}, {"resQueryRequest", "QueryRequest"}, {"queryResponse", "QueryResult"}}
	for _, m := range mirrors {
		a, b := p.NamedType("", m[0]), p.NamedType("resprot", m[1])
		if a == nil || b == nil {
			r.Unres("P7", "mirror:"+m[0]+"<->resprot."+m[1], "type missing")
			continue
		}
		ta, tb := jsonTags(a), jsonTags(b)
		diff := ""
		for fn, ti := range ta {
			if tj, ok := tb[fn]; ok {
				if ti.Key != tj.Key {
					diff += fmt.Sprintf(" %s: %q vs %q;", fn, ti.Key, tj.Key)
				}
			}
		}
		shared := 0
		for fn := range ta {
			if _, ok := tb[fn]; ok {
				shared++
			}
		}
		r.Check(diff == "" && shared > 0, "P7", m[0], "agrees-with-resprot."+m[1], "-", fmt.Sprintf("%d shared fields carry the same JSON keys", shared), "service and client package disagree on JSON keys:"+diff)
	}
}

// matchSubjectTemplate classifies a flattened subject (adjacent constants
// merged). Returns (ok, kind, why).
func matchSubjectTemplate(parts []subjPart, at ssa.CallInstruction) (bool, string, string) {
	if len(parts) == 1 {
		if parts[0].IsC {
			s := parts[0].Const
			if s == "system.reset" || s == "system.tokenReset" {
				return true, s, ""
			}
			return false, "", "constant subject " + s
		}
		if f, ok := core.LoadedField(parts[0].V); ok && f.Name == "Reply" && strings.HasSuffix(f.Struct, "nats.go.Msg") {
			return true, "reply-subject", ""
		}
		return false, "", "single non-constant subject " + valDesc(parts[0].V)
	}
	if !parts[0].IsC {
		return false, "", "subject does not start with a constant prefix"
	}
	isValidated := func(v ssa.Value) bool {
		_, isParam := v.(*ssa.Parameter)
		return isParam && validatedBy(v, at, "isValidPart")
	}
	switch parts[0].Const {
	case "conn.":
		if len(parts) != 3 || !parts[2].IsC || parts[2].Const != ".token" || parts[1].IsC {
			return false, "", "conn. subject is not conn.<cid>.token"
		}
		v := parts[1].V
		if f, ok := core.LoadedField(v); ok && f.Struct == "Request" {
			// the request's own connection id: the field the CID() accessor returns
			return true, "token", "exempt-cid"
		}
		if isValidated(v) {
			return true, "token", ""
		}
		return false, "", "connection id " + valDesc(v) + " is not validated by isValidPart"
	case "event.":
		if len(parts) < 3 || parts[1].IsC {
			return false, "", "event. subject with wrong arity"
		}
		if f, ok := core.LoadedField(parts[1].V); !ok || f.Struct != "resource" || !isStringField(parts[1].V) {
			return false, "", "resource part is " + valDesc(parts[1].V) + ", not the routed resource name"
		}
		if len(parts) == 3 && parts[2].IsC {
			s := parts[2].Const
			if !strings.HasPrefix(s, ".") || !analyserValidPart(s[1:]) {
				return false, "", "event name constant " + s + " is not '.'+valid token"
			}
			return true, s[1:], ""
		}
		if len(parts) == 4 && parts[2].IsC && parts[2].Const == "." && !parts[3].IsC {
			if isValidated(parts[3].V) {
				return true, "custom", ""
			}
			return false, "", "event name " + valDesc(parts[3].V) + " is not validated by isValidPart"
		}
		return false, "", "event. subject with an unexpected shape"
	}
	return false, "", "unknown subject prefix " + parts[0].Const
}

func isStringField(v ssa.Value) bool {
	b, ok := v.Type().Underlying().(*types.Basic)
	return ok && b.Kind() == types.String
}

// c07Validator checks the rune-class facts of a token validator: it rejects
// the empty string and every rune <33, >126, '.', '*', '>', '?'.
func c07Validator(r *core.Run, rule, rel, name string, needDot bool) {
	p := r.P
	fn := p.Func(qualFn(rel, name))
	if fn == nil {
		r.Unres(rule, "validator:"+name, "function not found")
		return
	}
	fname := core.FuncName(fn)
	cc := classOf(p, fn)
	r.Analysed["validator_character_runs:"+name] = len(cc.Accept) + 1
	if cc.Extractions == 0 || !cc.Accept['a'] || !cc.Accept['0'] {
		r.Bad(rule, fname, "looks-at-every-character", p.Pos(fn.Pos()), fmt.Sprintf("the validator does not look at the characters of its argument, or accepts no ordinary character (character reads=%d accepts 'a'=%v)", cc.Extractions, cc.Accept['a']))
		return
	}
	low, high := "", ""
	for _, v := range charReps {
		if !cc.Accept[v] {
			continue
		}
		if v < 33 && low == "" {
			low = fmt.Sprintf("%#x", v)
		}
		if v > 126 && high == "" {
			high = fmt.Sprintf("%#x", v)
		}
	}
	r.Check(low == "", rule, fname, "rejects-runes-below-33", p.Pos(fn.Pos()), "space and control characters are rejected", "the token validator lets a rune below 33 (space / control) through ("+low+"): published subjects can contain whitespace")
	r.Check(high == "", rule, fname, "rejects-runes-above-126", p.Pos(fn.Pos()), "DEL and non-ASCII are rejected", "the token validator lets a rune above 126 through ("+high+")")
	for _, ch := range []rune{'*', '>', '?'} {
		r.Check(!cc.Accept[int(ch)], rule, fname, fmt.Sprintf("rejects-%q", ch), p.Pos(fn.Pos()), "rejected", fmt.Sprintf("the token validator accepts %q", ch))
	}
	if needDot {
		r.Check(!cc.Accept['.'], rule, fname, `rejects-'.'`, p.Pos(fn.Pos()), "rejected", "the token validator accepts the token separator")
	}
	r.Check(!cc.EmptyAccept, rule, fname, "rejects-empty", p.Pos(fn.Pos()), "the empty token is rejected", "the token validator accepts the empty string")
}

func qualFn(rel, name string) string {
	if rel == "" {
		return name
	}
	return rel + "." + name
}

type runeFact struct {
	op token.Token
	k  int64
}

// runeRejections lists comparisons "rune OP const" whose true edge leads
// directly to `return false` in a validator.
func runeRejections(fn *ssa.Function) []runeFact {
	var out []runeFact
	for _, b := range fn.Blocks {
		if len(b.Instrs) == 0 {
			continue
		}
		isRuneCmp := func(v ssa.Value) (*ssa.BinOp, int64, bool) {
			bo, ok := v.(*ssa.BinOp)
			if !ok {
				return nil, 0, false
			}
			k, isC := core.ConstInt(bo.Y)
			if !isC {
				return nil, 0, false
			}
			bt, ok := bo.X.Type().Underlying().(*types.Basic)
			if !ok || (bt.Kind() != types.Int32 && bt.Kind() != types.Uint8) {
				return nil, 0, false
			}
			return bo, k, true
		}
		switch last := b.Instrs[len(b.Instrs)-1].(type) {
		case *ssa.If:
			if bo, k, ok := isRuneCmp(last.Cond); ok && leadsToReturnFalse(b, 0) {
				out = append(out, runeFact{bo.Op, k})
			}
		case *ssa.Jump:
			// last operand of a short-circuit ||: the comparison itself is the phi input
			to := b.Succs[0]
			if len(to.Instrs) == 2 {
				phi, ok1 := to.Instrs[0].(*ssa.Phi)
				iff, ok2 := to.Instrs[1].(*ssa.If)
				if ok1 && ok2 && iff.Cond == ssa.Value(phi) && returnsConstBool(to.Succs[0], false, 0) {
					for i, pred := range to.Preds {
						if pred == b {
							if bo, k, ok := isRuneCmp(phi.Edges[i]); ok {
								out = append(out, runeFact{bo.Op, k})
							}
						}
					}
				}
			}
		}
	}
	return out
}

// leadsToReturnFalse: taking the succ-th edge out of block from leads
// directly to `return false`, possibly through the merge block of a
// short-circuit || expression (a bool phi that is true on this edge and is
// then branched on).
func leadsToReturnFalse(from *ssa.BasicBlock, succ int) bool {
	to := from.Succs[succ]
	if returnsConstBool(to, false, 0) {
		return true
	}
	if len(to.Instrs) == 2 {
		phi, ok1 := to.Instrs[0].(*ssa.Phi)
		iff, ok2 := to.Instrs[1].(*ssa.If)
		if ok1 && ok2 && iff.Cond == ssa.Value(phi) {
			for i, pred := range to.Preds {
				if pred == from && isConstBool(phi.Edges[i], true) {
					return returnsConstBool(to.Succs[0], false, 0)
				}
			}
		}
	}
	return false
}

func returnsConstBool(b *ssa.BasicBlock, want bool, depth int) bool {
	if depth > 3 || len(b.Instrs) == 0 {
		return false
	}
	switch x := b.Instrs[len(b.Instrs)-1].(type) {
	case *ssa.Return:
		return len(x.Results) >= 1 && isConstBool(x.Results[len(x.Results)-1], want) && len(b.Instrs) <= 2
	case *ssa.Jump:
		if len(b.Instrs) == 1 {
			return returnsConstBool(b.Succs[0], want, depth+1)
		}
	}
	return false
}

// panicOrFalseGuards: If-edge descriptions whose target returns false directly.
func panicOrFalseGuards(fn *ssa.Function) map[string]bool {
	out := map[string]bool{}
	for _, b := range fn.Blocks {
		if len(b.Instrs) == 0 {
			continue
		}
		iff, ok := b.Instrs[len(b.Instrs)-1].(*ssa.If)
		if !ok {
			continue
		}
		for i, s := range b.Succs {
			if returnsConstBool(s, false, 0) {
				out[describeCond(edgeCond{iff, i})] = true
			}
		}
	}
	return out
}

func c07Meta(r *core.Run, root []*ssa.Function) {
	p := r.P
	// role resolution: the status field is the int field of Request stored by SetResponseStatus, the
	// header field the http.Header field touched by ResponseHeader; isHTTP is what IsHTTP() returns;
	// replied is the reply flag.
	var status, rheader, isHTTP core.Field
	replied, _, _ := flagOf(p, "", "Request")
	for _, m := range methodsOf(p, "", "Request") {
		switch m.Name() {
		case "SetResponseStatus", "ResponseHeader":
			for _, b := range m.Blocks {
				for _, in := range b.Instrs {
					if st, ok := in.(*ssa.Store); ok {
						if f, ok := core.FieldOf(st.Addr); ok && f.Struct == "Request" {
							if m.Name() == "SetResponseStatus" {
								status = f
							} else {
								rheader = f
							}
						}
					}
				}
			}
		case "IsHTTP":
			for _, ret := range core.Returns(m) {
				if f, ok := core.LoadedField(ret.Results[0]); ok {
					isHTTP = f
				}
			}
		}
	}
	if status.Name == "" || rheader.Name == "" || isHTTP.Name == "" {
		r.Unres("P4", "meta-fields", "cannot resolve status/header/isHTTP fields of Request from SetResponseStatus/ResponseHeader/IsHTTP")
		return
	}
	for _, ac := range core.FieldAccesses(root, func(f core.Field) bool { return f == status || f == rheader }) {
		if !ac.Write {
			continue
		}
		fn := ac.Fn
		httpG, repG := false, false
		for _, ed := range dominatingEdges(ac.Instr) {
			switch describeCond(ed) {
			case isHTTP.String():
				httpG = true
			case "!" + replied.String():
				repG = true
			}
		}
		guards := guardMap(fn)
		_, g1 := guards["!"+isHTTP.String()]
		_, g2 := guards[replied.String()]
		// the guards may have been extracted into a helper called first
		if !(httpG && repG) {
			for _, g := range panicGuardsIn(fn) {
				if g.Desc == "!"+isHTTP.String() && core.Dominates(g.At, ac.Instr) {
					httpG = true
				}
				if g.Desc == replied.String() && core.Dominates(g.At, ac.Instr) {
					repG = true
				}
			}
		}
		r.Check(httpG && repG && g1 && g2 && fn.Object() != nil && fn.Object().Exported(), "P4", core.FuncName(fn), "write(meta:"+map[bool]string{true: "status", false: "header"}[ac.F == status]+")-behind-isHTTP-and-!replied", p.InstrPos(ac.Instr),
			"meta can only be set on an HTTP-flagged request that has not been answered; both failing edges panic", fmt.Sprintf("meta field written without both guards (isHTTP-edge=%v, !replied-edge=%v, panics=%v/%v)", httpG, repG, g1, g2))
	}
	// metaObject construction sites
	var metaFn *ssa.Function
	for _, fn := range root {
		for _, b := range fn.Blocks {
			for _, in := range b.Instrs {
				if al, ok := in.(*ssa.Alloc); ok && core.TypeName(al.Type()) == "metaObject" {
					ok2 := fn.Signature.Recv() != nil && core.TypeName(fn.Signature.Recv().Type()) == "Request" && fn.Parent() == nil && fn.Signature.Params().Len() == 0
					r.Check(ok2, "P4", core.FuncName(fn), "constructs-metaObject", p.InstrPos(al), "metaObject is only built by (*Request).meta", "metaObject constructed outside meta(): meta could appear on a non-HTTP response")
					if ok2 {
						metaFn = fn
					}
				}
			}
		}
	}
	if metaFn == nil {
		r.Bad("P4", "package", "meta()-exists", "-", "no function builds the meta object")
		return
	}
	nilRet := false
	for _, ret := range core.Returns(metaFn) {
		for _, src := range phiSources(ret.Results[0]) {
			if c, ok := src.V.(*ssa.Const); ok && c.IsNil() {
				// produced under len(rheader)==0 and status==0
				n := 0
				for _, ed := range srcEdges(ret, src) {
					d := describeCond(ed)
					if d == "len "+rheader.String()+"==0" || d == status.String()+"==0" {
						n++
					}
				}
				if n == 2 {
					nilRet = true
				}
			}
		}
	}
	r.Check(nilRet, "P4", core.FuncName(metaFn), "nil-when-unset", p.Pos(metaFn.Pos()), "meta() is nil when neither status nor headers were set (so non-HTTP responses carry no meta)", "meta() does not return nil exactly when status and headers are both unset")
	// envelope Meta fields are fed from meta() / nil / a parameter that callers feed so
	var okSrc func(v ssa.Value, d int) (bool, string)
	okSrc = func(v ssa.Value, d int) (bool, string) {
		if d > 4 {
			return false, "flow too deep"
		}
		switch x := v.(type) {
		case *ssa.Const:
			return x.IsNil(), "non-nil constant"
		case *ssa.Call:
			if x.Common().StaticCallee() == metaFn {
				return true, ""
			}
			return false, "call:" + core.CalleeName(x)
		case *ssa.Parameter:
			fn := x.Parent()
			idx := -1
			for i, q := range fn.Params {
				if q == x {
					idx = i
				}
			}
			for _, c := range callsTo(root, fn) {
				if ok, why := okSrc(c.Common().Args[idx], d+1); !ok {
					return false, "caller " + core.FuncName(c.Parent()) + ": " + why
				}
			}
			return true, ""
		}
		return false, valDesc(v)
	}
	for _, fn := range root {
		for _, b := range fn.Blocks {
			for _, in := range b.Instrs {
				st, ok := in.(*ssa.Store)
				if !ok {
					continue
				}
				f, ok := core.FieldOf(st.Addr)
				if !ok || f.Name != "Meta" {
					continue
				}
				good, why := okSrc(st.Val, 0)
				r.Check(good, "P4", core.FuncName(fn), "store("+f.String()+")<-meta()", p.InstrPos(st), "envelope meta flows from meta() or nil", "envelope meta is fed from "+why)
			}
		}
	}
}

// replyFunnels: the reply funnel of each request type.
func replyFunnels(p *core.Prog) map[*ssa.Function]bool {
	out := map[*ssa.Function]bool{}
	for _, tn := range requestTypes {
		if _, setters, ok := flagOf(p, "", tn); ok && len(setters) == 1 {
			out[replyFunnel(p, setters[0])] = true
		}
	}
	return out
}

// c07PayloadProvenance: every payload handed to a reply funnel is a
// package-level literal or the encoder's output (C07.P8; shared with C18.V9).
func c07PayloadProvenance(r *core.Run, rule string, funnelFns map[*ssa.Function]bool, root []*ssa.Function) {
	p := r.P
	for fn := range funnelFns {
		pi := -1
		for i, prm := range fn.Params {
			if isByteSlice(prm.Type()) {
				pi = i
			}
		}
		if pi < 0 {
			continue
		}
		for _, c := range callsTo(root, fn) {
			if pi >= len(c.Common().Args) {
				continue
			}
			bad := ""
			n := 0
			for _, av := range paramArgs(p, c.Common().Args[pi], 0) {
				for _, lf := range valueLeaves(av, nil, 0) {
					n++
					v := core.Strip(lf.V)
					if _, ok := loadedGlobal(v); ok {
						continue
					}
					if ex, ok := v.(*ssa.Extract); ok && ex.Index == 0 {
						if mc, ok := ex.Tuple.(*ssa.Call); ok && mc.Common().StaticCallee() != nil && mc.Common().StaticCallee().String() == "encoding/json.Marshal" {
							continue
						}
					}
					if _, isPrm := v.(*ssa.Parameter); isPrm {
						continue // forwarded by a function with no static caller here; its callers are judged at their own sites
					}
					bad = valDesc(lf.V)
				}
			}
			r.Check(bad == "" && n > 0, rule, core.FuncName(c.Parent()), "reply-payload<-literal-or-json.Marshal", p.InstrPos(c), "the payload is a package-level literal or the encoder's output", "a reply payload is assembled by hand ("+bad+"): text supplied by the handler is not JSON-escaped, so the response can be malformed or carry different data")
		}
	}
}

// c07NoAppendIntoForeignPrefix: append(p[:n], ...) where p is a slice the
// function was handed (a parameter, possibly re-sliced) writes into p's own
// backing array past n - the caller's bytes p[n:] are overwritten while the
// caller still uses p. For a payload on its way to Conn.Publish (a trace
// helper that shortens what it logs) the message goes out corrupted.
func c07NoAppendIntoForeignPrefix(r *core.Run, rule string, rels []string) {
	p := r.P
	n, bad := 0, 0
	var fromParam func(v ssa.Value, d int) *ssa.Parameter
	fromParam = func(v ssa.Value, d int) *ssa.Parameter {
		if d > 5 {
			return nil
		}
		switch x := core.Strip(v).(type) {
		case *ssa.Parameter:
			if _, isSl := x.Type().Underlying().(*types.Slice); isSl {
				return x
			}
		case *ssa.Slice:
			return fromParam(x.X, d+1)
		case *ssa.Phi:
			for _, e := range x.Edges {
				if q := fromParam(e, d+1); q != nil {
					return q
				}
			}
		}
		return nil
	}
	for _, rel := range rels {
		for _, fn := range p.FuncsOfPkg(rel) {
			for _, c := range core.Calls(fn) {
				call, ok := c.(*ssa.Call)
				if !ok || core.CalleeName(call) != "builtin:append" {
					continue
				}
				n++
				sl, ok := core.Strip(call.Call.Args[0]).(*ssa.Slice)
				if !ok || sl.High == nil || sl.Max != nil {
					continue
				}
				prm := fromParam(sl.X, 0)
				if prm == nil {
					continue
				}
				bad++
				r.Bad(rule, core.FuncName(fn), "no-append-into-a-prefix-of-a-parameter("+prm.Name()+")", p.InstrPos(call), "append extends a truncated prefix of the slice parameter "+prm.Name()+": the appended bytes overwrite the rest of the caller's slice in place - when that slice is a payload the caller publishes (or stores) afterwards, the message goes out with bytes replaced in the middle")
			}
		}
	}
	if bad == 0 {
		r.OK(rule, "library", "no-append-into-a-prefix-of-a-parameter", "-", fmt.Sprintf("%d append calls scanned: none extends a truncated prefix of a slice parameter", n))
	}
}

// callsAny: fn calls one of the functions directly.
func callsAny(fn *ssa.Function, set map[*ssa.Function]bool) bool {
	for _, c := range core.Calls(fn) {
		if cal := c.Common().StaticCallee(); cal != nil && set[cal] {
			return true
		}
	}
	return false
}

// returnReachableWithout: a return block reachable from start through blocks
// that are not barriers (nil if none).
func returnReachableWithout(start *ssa.BasicBlock, barrier func(*ssa.BasicBlock) bool) *ssa.BasicBlock {
	seen := map[*ssa.BasicBlock]bool{}
	st := []*ssa.BasicBlock{start}
	for len(st) > 0 {
		b := st[len(st)-1]
		st = st[:len(st)-1]
		if seen[b] {
			continue
		}
		seen[b] = true
		if barrier(b) {
			continue
		}
		if len(b.Instrs) > 0 {
			if _, isRet := b.Instrs[len(b.Instrs)-1].(*ssa.Return); isRet {
				return b
			}
		}
		st = append(st, b.Succs...)
	}
	return nil
}

// blockAlwaysReplies: the block holds a (plain) call of a reply funnel, or of
// a function of the package every path of which passes such a call.
func blockAlwaysReplies(p *core.Prog, b *ssa.BasicBlock, funnels map[*ssa.Function]bool, busy map[*ssa.Function]bool) bool {
	for _, in := range b.Instrs {
		c, ok := in.(ssa.CallInstruction)
		if !ok || core.IsGo(c) || core.IsDefer(c) {
			continue
		}
		cal := c.Common().StaticCallee()
		if cal == nil {
			continue
		}
		if funnels[cal] {
			return true
		}
		if cal.Pkg != b.Parent().Pkg || len(cal.Blocks) == 0 || busy[cal] || len(busy) > 6 {
			continue
		}
		busy[cal] = true
		silent := returnReachableWithout(cal.Blocks[0], func(b2 *ssa.BasicBlock) bool { return blockAlwaysReplies(p, b2, funnels, busy) })
		delete(busy, cal)
		if silent == nil {
			return true
		}
	}
	return false
}

// c07ReplySubjectNonEmpty: a message without a reply subject never becomes a
// request: starting from every function that is the first to receive a
// message (the service's message handler, the query listener's handler), each
// use of the message other than reading its members is either behind the
// "reply subject is not empty" edge, or hands the message on to a function of
// the package (directly or from a queued closure) that is judged the same way.
// Storing it into a request, or handing it to anything else, needs the edge.
// Everything that later publishes on the request's reply subject (replies, and
// the timeout pre-response, which bypasses the reply funnel) relies on it.
func c07ReplySubjectNonEmpty(r *core.Run, rule string, root []*ssa.Function) {
	p := r.P
	msgParam := func(fn *ssa.Function) *ssa.Parameter {
		for _, prm := range fn.Params {
			pt, isP := prm.Type().Underlying().(*types.Pointer)
			if !isP {
				continue
			}
			if nm, isN := pt.Elem().(*types.Named); isN && nm.Obj().Name() == "Msg" && nm.Obj().Pkg() != nil && strings.HasSuffix(nm.Obj().Pkg().Path(), "nats.go") {
				return prm
			}
		}
		return nil
	}
	guarded := func(in ssa.Instruction) bool {
		for _, ed := range dominatingEdges(in) {
			for _, ft := range edgeFacts(ed) {
				if known, nonEmpty := replySubjectFact(ft.V, ft.True); known && nonEmpty {
					return true
				}
				bo, ok := ft.V.(*ssa.BinOp)
				if !ok || (bo.Op != token.EQL && bo.Op != token.NEQ) {
					continue
				}
				x, y := bo.X, bo.Y
				if _, isC := core.ConstString(x); isC {
					x, y = y, x
				}
				k, isC := core.ConstString(y)
				f, isF := core.LoadedField(x)
				if !isC || k != "" || !isF || f.Name != "Reply" {
					continue
				}
				if (bo.Op == token.NEQ) == ft.True {
					return true
				}
			}
		}
		return false
	}
	// uses of a value holding the message that hand it on (reads of its members aside), seen
	// through the cell go/ssa spills a captured variable into
	var usesOf func(v ssa.Value, d int) []ssa.Instruction
	usesOf = func(v ssa.Value, d int) []ssa.Instruction {
		var out []ssa.Instruction
		if v.Referrers() == nil || d > 4 {
			return nil
		}
		for _, rf := range *v.Referrers() {
			switch x := rf.(type) {
			case *ssa.FieldAddr, *ssa.DebugRef:
				continue
			case *ssa.Store:
				if al, isAl := x.Addr.(*ssa.Alloc); isAl && x.Val == v {
					if al.Referrers() != nil {
						for _, r2 := range *al.Referrers() {
							switch y := r2.(type) {
							case *ssa.UnOp:
								out = append(out, usesOf(y, d+1)...)
							case *ssa.Store, *ssa.DebugRef:
							default:
								out = append(out, r2)
							}
						}
					}
					continue
				}
				out = append(out, rf)
			case *ssa.UnOp: // load through a captured cell
				out = append(out, usesOf(x, d+1)...)
			default:
				out = append(out, rf)
			}
		}
		return out
	}
	busy := map[*ssa.Function]bool{}
	// judge: the first unguarded use in fn (of the value v holding the message) that neither has the
	// edge nor hands the message to a function of the package that is fine itself
	var judge func(fn *ssa.Function, v ssa.Value, d int) ssa.Instruction
	judge = func(fn *ssa.Function, v ssa.Value, d int) ssa.Instruction {
		if d > 5 {
			return nil
		}
		for _, use := range usesOf(v, 0) {
			if guarded(use) {
				continue
			}
			switch x := use.(type) {
			case ssa.CallInstruction:
				cal := x.Common().StaticCallee()
				if cal != nil && cal.Pkg == fn.Pkg && len(cal.Blocks) > 0 && !core.IsGo(x) {
					if q := msgParam(cal); q != nil && !busy[cal] {
						busy[cal] = true
						bad := judge(cal, q, d+1)
						delete(busy, cal)
						if bad == nil {
							continue
						}
						return bad
					}
				}
				return use
			case *ssa.MakeClosure:
				cl, _ := x.Fn.(*ssa.Function)
				if cl == nil {
					return use
				}
				var bad ssa.Instruction
				for i, b := range x.Bindings {
					holds := b == v
					if al, isAl := b.(*ssa.Alloc); isAl && al.Referrers() != nil {
						for _, rf := range *al.Referrers() {
							if st, ok := rf.(*ssa.Store); ok && st.Addr == ssa.Value(al) && st.Val == v {
								holds = true
							}
						}
					}
					if holds && i < len(cl.FreeVars) {
						if b2 := judge(cl, cl.FreeVars[i], d+1); b2 != nil {
							bad = b2
						}
					}
				}
				if bad != nil {
					return bad
				}
			default:
				return use
			}
		}
		return nil
	}
	n := 0
	for _, fn := range root {
		if fn.Parent() != nil || len(fn.Blocks) == 0 {
			continue
		}
		msg := msgParam(fn)
		if msg == nil || msg.Referrers() == nil {
			continue
		}
		// an entry: nobody who already holds a message calls it
		entry := true
		callers := p.CallersOf(fn)
		for _, cs := range callers {
			if msgParam(core.Outermost(cs.Parent())) != nil {
				entry = false
			}
		}
		if !entry || len(callers) == 0 {
			continue
		}
		n++
		busy[fn] = true
		bad := judge(fn, msg, 0)
		delete(busy, fn)
		where := p.Pos(fn.Pos())
		if bad != nil {
			where = p.InstrPos(bad)
		}
		r.Check(bad == nil, rule, core.FuncName(fn), "request-accepted-only-with-a-reply-subject", where, "the message is turned into a request only on the edge where its reply subject is not empty", "a message without a reply subject is turned into a request: the response, or what the handler publishes on the request's reply subject outside the reply funnel (the timeout pre-response), goes out on the empty subject - not a valid NATS subject and none of the documented forms")
	}
	if n == 0 {
		r.Unres(rule, "message-handler", "no function receives a message and hands it on")
	}
}

// c07MarshalersEscape: the json.Marshaler implementations of the package (Ref,
// SoftRef, DataValue ...) put variable text into their output only as
// json.Marshal produced it: no string concatenation with a non-constant
// operand and no conversion of a non-constant string to bytes in a MarshalJSON
// method or its helpers. "A valid resource id needs no escaping" is false -
// validity stops at the '?', and '\' or '"' are valid name characters.
func c07MarshalersEscape(r *core.Run, rule string, root []*ssa.Function) {
	p := r.P
	// isConstText: a constant, or a parameter every call site binds to a constant (a fixed suffix)
	isConstText := func(v ssa.Value) bool {
		if _, ok := v.(*ssa.Const); ok {
			return true
		}
		if _, ok := v.(*ssa.Parameter); !ok {
			return false
		}
		as := paramArgs(p, v, 0)
		if len(as) == 0 {
			return false
		}
		for _, a := range as {
			if _, ok := a.(*ssa.Const); !ok {
				return false
			}
		}
		return true
	}
	n := 0
	for _, fn := range root {
		if fn.Name() != "MarshalJSON" || fn.Signature.Recv() == nil || len(fn.Blocks) == 0 {
			continue
		}
		n++
		bad := ""
		seen := map[*ssa.Function]bool{}
		var tree []*ssa.Function
		var walk func(f *ssa.Function, d int)
		walk = func(f *ssa.Function, d int) {
			if f == nil || seen[f] || len(f.Blocks) == 0 || f.Pkg != fn.Pkg || d > 3 {
				return
			}
			seen[f] = true
			tree = append(tree, f)
			for _, c := range core.Calls(f) {
				walk(c.Common().StaticCallee(), d+1)
			}
		}
		walk(fn, 0)
		for _, h := range tree {
			for _, in := range instrsOf(h) {
				switch x := in.(type) {
				case *ssa.BinOp:
					if x.Op == token.ADD && isStringType(x.Type()) {
						if !isConstText(x.X) || !isConstText(x.Y) {
							bad = "string concatenation at " + p.InstrPos(x)
						}
					}
				case *ssa.Call:
					if core.CalleeName(x) == "builtin:append" && len(x.Call.Args) == 2 && isStringType(x.Call.Args[1].Type()) {
						if !isConstText(x.Call.Args[1]) {
							bad = "append of a string's bytes at " + p.InstrPos(x)
						}
					}
					if core.CalleeName(x) == "builtin:copy" && len(x.Call.Args) == 2 && isStringType(x.Call.Args[1].Type()) {
						if !isConstText(x.Call.Args[1]) {
							bad = "copy of a string's bytes at " + p.InstrPos(x)
						}
					}
				case *ssa.Convert:
					if isByteSlice(x.Type()) && isStringType(x.X.Type()) {
						if !isConstText(x.X) {
							bad = "conversion of a string to bytes at " + p.InstrPos(x)
						}
					}
				}
			}
		}
		r.Check(bad == "", rule, core.FuncName(fn), "variable-text-only-through-json.Marshal", p.Pos(fn.Pos()), "no hand-quoted variable text in the marshaler", "the marshaler puts variable text into its output without the JSON encoder ("+bad+"): a backslash, a quote, a control character or invalid UTF-8 in the value (all possible in a valid resource id, whose query part is free text) makes the enclosing message malformed or changes the value it decodes to")
	}
	if n == 0 {
		r.Unres(rule, "MarshalJSON", "no json.Marshaler in the root package")
	}
}

// predicateImplies: what a true answer of the bool predicate cal says about its
// string parameter prm - on every way to a true result the parameter was found
// non-empty, and the validator accepted it.
func predicateImplies(cal *ssa.Function, prm *ssa.Parameter, validator string) (nonEmpty, valid bool) {
	if cal.Signature.Results().Len() != 1 {
		return false, false
	}
	isValidatorCall := func(v ssa.Value) bool {
		c, ok := v.(*ssa.Call)
		if !ok {
			return false
		}
		vc := c.Common().StaticCallee()
		return vc != nil && vc.Name() == validator && len(c.Common().Args) > 0 && c.Common().Args[0] == ssa.Value(prm)
	}
	nonEmpty, valid = true, true
	n := 0
	for _, ret := range core.Returns(cal) {
		for _, src := range phiSources(ret.Results[0]) {
			if isConstBool(src.V, false) {
				continue
			}
			n++
			ne, va := false, isValidatorCall(src.V)
			for _, ed := range srcEdges(ret, src) {
				cnd, succ := ed.Norm()
				if isValidatorCall(cnd) && succ == 0 {
					va = true
				}
				bo, ok := cnd.(*ssa.BinOp)
				if !ok {
					continue
				}
				x, y := bo.X, bo.Y
				if _, isC := x.(*ssa.Const); isC {
					x, y = y, x
				}
				if sv, isC := core.ConstString(y); isC && sv == "" && x == ssa.Value(prm) {
					if (bo.Op == token.EQL && succ == 1) || (bo.Op == token.NEQ && succ == 0) {
						ne = true
					}
				}
				if lc, isCall := x.(*ssa.Call); isCall && core.CalleeName(lc) == "builtin:len" && lc.Common().Args[0] == ssa.Value(prm) {
					if k, isC := core.ConstInt(y); isC {
						switch {
						case k == 0 && ((bo.Op == token.EQL && succ == 1) || (bo.Op == token.NEQ && succ == 0) || (bo.Op == token.GTR && succ == 0) || (bo.Op == token.LEQ && succ == 1)):
							ne = true
						case k == 1 && ((bo.Op == token.LSS && succ == 1) || (bo.Op == token.GEQ && succ == 0)):
							ne = true
						}
					}
				}
			}
			if !isConstBool(src.V, true) && !isValidatorCall(src.V) {
				// some other value decides: nothing is implied
				ne, va = false, false
			}
			nonEmpty = nonEmpty && ne
			valid = valid && va
		}
	}
	if n == 0 {
		return false, false
	}
	return nonEmpty, valid
}
