package props

import (
	"fmt"
	"go/token"
	"go/types"
	"strings"

	"golang.org/x/tools/go/ssa"

	"resverif/core"
)

func init() { register("C15", c15) }

// sharedLoopCaptures finds closures created inside a loop that capture a
// variable cell allocated outside the loop and re-assigned inside it.
type loopCapture struct {
	mc   *ssa.MakeClosure
	cell *ssa.Alloc
}

func sharedLoopCaptures(fn *ssa.Function) []loopCapture {
	var out []loopCapture
	for _, b := range fn.Blocks {
		for _, in := range b.Instrs {
			mc, ok := in.(*ssa.MakeClosure)
			if !ok || !core.Reaches(mc, mc) {
				continue
			}
			for _, bd := range mc.Bindings {
				al, ok := bd.(*ssa.Alloc)
				if !ok || core.Reaches(al, al) {
					continue // fresh cell per iteration
				}
				// re-assigned inside the loop that contains the closure creation?
				if al.Referrers() == nil {
					continue
				}
				for _, rf := range *al.Referrers() {
					if st, ok := rf.(*ssa.Store); ok && st.Addr == ssa.Value(al) && core.Reaches(st, st) && core.Reaches(st, mc) && core.Reaches(mc, st) {
						out = append(out, loopCapture{mc, al})
						break
					}
				}
			}
		}
	}
	return out
}

func c15(r *core.Run) {
	p := r.P
	r.Explanation = "Query-event lifecycle obligations: flag-sensitive must-reply over query request handling (every return has replied, for every callback behaviour); the listener and the expiry both enter the resource's group through enqueue; the nil callback has exactly two sources on mutually exclusive paths (failed subscribe: direct call, nothing published, return; expiry: the timer queue's only callback, enqueued) and a stored subscription is always registered for expiry; the inbox subject subscribed, published and generated is one value; closures handed to the queue from a loop do not capture a variable the loop re-assigns; and every goroutine the library starts that ranges over a channel has a reachable close of that channel (the query listener's channel is never closed: known finding). Timing of late requests versus the drain is not decided."
	r.NotDecided = []string{"timing of late requests relative to the drain", "that nats.Subscription.Drain eventually stops delivery (third party)"}
	r.Assumptions = []string{"timerqueue calls its callback once per added item after the duration", "channel range ends only when the channel is closed"}

	r.Rule("R1", "must-reply: every return of query request handling has replied (state Yes) whatever the callback does; the handler-runner's panics are recovered", 3)
	r.Rule("Q1", "missing query is an error: in query request handling the call that runs the event's callback is reached only on paths where the decoded query was tested non-empty; the test does not depend on the payload being non-empty", 1)
	r.Rule("G1", "group funnel: the listener forwards each request through enqueue with the resource's group, and the expiry enqueues the nil call with the resource's group", 2)
	r.Rule("N1", "nil callback: cb(nil) is called directly only on the failed-subscribe edge (which publishes nothing and returns) and otherwise only inside the closure the expiry function enqueues; the expiry function is the timer queue's callback; the expiry drains the subscription before enqueueing", 5)
	r.Rule("T1", "configured duration: the timer queue that expires query events is (re)built unconditionally in serve's initialisation, before the workers start, with the duration field that SetQueryEventDuration stores; a queue kept from a previous run would keep that run's duration", 1)
	r.Rule("S1", "fresh subject, registered for expiry: the subject subscribed, the subject published in the query event and the NewInbox result are one value; on the success edge the query event is added to the timer queue on every path", 3)
	r.Rule("C1", "per-iteration capture: a closure created in a loop does not capture a variable that the loop re-assigns (go.mod selects per-loop variable semantics)", 1)
	r.Rule("L2", "no send on a closed query channel: a close of the channel a query-event subscription delivers to happens only after that subscription was removed synchronously (Subscription.Unsubscribe dominates the close); Drain only starts the removal - until the server has processed it the client's reader still sends in-flight query requests to the channel, and a send on a closed channel panics on a goroutine nothing recovers", 1)
	r.Rule("L1", "listener termination: every goroutine started by the library that ranges over a channel has a close of that channel reachable in library code", 2)

	root := p.FuncsOfPkg("")
	a := resolveSvc(r, "G1")
	if !a.ok {
		return
	}
	models := c04Models(r, "R1")
	mQ := models["queryRequest"]
	r.Rule("Q2", "a missing query is seen as missing: the request payload is decoded into a zero value made for that request (a local variable), not into a buffer kept in the query event - encoding/json leaves members the payload does not mention as they were, so a request without a query would inherit the query of the request before it", 1)
	r.Rule("R2", "at most one response per query request (shared with C04.R0): the replied flag of the query request is written only in its reply funnel, where the store of true lies on the false edge of a test of the flag and dominates the single Conn.Publish - every reply method, including the ones that send a constant payload, goes through that test", 3)
	c04ReplyFunnel(r, "R2", "queryRequest", models, p.FuncsOfPkg(""), map[*ssa.Function]bool{})
	// roles: QueryEvent is the public entry point; the listener is the queryEvent method it starts
	// with go; the request handler is the queryEvent method that takes the NATS message
	qev := methodNamed(p, "", "resource", "QueryEvent")
	var hq, lst *ssa.Function
	if qev != nil {
		for _, f2 := range p.Scope(qev) {
			for _, c := range core.Calls(f2) {
				if cal := c.Common().StaticCallee(); core.IsGo(c) && cal != nil && cal.Signature.Recv() != nil && isPtrTo(cal.Signature.Recv().Type(), "queryEvent") {
					lst = cal
				}
			}
		}
	}
	// (several methods may take the message - a helper that queues it, one that builds the request
	// object -: the request handler is the one that is run from a queued closure)
	var msgMethods []*ssa.Function
	for _, m := range methodsOf(p, "", "queryEvent") {
		if m == lst || m.Parent() != nil {
			continue
		}
		for _, prm := range m.Params[1:] {
			if strings.HasSuffix(core.TypeName(prm.Type()), "nats.go.Msg") {
				msgMethods = append(msgMethods, m)
				break
			}
		}
	}
	for _, m := range msgMethods {
		fromClosure := false
		for _, c := range p.CallersOf(m) {
			if c.Parent().Parent() != nil {
				fromClosure = true
			}
		}
		if fromClosure || len(msgMethods) == 1 {
			hq = m
		}
	}
	if mQ == nil || hq == nil || lst == nil || qev == nil {
		r.Unres("R1", "queryRequest model / handleQueryRequest / startQueryListener / QueryEvent", "missing")
		return
	}
	freshDecodeRule(r, "Q2", hq, "query request handling", false)

	// ---- R1 --------------------------------------------------------------
	// ---- Q1 --------------------------------------------------------------
	// the callback runs only for a request that carries a query: typestate 1 = the decoded query
	// was seen non-empty; the call that runs the callback needs it on every path (an empty payload
	// skips the decoding, not the test)
	{
		var qfld core.Field
		if st, ok := structType(p, "", "resQueryRequest"); ok {
			for i := 0; i < st.NumFields(); i++ {
				if isStringType(st.Field(i).Type()) {
					qfld = core.Field{Struct: "resQueryRequest", Name: st.Field(i).Name()}
				}
			}
		}
		var runs []ssa.CallInstruction
		for _, c := range helperCalls(p, hq) {
			cal := c.Common().StaticCallee()
			if cal == nil || cal.Pkg != hq.Pkg {
				continue
			}
			// the call that hands the event's callback on (to the function that invokes it)
			for _, a := range c.Common().Args {
				if f, ok := core.LoadedField(a); ok && strings.HasSuffix(f.Struct, "queryEvent") {
					if _, isSig := a.Type().Underlying().(*types.Signature); isSig {
						runs = append(runs, c)
					}
				}
			}
		}
		fl := &core.Flow{Fn: hq, Entry: core.StateSet(0).Add(0), Tags: true, Inline: func(cal *ssa.Function) bool { return p.IsPrivateHelper(cal) && cal.Pkg == hq.Pkg }}
		// the decoded query may reach the test as a result of a decoding helper: every return of
		// the helper yields the query field or the empty string
		isQuery := func(v ssa.Value) bool {
			var call *ssa.Call
			idx := 0
			switch x := core.Strip(v).(type) {
			case *ssa.Extract:
				call, _ = x.Tuple.(*ssa.Call)
				idx = x.Index
			case *ssa.Call:
				call = x
			}
			if call == nil {
				return false
			}
			cal := call.Common().StaticCallee()
			if cal == nil || len(cal.Blocks) == 0 || cal.Pkg != hq.Pkg {
				return false
			}
			n, fromField := 0, false
			for _, ret := range core.Returns(cal) {
				if idx >= len(ret.Results) {
					return false
				}
				n++
				for _, src := range phiSources(ret.Results[idx]) {
					if sv, isC := core.ConstString(src.V); isC && sv == "" {
						continue
					}
					if f, ok := core.LoadedField(src.V); ok && f == qfld {
						fromField = true
						continue
					}
					return false
				}
			}
			return n > 0 && fromField
		}
		fl.BranchOn = func(cond ssa.Value, succ int, st int) (int, bool) {
			ci := core.Cond(cond)
			if ci.Kind == "constcmp" && ((ci.HasFld && ci.Field == qfld) || isQuery(ci.X)) && ci.Const != nil && ci.Const.ExactString() == `""` {
				truth := succ == 0
				if ci.Negate {
					truth = !truth
				}
				if (ci.Op == token.NEQ) == truth {
					return 1, true
				}
			}
			return st, true
		}
		fl.Branch = func(iff *ssa.If, succ int, st int) (int, bool) { return fl.BranchOn(iff.Cond, succ, st) }
		resQ := fl.Run()
		if qfld.Name == "" || len(runs) == 0 {
			r.Unres("Q1", "resQueryRequest.<query> / callback hand-over", fmt.Sprintf("query field resolved=%v, calls handing the callback on=%d", qfld.Name != "", len(runs)))
		}
		for _, c := range runs {
			st := resQ.Before[c]
			r.Check(!st.Empty() && st.Only(1), "Q1", core.FuncName(hq), "callback-only-for-a-non-empty-query", p.InstrPos(c), "every path to the callback saw a non-empty query", "a query request can reach the callback without its query having been tested non-empty (e.g. an empty payload): it is answered as if it carried the event creator's query instead of the missing-query error")
		}
	}
	res := mQ.flow(hq, core.StateSet(0).Add(stNo))
	for _, ret := range core.Returns(hq) {
		st := res.Before[ret]
		if st.Empty() {
			continue
		}
		var conds []string
		for _, ed := range dominatingEdges(ret) {
			conds = append(conds, describeCond(ed))
		}
		if !st.Only(stYes) && onNoReplySubjectEdge(ret) {
			r.ExemptObl("R1", core.FuncName(hq), "return:"+returnDesc(ret, conds), p.InstrPos(ret), "no reply subject: nothing to answer (the message is dropped before it becomes a request, C07.P2)")
			continue
		}
		r.Check(st.Only(stYes), "R1", core.FuncName(hq), "return:"+returnDesc(ret, conds), p.InstrPos(ret), "state=Yes on every path", "state="+stateStr(st)+": a query request can be left without a response on this path")
	}

	// ---- G1 --------------------------------------------------------------
	chkEnq := func(fn *ssa.Function, what string, wantCalleeIn func(cl *ssa.Function) bool) {
		found := false
		var scope []*ssa.Function
		for _, h := range p.Helpers(fn) {
			scope = append(scope, withAnon(h)...)
		}
		for _, f2 := range scope {
			for _, c := range core.Calls(f2) {
				if c.Common().StaticCallee() != a.Enqueue {
					continue
				}
				found = true
				g := c.Common().Args[1]
				gOK := false
				if gc, ok := g.(*ssa.Call); ok {
					if cal := gc.Common().StaticCallee(); cal != nil && cal.Name() == "Group" {
						if strings.Contains(fieldChain(gc.Common().Args[0], 0), "queryEvent.r") {
							gOK = true
						}
					}
				}
				// ... or the group member read directly (the accessor inlined)
				if f, ok := core.LoadedField(g); ok && f.Struct == "resource" && f.Name == resourceGroupField(g) && strings.Contains(fieldChain(g, 0), "queryEvent.r") {
					gOK = true
				}
				clOK := false
				if mc, ok := c.Common().Args[2].(*ssa.MakeClosure); ok {
					if cl, ok := mc.Fn.(*ssa.Function); ok {
						clOK = wantCalleeIn(cl)
					}
				}
				r.Check(gOK && clOK && !core.IsGo(c), "G1", core.FuncName(f2), what+"-enqueued-in-resource-group", p.InstrPos(c), "submitted through enqueue with the query resource's group", fmt.Sprintf("%s is not enqueued in the query resource's own group (group=%v, body=%v)", what, gOK, clOK))
			}
		}
		if !found {
			r.Bad("G1", core.FuncName(fn), what+"-enqueued-in-resource-group", p.Pos(fn.Pos()), what+" does not go through the per-group queue")
		}
	}
	// every message that reached the event's channel is forwarded: the listener waits on that channel
	// alone and leaves its loop only when the channel ends - a second exit (its own timer, a stop
	// channel picked at random by select) abandons the requests still buffered, which are then never
	// answered although they were received while the event was active
	{
		other := ""
		for _, h := range p.Helpers(lst) {
			for _, in := range instrsOf(h) {
				sel, ok := in.(*ssa.Select)
				if !ok {
					continue
				}
				for _, st := range sel.States {
					if !strings.HasSuffix(core.TypeName(st.Chan.Type()), ".Msg") {
						other = "select on " + core.TypeName(st.Chan.Type()) + " at " + p.InstrPos(sel)
					}
				}
				if !sel.Blocking {
					other = "non-blocking select at " + p.InstrPos(sel)
				}
			}
		}
		r.Check(other == "", "R1", core.FuncName(lst), "listener-leaves-only-with-the-channel", p.Pos(lst.Pos()), "the listener waits on the query channel alone", "the query listener can leave its loop while messages are still in the event's channel ("+other+"): query requests received while the event is active are dropped without a response")
	}
	chkEnq(lst, "query-request", func(cl *ssa.Function) bool {
		for _, c := range core.Calls(cl) {
			if c.Common().StaticCallee() == hq {
				return true
			}
		}
		return false
	})
	// "the resource's group" is the group of the resource the event was created on: the resource the
	// query event keeps is a copy of that resource as a whole, or a copy that carries its group
	{
		recv := qev.Params[0]
		nRes, bad := 0, ""
		for _, f2 := range p.Helpers(qev) {
			for _, in := range instrsOf(f2) {
				st, ok := in.(*ssa.Store)
				if !ok {
					continue
				}
				f, ok := core.FieldOf(st.Addr)
				if !ok || !strings.HasSuffix(f.Struct, "queryEvent") || core.TypeName(st.Val.Type()) != "resource" {
					continue
				}
				nRes++
				ld, isLd := st.Val.(*ssa.UnOp)
				if isLd {
					whole := true // r: *r, also when the literal is built in a helper handed the receiver
					srcs := paramArgs(p, ld.X, 0)
					for _, sv := range srcs {
						if core.Strip(sv) != ssa.Value(recv) {
							whole = false
						}
					}
					if whole && len(srcs) > 0 {
						continue
					}
				}
				// a literal: its group member must be the receiver's
				okGroup := false
				if isLd {
					if al, isAl := ld.X.(*ssa.Alloc); isAl && al.Referrers() != nil {
						for _, rf := range *al.Referrers() {
							fa, isFA := rf.(*ssa.FieldAddr)
							if !isFA || fa.Referrers() == nil {
								continue
							}
							if g, ok := core.FieldOf(fa); !ok || g.Name != "group" {
								continue
							}
							for _, r2 := range *fa.Referrers() {
								if s2, ok := r2.(*ssa.Store); ok && s2.Addr == ssa.Value(fa) {
									if lf, ok := core.LoadedField(s2.Val); ok && lf.Struct == "resource" && lf.Name == "group" {
										okGroup = true
									}
								}
							}
						}
					}
				}
				if !okGroup {
					bad = p.InstrPos(st)
				}
			}
		}
		if nRes == 0 {
			// the resource member filled in member by member (&queryEvent{r: resource{rname: ..., ...}})
			members := map[string]bool{}
			groupOK := false
			for _, f2 := range p.Helpers(qev) {
				for _, in := range instrsOf(f2) {
					st, ok := in.(*ssa.Store)
					if !ok {
						continue
					}
					fa, ok := st.Addr.(*ssa.FieldAddr)
					if !ok {
						continue
					}
					outer, ok := fa.X.(*ssa.FieldAddr)
					if !ok {
						continue
					}
					of, ok1 := core.FieldOf(outer)
					inf, ok2 := core.FieldOf(fa)
					if !ok1 || !ok2 || !strings.HasSuffix(of.Struct, "queryEvent") || inf.Struct != "resource" {
						continue
					}
					nRes++
					members[inf.Name] = true
					if inf.Name == "group" {
						if lf, ok := core.LoadedField(st.Val); ok && lf.Struct == "resource" && lf.Name == "group" {
							groupOK = true
						}
					}
				}
			}
			if nRes > 0 && !groupOK {
				bad = "member by member " + strings.Join(core.SortedKeys(members), ",") + " - without the group"
			}
		}
		r.Check(nRes > 0 && bad == "", "G1", core.FuncName(qev), "query-event-resource-carries-the-group", p.Pos(qev.Pos()), "the query event keeps a copy of the resource including its group", "the resource kept in the query event (stored "+bad+") is not the resource with its group: the listener and the expiry queue under an empty group id, i.e. every query callback becomes an independent work item - callbacks of one query event overlap each other, the resource's handlers and the final nil call")
	}
	// the expiry function by role: what the service hands to timerqueue.New as the callback
	var exp *ssa.Function
	for _, fn := range p.FuncsOfPkg("") {
		for _, c := range core.Calls(fn) {
			cal := c.Common().StaticCallee()
			if cal == nil || !strings.HasSuffix(cal.String(), "timerqueue.New") || len(c.Common().Args) == 0 {
				continue
			}
			switch x := core.Strip(c.Common().Args[0]).(type) {
			case *ssa.MakeClosure:
				if w, _ := x.Fn.(*ssa.Function); w != nil {
					if m := boundMethod(w); m != nil {
						exp = m
					} else {
						exp = w
					}
				}
			case *ssa.Function:
				exp = x
			}
		}
	}
	if exp == nil {
		exp = methodNamed(p, "", "Service", "queryEventExpire")
	}
	if exp == nil {
		r.Unres("G1", "queryEventExpire", "missing")
		return
	}
	cbF, okCb := fieldByType(p, "", "queryEvent", func(t types.Type) bool {
		sig, ok := t.Underlying().(*types.Signature)
		return ok && sig.Params().Len() == 1 && core.TypeName(sig.Params().At(0).Type()) == "QueryRequest"
	})
	if !okCb {
		r.Unres("G1", "queryEvent.<callback>", "no single field of type func(QueryRequest)")
		return
	}
	isNilCb := func(c ssa.CallInstruction) bool {
		if !core.IsDynamic(c) || len(c.Common().Args) != 1 || !isNilConst(c.Common().Args[0]) {
			return false
		}
		if f, ok := core.LoadedField(c.Common().Value); ok && f == cbF {
			return true
		}
		if callbackOrigin(c.Common().Value) != nil {
			return true
		}
		return false
	}
	chkEnq(exp, "expiry-nil-call", func(cl *ssa.Function) bool {
		n := 0
		for _, c := range core.Calls(cl) {
			if isNilCb(c) {
				n++
			}
		}
		return n == 1
	})

	// ---- N1 --------------------------------------------------------------
	mp := mayPublish(p)
	isPub := func(in ssa.Instruction) bool {
		c, ok := in.(ssa.CallInstruction)
		if !ok {
			return false
		}
		cal := c.Common().StaticCallee()
		return cal != nil && mp[cal]
	}
	nDirect := 0
	for _, fn := range root {
		for _, c := range core.Calls(fn) {
			if !isNilCb(c) {
				continue
			}
			// the failed-subscribe step may sit in a small helper QueryEvent calls on that edge
			var at ssa.Instruction = c
			inQev := fn == qev
			if site := queryEventAbortHelper(p, fn); site != nil && site.Parent() == qev {
				at, inQev = site, true
				if ok, _ := edgeAvoids(c.Block(), isPub); !ok {
					inQev = false
				}
			}
			switch {
			case inQev:
				nDirect++
				// on the subscribe-error edge, no publish reachable, return follows
				onErr := false
				for _, ed := range dominatingEdges(at) {
					d := describeCond(ed)
					if strings.Contains(d, "ChanSubscribe") && strings.HasSuffix(d, "!=nil") {
						onErr = true
					}
				}
				noPub, _ := edgeAvoids(at.Block(), isPub)
				noAdd, _ := edgeAvoids(at.Block(), func(in ssa.Instruction) bool {
					cc, ok := in.(ssa.CallInstruction)
					return ok && cc.Common().StaticCallee() != nil && strings.HasSuffix(cc.Common().StaticCallee().String(), "timerqueue.Queue).Add")
				})
				r.Check(onErr && noPub && noAdd, "N1", core.FuncName(fn), "direct-nil-call-only-on-failed-subscribe", p.InstrPos(c), "failed subscribe: callback gets nil once, nothing is published, no expiry is registered", fmt.Sprintf("direct nil call misplaced: onSubscribeErrorEdge=%v publishesNothing=%v noExpiryRegistered=%v", onErr, noPub, noAdd))
			case fn.Parent() != nil && (core.Outermost(fn) == exp || p.Within(core.Outermost(fn), exp)):
				r.OK("N1", core.FuncName(fn), "nil-call-inside-enqueued-expiry-closure", p.InstrPos(c), "the expiry's nil call runs on the group's worker")
			default:
				r.Bad("N1", core.FuncName(fn), "unexpected-nil-callback-source", p.InstrPos(c), "a third place calls the query callback with nil: it could be invoked with nil twice")
			}
		}
	}
	r.Check(nDirect == 1, "N1", core.FuncName(qev), "exactly-one-direct-nil-call", p.Pos(qev.Pos()), "one direct nil call (failed subscribe)", fmt.Sprintf("%d direct nil calls in QueryEvent", nDirect))
	// expiry is the timer queue's callback
	serve := a.Serve
	tqOK := false
	for _, c := range helperCalls(p, serve) {
		if cal := c.Common().StaticCallee(); cal != nil && strings.HasSuffix(cal.String(), "timerqueue.New") {
			if mc, ok := core.Strip(c.Common().Args[0]).(*ssa.MakeClosure); ok {
				if f, ok := mc.Fn.(*ssa.Function); ok && strings.HasPrefix(f.Name(), exp.Name()) {
					tqOK = true
				}
			}
		}
	}
	// T1: per-run timer queue with the configured duration
	{
		durF, okD := setterField(p, "", "Service", "SetQueryEventDuration", 0)
		firstGo := firstWorkerStart(p, a)
		good, why := false, "no timerqueue.New in serve"
		for _, c := range helperCalls(p, serve) {
			cal := c.Common().StaticCallee()
			if cal == nil || !strings.HasSuffix(cal.String(), "timerqueue.New") {
				continue
			}
			argOK := false
			if len(c.Common().Args) > 1 {
				if f, ok := core.LoadedField(c.Common().Args[1]); ok && okD && f == durF {
					argOK = true
				}
			}
			stored := false
			// (the queue may be made by a small constructor helper whose result serve stores)
			made := []ssa.Value{c.Value()}
			if c.Value() != nil && c.Value().Referrers() != nil {
				for _, rf := range *c.Value().Referrers() {
					if ret, ok := rf.(*ssa.Return); ok && len(ret.Results) == 1 && p.IsPrivateHelper(c.Parent()) {
						for _, cs := range p.CallersOf(c.Parent()) {
							if cs.Value() != nil {
								made = append(made, cs.Value())
							}
						}
					}
				}
			}
			for _, mv := range made {
				if mv == nil || mv.Referrers() == nil {
					continue
				}
				for _, rf := range *mv.Referrers() {
					if st, ok := rf.(*ssa.Store); ok {
						if _, isF := core.FieldOf(st.Addr); isF && beforeWorkers(p, a, st, firstGo) && (st.Parent() == serve || unconditionalIn(st)) {
							stored = true
						}
					}
				}
			}
			good = argOK && stored
			why = fmt.Sprintf("duration-arg-is-configured-field=%v stored-unconditionally-before-workers=%v", argOK, stored)
		}
		r.Check(good, "T1", core.FuncName(serve), "timer-queue-rebuilt-per-run-with-configured-duration", p.Pos(serve.Pos()), "every run builds its expiry queue from the configured duration before any worker starts", "the query-event expiry queue is not rebuilt unconditionally from the configured duration ("+why+"): after Shutdown, SetQueryEventDuration and a new Serve the old duration is still in force, so query events expire too early (late requests unanswered) or too late")
	}
	r.Check(tqOK, "N1", core.FuncName(serve), "expiry-is-the-timer-queue-callback", p.Pos(serve.Pos()), "the timer queue is created with the expiry function", "the timer queue's callback is not the expiry function")
	// drain before enqueue
	var drain, enq ssa.CallInstruction
	for _, c := range helperCalls(p, exp) { // the two steps may each sit in a small helper of the expiry
		if cal := c.Common().StaticCallee(); cal != nil && cal.Name() == "Drain" {
			drain = c
		}
		if c.Common().StaticCallee() == a.Enqueue {
			enq = c
		}
	}
	r.Check(drain != nil && enq != nil && p.DominatesIn(exp, drain, enq), "N1", core.FuncName(exp), "drain-before-nil-call-enqueued", posOf(p, drain), "the subscription is drained before the final nil call is queued", "the expiry does not drain the subscription before queueing the nil call")
	// ... and the nil call is queued whatever the drain returns: the end of the query event is owed to
	// the callback exactly once, also when the subscription is already gone (connection closed,
	// service restarted on another connection)
	enqAlways := enq != nil && unconditionalIn(enq)
	if enqAlways && enq.Parent() != exp {
		for _, site := range p.Lift(enq, exp) {
			if !unconditionalIn(site) {
				enqAlways = false
			}
		}
	}
	r.Check(enqAlways, "N1", core.FuncName(exp), "nil-call-enqueued-on-every-path", posOf(p, enq), "every path through the expiry queues the nil call", "the expiry can return without queueing the nil call (for instance when draining the subscription fails): the callback is never told that the query event ended")

	// ---- S1 --------------------------------------------------------------
	var inbox, subCall, pub, add ssa.CallInstruction
	for _, c := range core.Calls(qev) {
		cc := c.Common()
		if cal := cc.StaticCallee(); cal != nil {
			if strings.HasSuffix(cal.String(), "nats.go.NewInbox") {
				inbox = c
			}
			if strings.HasSuffix(cal.String(), "timerqueue.Queue).Add") {
				add = c
			}
			if mp[cal] {
				pub = c
			}
		}
		if cc.IsInvoke() && cc.Method.Name() == "ChanSubscribe" {
			subCall = c
		}
	}
	if inbox == nil || subCall == nil || pub == nil || add == nil {
		if inbox == nil && subCall != nil {
			r.Bad("S1", core.FuncName(qev), "subject-is-a-fresh-NewInbox", p.InstrPos(subCall), "the query subject is not the result of nats.NewInbox() obtained for this query event (subscribed on "+valDesc(subCall.Common().Args[0])+"): a subject built from shared state can repeat, so two query events share a subject - a query request is answered twice and reaches the wrong callback")
		} else {
			r.Bad("S1", core.FuncName(qev), "anchors", p.Pos(qev.Pos()), fmt.Sprintf("inbox=%v subscribe=%v publish=%v add=%v", inbox != nil, subCall != nil, pub != nil, add != nil))
		}
	} else {
		sameSub := subCall.Common().Args[0] == inbox.Value()
		// published payload: struct whose Subject field is the inbox
		pubOK := false
		for _, f2 := range p.Helpers(qev) { // the payload may be built by a helper that is handed the subject
			for _, b := range f2.Blocks {
				for _, in := range b.Instrs {
					if st, ok := in.(*ssa.Store); ok {
						if f, ok := core.FieldOf(st.Addr); ok && f.Name == "Subject" && (st.Val == inbox.Value() || originOf(p, st.Val) == inbox.Value()) {
							pubOK = true
						}
					}
				}
			}
		}
		r.Check(sameSub && pubOK, "S1", core.FuncName(qev), "subject:NewInbox==subscribed==published", p.InstrPos(inbox), "one fresh inbox value is subscribed and announced", fmt.Sprintf("inbox value mismatch: subscribed=%v published=%v", sameSub, pubOK))
		// Add on every success path: dominated by success edge and every return after the publish is dominated by Add
		// typestate: 1 = published and not yet registered; no return may be reached in that state
		addOK := true
		{
			fl := &core.Flow{Fn: qev, Entry: core.StateSet(0).Add(0)}
			fl.Transfer = func(in ssa.Instruction, st int) core.StateSet {
				switch {
				case in == ssa.Instruction(pub):
					return core.StateSet(0).Add(1)
				case in == ssa.Instruction(add) && st == 1:
					return core.StateSet(0).Add(2)
				}
				return core.StateSet(0).Add(st)
			}
			res := fl.Run()
			for _, ret := range core.Returns(qev) {
				if res.Before[ret].Has(1) {
					addOK = false
				}
			}
		}
		r.Check(addOK && core.Dominates(pub, add), "S1", core.FuncName(qev), "registered-for-expiry-on-every-success-path", p.InstrPos(add), "a published query event is always added to the timer queue", "a query event can be published without being registered for expiry (callback never gets nil, subscription never drained)")
		// the listener is started for the stored event
		goOK := false
		for _, c := range core.Calls(qev) {
			if core.IsGo(c) && c.Common().StaticCallee() == lst && core.Dominates(subCall, c) {
				goOK = true
			}
		}
		r.Check(goOK, "S1", core.FuncName(qev), "listener-started-after-subscribe", p.Pos(qev.Pos()), "the listener goroutine is started for the subscribed channel", "no listener goroutine is started")
	}

	// ---- C1 --------------------------------------------------------------
	nLoopCl := 0
	for _, rel := range core.LibPkgs {
		for _, fn := range p.FuncsOfPkg(rel) {
			for _, b := range fn.Blocks {
				for _, in := range b.Instrs {
					if mc, ok := in.(*ssa.MakeClosure); ok && core.Reaches(mc, mc) {
						nLoopCl++
					}
				}
			}
			for _, lc := range sharedLoopCaptures(fn) {
				// only closures that outlive the iteration matter: passed to a call (enqueue, go, Do, ...)
				escapes := false
				if lc.mc.Referrers() != nil {
					for _, rf := range *lc.mc.Referrers() {
						switch rf.(type) {
						case *ssa.Call, *ssa.Go, *ssa.Defer, *ssa.Store, *ssa.MapUpdate:
							escapes = true
						}
					}
				}
				if escapes {
					r.Bad("C1", core.FuncName(fn), "loop-closure-captures-reassigned-variable:"+lc.cell.Comment, p.InstrPos(lc.mc), "a closure created in a loop and handed on captures variable '"+lc.cell.Comment+"', which the loop overwrites on the next iteration (the module's go directive gives per-loop variables): two queued callbacks see the same, latest value - one request is handled twice, another never, and the variable is raced on")
				}
			}
		}
	}
	r.Analysed["closures_created_in_loops"] = nLoopCl
	r.OKTrivial("C1", "library", "closures-in-loops-scanned", "-", fmt.Sprintf("%d closures created in loops scanned for shared captured variables", nLoopCl))

	c15CloseAfterUnsubscribe(r, "L2")
	// ---- L1 --------------------------------------------------------------
	closedFields := map[core.Field]bool{}
	for _, fn := range root {
		for _, c := range core.Calls(fn) {
			if core.CalleeName(c) == "builtin:close" {
				if f, ok := core.LoadedField(c.Common().Args[0]); ok {
					closedFields[f] = true
				}
			}
		}
	}
	for _, fn := range root {
		for _, c := range core.Calls(fn) {
			cal := c.Common().StaticCallee()
			if cal == nil || cal.Pkg != fn.Pkg && cal.Pkg != nil && core.Outermost(fn).Pkg != cal.Pkg {
				continue
			}
			// functions that range over a channel
			var chans []ssa.Value
			for _, b := range cal.Blocks {
				for _, in := range b.Instrs {
					if u, ok := in.(*ssa.UnOp); ok && u.Op == token.ARROW && u.CommaOk && core.Reaches(u, u) {
						chans = append(chans, u.X)
					}
				}
			}
			if len(chans) == 0 {
				continue
			}
			// is this function run as a goroutine body or the serve loop? consider every caller: the loop must be able to end
			for _, ch := range chans {
				var fld core.Field
				ok := false
				if f, isF := core.LoadedField(ch); isF {
					fld, ok = f, true
				} else if prm, isP := ch.(*ssa.Parameter); isP {
					// the argument at this call site is stored into a field in the caller
					idx := -1
					for i, q := range cal.Params {
						if q == prm {
							idx = i
						}
					}
					arg := c.Common().Args[idx]
					for _, b := range fn.Blocks {
						for _, in := range b.Instrs {
							if st, isSt := in.(*ssa.Store); isSt && st.Val == arg {
								if f, isF := core.FieldOf(st.Addr); isF {
									fld, ok = f, true
								}
							}
						}
					}
					if !ok {
						// the caller is itself a private helper that was handed the channel: follow the
						// parameters up to the value's origin and look for the store of that value
						one := func(v ssa.Value) ssa.Value { return originOf(p, v) }
						if root := one(arg); root != nil && root != arg {
							for _, f2 := range p.FuncsOfPkg("") {
								for _, b := range f2.Blocks {
									for _, in := range b.Instrs {
										if st, isSt := in.(*ssa.Store); isSt && one(st.Val) == root {
											if f, isF := core.FieldOf(st.Addr); isF {
												fld, ok = f, true
											}
										}
									}
								}
							}
						}
					}
				}
				if !ok {
					// a channel created in the ranging function itself and published through a field
					for _, b := range cal.Blocks {
						for _, in := range b.Instrs {
							if st, isSt := in.(*ssa.Store); isSt && st.Val == ch {
								if f, isF := core.FieldOf(st.Addr); isF {
									fld, ok = f, true
								}
							}
						}
					}
				}
				kind := "call"
				if core.IsGo(c) {
					kind = "go"
				}
				if !ok {
					r.Undec("L1", core.FuncName(fn), kind+":"+core.FuncName(cal)+":channel-unresolved", p.InstrPos(c), "cannot tie the ranged channel to a field")
					continue
				}
				calName, fldName := core.FuncName(cal), fld.String()
				if cal == lst {
					calName = "<query-listener>" // role labels: keep the known finding's key stable under renaming
					if strings.HasSuffix(fld.Struct, "queryEvent") {
						fldName = "<query-channel>"
					}
				}
				r.Check(closedFields[fld], "L1", core.FuncName(fn), kind+":"+calName+":ranges-"+fldName, p.InstrPos(c), "the channel is closed somewhere in the library, so the loop can end", "the function ranges over "+fld.String()+" which no library code ever closes: every expired query event leaves its listener goroutine (and channel) parked forever")
			}
		}
	}
}

// c15CloseAfterUnsubscribe: see rule L2. The channel is any chan-typed member of
// queryEvent; the subscription its *nats.Subscription member.
func c15CloseAfterUnsubscribe(r *core.Run, rule string) {
	p := r.P
	n := 0
	for _, fn := range p.FuncsOfPkg("") {
		for _, c := range core.Calls(fn) {
			if core.CalleeName(c) != "builtin:close" {
				continue
			}
			f, ok := core.LoadedField(c.Common().Args[0])
			if !ok || f.Struct != "queryEvent" {
				continue
			}
			n++
			synced := false
			for _, c2 := range core.Calls(fn) {
				cal := c2.Common().StaticCallee()
				if cal == nil || cal.Name() != "Unsubscribe" || cal.Signature.Recv() == nil || core.TypeName(cal.Signature.Recv().Type()) != "Subscription" {
					continue
				}
				if sf, ok := core.LoadedField(c2.Common().Args[0]); ok && sf.Struct == "queryEvent" && core.Dominates(c2, c) && !core.IsGo(c2) && !core.IsDefer(c2) {
					synced = true
				}
			}
			r.Check(synced, rule, core.FuncName(fn), "close(<query-channel>)-after-Unsubscribe", p.InstrPos(c), "the subscription was removed synchronously before its channel is closed", "the query event's channel is closed while its subscription can still deliver (no Subscription.Unsubscribe before the close; Drain is asynchronous): a query request in flight at that moment makes the client's reader send on a closed channel - a panic that takes the whole process down")
		}
	}
	if n == 0 {
		r.OKTrivial(rule, "queryEvent", "query-channel-never-closed", "-", "no library code closes a query-event channel (the leak that follows is L1's known finding)")
	}
}
