package props

import (
	"fmt"
	"go/token"
	"go/types"
	"sort"
	"strings"

	"golang.org/x/tools/go/ssa"

	"resverif/core"
)

func init() { register("C11", c11) }

var storePkgs = []string{"store/badgerstore", "store/mockstore"}

func methodNamed(p *core.Prog, rel, tname, name string) *ssa.Function {
	for _, fn := range methodsOf(p, rel, tname) {
		if fn.Name() == name {
			return fn
		}
	}
	return nil
}

// loadsGlobal reports whether any function in fns loads the global pkgSuffix.name.
func loadsGlobal(fns []*ssa.Function, pkgSuffix, name string) (bool, ssa.Instruction) {
	for _, fn := range fns {
		for _, b := range fn.Blocks {
			for _, in := range b.Instrs {
				if u, ok := in.(*ssa.UnOp); ok && u.Op == token.MUL {
					if g, ok := u.X.(*ssa.Global); ok && g.Name() == name && g.Pkg != nil && strings.HasSuffix(g.Pkg.Pkg.Path(), pkgSuffix) {
						return true, in
					}
				}
			}
		}
	}
	return false, nil
}

// returnsGlobal: some Return in fns has a result that is (a phi containing) a load of global name.
// c11ClosedByHelper: rel (in fn) is dominated by the nil edge of a test of the
// error result of a private helper h; every return of h that can yield nil lies
// on the flag-clear edge of a test of the closed flag and after a store of true
// into it; every other return yields a non-nil error.
func c11ClosedByHelper(p *core.Prog, fn *ssa.Function, rel ssa.Instruction, closedF core.Field) (guard, sets bool) {
	for _, ed := range dominatingEdges(rel) {
		ci := core.Cond(ed.If.Cond)
		if ci.Kind != "nilcmp" {
			continue
		}
		truth := ed.Succ == 0
		if ci.Negate {
			truth = !truth
		}
		if (ci.Op == token.EQL) != truth {
			continue // not the nil edge
		}
		call, ok := ci.X.(*ssa.Call)
		if !ok {
			continue
		}
		h := call.Common().StaticCallee()
		if h == nil || len(h.Blocks) == 0 || !p.IsPrivateHelper(h) || h.Signature.Results().Len() != 1 {
			continue
		}
		g, s, n := true, true, 0
		for _, ret := range core.Returns(h) {
			if h.Recover != nil && ret.Block() == h.Recover {
				continue
			}
			mayNil := false
			for _, lf := range valueLeaves(ret.Results[0], nil, 0) {
				if c, isC := lf.V.(*ssa.Const); isC && c.IsNil() {
					mayNil = true
				}
				switch y := lf.V.(type) {
				case *ssa.Const, *ssa.MakeInterface:
				case *ssa.Call:
					if cn := core.CalleeName(y); cn != "errors.New" && cn != "fmt.Errorf" {
						mayNil = true
					}
				default:
					if _, isG := loadedGlobal(lf.V); !isG { // a package-level error sentinel
						mayNil = true // not known to be an error value
					}
				}
			}
			if !mayNil {
				continue
			}
			n++
			onClear, stored := false, false
			for _, he := range dominatingEdges(ret) {
				cnd, succ := he.Norm()
				if f, ok := core.LoadedField(cnd); ok && f == closedF && succ == 1 {
					onClear = true
				}
			}
			for _, b := range h.Blocks {
				for _, in := range b.Instrs {
					if st, ok := in.(*ssa.Store); ok && isConstBool(st.Val, true) {
						if f, ok := core.FieldOf(st.Addr); ok && f == closedF && core.Dominates(st, ret) {
							stored = true
						}
					}
				}
			}
			g, s = g && onClear, s && stored
		}
		if n > 0 && (g || s) {
			return g, s
		}
	}
	// the same protocol in a bool helper (`if !t.finish() { return errClosed }`): the release sits on
	// the edge where the helper answered b, and it answers b only where the flag was clear and has
	// been set
	for _, ed := range dominatingEdges(rel) {
		cnd, succ := ed.Norm()
		call, ok := cnd.(*ssa.Call)
		if !ok {
			continue
		}
		h := call.Common().StaticCallee()
		if h == nil || len(h.Blocks) == 0 || !p.IsPrivateHelper(h) || h.Signature.Results().Len() != 1 {
			continue
		}
		want := succ == 0
		g, s, n := true, true, 0
		for _, ret := range core.Returns(h) {
			for _, src := range phiSources(ret.Results[0]) {
				if isConstBool(src.V, !want) {
					continue
				}
				n++
				onClear, stored := false, false
				for _, he := range srcEdges(ret, src) {
					c2, s2 := he.Norm()
					if f, ok := core.LoadedField(c2); ok && f == closedF && s2 == 1 {
						onClear = true
					}
				}
				for _, b := range h.Blocks {
					for _, in := range b.Instrs {
						if st, ok := in.(*ssa.Store); ok && isConstBool(st.Val, true) {
							if f, ok := core.FieldOf(st.Addr); ok && f == closedF && core.Dominates(st, ret) {
								stored = true
							}
						}
					}
				}
				g, s = g && onClear, s && stored
			}
		}
		if n > 0 && g && s {
			return g, s
		}
	}
	return false, false
}

func returnsGlobal(fns []*ssa.Function, name string) (bool, ssa.Instruction) {
	var has func(v ssa.Value, d int) bool
	has = func(v ssa.Value, d int) bool {
		if d > 4 {
			return false
		}
		v = core.Strip(v)
		switch x := v.(type) {
		case *ssa.UnOp:
			if g, ok := x.X.(*ssa.Global); ok && g.Name() == name {
				return true
			}
		case *ssa.Phi:
			for _, e := range x.Edges {
				if has(e, d+1) {
					return true
				}
			}
		case *ssa.Parameter:
			// the helper hands back what it was handed (report(..., err) error): what its callers pass
			fnP := x.Parent()
			idx := -1
			for i, q := range fnP.Params {
				if q == x {
					idx = i
				}
			}
			for _, fn0 := range fns {
				for _, c := range core.Calls(fn0) {
					if c.Common().StaticCallee() == fnP && idx >= 0 && idx < len(c.Common().Args) && has(c.Common().Args[idx], d+1) {
						return true
					}
				}
			}
		case *ssa.Call:
			// a module helper that maps / passes the error on
			cals := []*ssa.Function{x.Common().StaticCallee()}
			if cals[0] == nil {
				cals, _ = core.FuncValueCallees(x) // a local function variable: default implementation or callback
			}
			for _, cal := range cals {
				if cal != nil && len(cal.Blocks) > 0 && cal.Signature.Results().Len() == 1 {
					for _, ret := range core.Returns(cal) {
						if has(ret.Results[0], d+1) {
							return true
						}
					}
				}
			}
		case *ssa.Extract:
			if c, ok := x.Tuple.(*ssa.Call); ok {
				cals := []*ssa.Function{c.Common().StaticCallee()}
				if cals[0] == nil {
					cals, _ = core.FuncValueCallees(c)
				}
				for _, cal := range cals {
					if cal != nil && len(cal.Blocks) > 0 {
						for _, ret := range core.Returns(cal) {
							if x.Index < len(ret.Results) && has(ret.Results[x.Index], d+1) {
								return true
							}
						}
					}
				}
			}
		}
		return false
	}
	for _, fn := range fns {
		for _, ret := range core.Returns(fn) {
			for _, res := range ret.Results {
				if has(res, 0) {
					return true, ret
				}
			}
		}
	}
	return false, nil
}

func isLockCall(c ssa.CallInstruction) string {
	cal := c.Common().StaticCallee()
	if cal == nil {
		return ""
	}
	switch cal.Name() {
	case "RLock", "RUnlock", "Lock", "Unlock":
		return cal.Name()
	}
	return ""
}

func c11(r *core.Run) {
	p := r.P
	r.Explanation = "Per shipped store (badgerstore, mockstore): lock pairing by mode between Read/Write and the transaction type's own Close, guarded by the closed flag and keyed by the transaction id; sentinel reachability (duplicate / not-found returned, raw database sentinel never returned); empty-id guard in Create; a callback-count typestate over Create/Update/Delete (exactly one change fan-out on nil returns, after the commit/mutation succeeded, none on error returns) with the (id, before, after) arguments traced to the transaction id, the value read in the same transaction and the new value; veto and type check ordered before the write inside the update closure; and cache coherence of the transaction's cached value (either dead or refreshed by every mutation). Decides the structural part of the map-equivalence; linearizability of histories is not executed."
	r.NotDecided = []string{"equivalence of arbitrary concurrent histories to a sequential map", "blocking behaviour of the third-party key lock", "BadgerDB transaction semantics"}
	r.Assumptions = []string{"DB.Update returns the closure's error or a commit error; nil means committed", "keylock.KeyLock / sync.RWMutex semantics"}

	r.Rule("K1", "lock pairing: Read acquires shared and returns the read txn, Write acquires exclusive and returns the write txn; each txn type declares its own Close releasing the same mode on the txn's id, once (guarded by the closed flag)", 8)
	r.Rule("K2", "cache coherence: a value cached in the transaction object is either never persistently written (all writers have value receivers) or every mutation method refreshes it; otherwise reads inside a write transaction would not see its own writes", 1)
	r.Rule("E1", "sentinels: Create can return store.ErrDuplicate on the exists edge; Update/Delete/Value can return the not-found sentinel; no method returns the raw badger.ErrKeyNotFound", 8)
	r.Rule("E3", "existence is read, not assumed (badgerstore): in the transaction bodies of Update and Delete every database write is preceded on all paths by a read of the key (a call reaching Txn.Get) or by the edge on which the transaction's cached value is non-nil; the database itself accepts writes and deletes of missing keys", 2)
	r.Rule("E4", "per-id operations are exact (badgerstore): no method of the read / write transaction (nor its private helpers and closures) opens an iterator or applies a prefix test; existence and values come from Txn.Get on the transaction's own key", 6)
	r.Rule("K3", "a transaction's key is its own memory (shared with C16.O4): no key is built by appending to a slice kept in the store (append(st.prefixBytes, id...) handed to the transaction) - with spare capacity in that slice every open transaction's key is the same backing array, and opening a second transaction rewrites the key of the first: it then reads, writes and deletes another id's value while holding its own id's lock", 2)
	r.Rule("K6", "one lock table for all transactions (shared with C16.D4): no field of the badger store is written on a path transactions reach - a lock table allocated lazily in Read / Write can be allocated twice by the first two concurrent transactions, which then hold the same id in different tables", 6)
	c16StoreConfigFrozen(r, "K6")
	r.Rule("K5", "a read returns what is stored (shared with C13.K10): the reflected decode target of stored bytes is made by reflect.New in the call that decodes", 1)
	c13DecodeTargetFresh(r, "K5", "store/badgerstore")
	r.Rule("K4", "what a transaction writes is what it was given (shared with C20.I2): the bytes handed to Txn.Set are not backed by a pooled buffer that is released before the commit - a concurrent mutation of another id (not excluded by the per-id lock) would refill it, and this transaction then stores, and reads back, the other id's value", 2)
	storedBytesNotPooled(r, "K4", []string{"store/badgerstore"})
	r.Rule("E2", "empty id: Create tests the transaction id against \"\" before any write and on that edge returns an error or installs a generated id", 2)
	r.Rule("C1", "change callbacks: on every nil return of Create/Update/Delete exactly one change fan-out ran, after the mutation succeeded (err==nil edge), with (txn id, before value read in the same transaction or nil, new value or nil); on every non-nil return none ran", 12)
	r.Rule("C2", "veto and type: the dynamic type check dominates the database transaction; the before-change fan-out runs inside the update closure before the write and its error aborts the closure", 5)

	for _, rel := range storePkgs {
		_ = p.FuncsOfPkg(rel)
		short := rel[strings.LastIndex(rel, "/")+1:]
		read := methodNamed(p, rel, "Store", "Read")
		write := methodNamed(p, rel, "Store", "Write")
		rclose := methodNamed(p, rel, "readTxn", "Close")
		wclose := methodNamed(p, rel, "writeTxn", "Close")
		if read == nil || write == nil || rclose == nil {
			r.Unres("K1", short+".Store.Read/Write/readTxn.Close", "method missing")
			continue
		}
		idF, okID := accessorField(p, rel, "readTxn", "ID")
		closedF, okCl := fieldByType(p, rel, "readTxn", func(t types.Type) bool {
			b, ok := t.Underlying().(*types.Basic)
			return ok && b.Kind() == types.Bool
		})
		if !okID || !okCl {
			r.Unres("K1", short+".readTxn.<id>/<closed>", "cannot resolve the transaction's id field (returned by ID()) or its closed flag (the bool field)")
			continue
		}
		c11LockHeldForTheWholeTransaction(r, "K1", rel, short)
		if wclose == nil {
			r.Bad("K1", short+".writeTxn", "declares-own-Close", "-", "the write transaction has no Close of its own: it would inherit the read transaction's Close and release the wrong lock mode")
			continue
		}
		// acquire side
		chkAcquire := func(fn *ssa.Function, want, txn string) {
			var lock ssa.CallInstruction
			for _, c := range core.Calls(fn) {
				if isLockCall(c) != "" {
					lock = c
				}
			}
			good := lock != nil && isLockCall(lock) == want
			keyOK := true
			if good && len(lock.Common().Args) == 2 { // keyed lock
				keyOK = lock.Common().Args[1] == ssa.Value(fn.Params[1])
			}
			// returned txn carries the same id
			idOK := false
			for _, h := range p.Helpers(fn) { // the transaction may be built by a constructor helper
				for _, b := range h.Blocks {
					for _, in := range b.Instrs {
						if st, ok := in.(*ssa.Store); ok {
							if f, ok := core.FieldOf(st.Addr); ok && f == idF {
								if h == fn && st.Val == ssa.Value(fn.Params[1]) {
									idOK = true
								}
								if prm, isP := st.Val.(*ssa.Parameter); isP && h != fn && prm.Parent() == h {
									// the helper's parameter: what this method's calls of the helper pass for it
									n, all := 0, true
									for _, c := range p.CallersOf(h) {
										if c.Parent() != fn {
											continue
										}
										n++
										for i, q := range h.Params {
											if q == prm && (i >= len(c.Common().Args) || c.Common().Args[i] != ssa.Value(fn.Params[1])) {
												all = false
											}
										}
									}
									if n > 0 && all {
										idOK = true
									}
								}
							}
						}
					}
				}
			}
			retOK := false
			for _, ret := range core.Returns(fn) {
				if core.TypeName(core.Strip(ret.Results[0]).Type()) == qual(rel, txn) {
					retOK = true
				}
			}
			r.Check(good && keyOK && idOK && retOK, "K1", core.FuncName(fn), "acquire:"+want+"->"+txn, p.Pos(fn.Pos()), "acquires "+want+" on the id and returns a "+txn+" carrying that id", fmt.Sprintf("acquire side broken: lock=%v keyIsId=%v txnIdIsId=%v returns%s=%v", good, keyOK, idOK, txn, retOK))
		}
		chkAcquire(read, "RLock", "readTxn")
		chkAcquire(write, "Lock", "writeTxn")
		chkRelease := func(fn *ssa.Function, want string) {
			var rel ssa.CallInstruction
			for _, c := range core.Calls(fn) {
				if isLockCall(c) != "" {
					rel = c
				}
			}
			good := rel != nil && isLockCall(rel) == want
			guard, setFlag, keyOK := false, false, true
			if good {
				for _, ed := range dominatingEdges(rel) {
					cnd, succ := ed.Norm()
					if f, ok := core.LoadedField(cnd); ok && f == closedF && succ == 1 {
						guard = true
					}
				}
				for _, b := range fn.Blocks {
					for _, in := range b.Instrs {
						if st, ok := in.(*ssa.Store); ok && isConstBool(st.Val, true) {
							if f, ok := core.FieldOf(st.Addr); ok && f == closedF && core.Dominates(st, rel) {
								setFlag = true
							}
						}
					}
				}
				if !guard && !setFlag {
					// the closed-flag protocol in a private helper (markClosed() error): the release sits
					// on the helper's nil-result edge, and the helper returns nil only where the flag was
					// clear and has been set
					guard, setFlag = c11ClosedByHelper(p, fn, rel, closedF)
				}
				if len(rel.Common().Args) == 2 {
					f, ok := core.LoadedField(rel.Common().Args[1])
					keyOK = ok && f == idF
				}
			}
			isPtrRecv := false
			if fn.Signature.Recv() != nil {
				_, isPtrRecv = fn.Signature.Recv().Type().(*types.Pointer)
			}
			r.Check(good && guard && setFlag && keyOK && isPtrRecv, "K1", core.FuncName(fn), "release:"+want+"-once", p.Pos(fn.Pos()), "releases "+want+" on the txn id behind the closed flag, which it sets (pointer receiver)", fmt.Sprintf("release side broken: mode=%v closedGuard=%v setsClosed=%v keyIsTxnId=%v ptrRecv=%v", good, guard, setFlag, keyOK, isPtrRecv))
		}
		chkRelease(rclose, "RUnlock")
		chkRelease(wclose, "Unlock")

		// ---- K2 cache coherence -------------------------------------------
		c11CacheCoherence(r, "K2", rel)
		c16NoForeignAppend(r, "K3", []string{rel}, short)
		val := methodNamed(p, rel, "readTxn", "Value")
		muts := map[string]*ssa.Function{}
		for _, n := range []string{"Create", "Update", "Delete"} {
			muts[n] = methodNamed(p, rel, "writeTxn", n)
		}

		// ---- E1 ------------------------------------------------------------
		for n, m := range muts {
			if m == nil {
				r.Unres("E1", short+".writeTxn."+n, "method missing")
				continue
			}
			all := withAnon(m)
			switch n {
			case "Create":
				ok, _ := returnsGlobal(all, "ErrDuplicate")
				r.Check(ok, "E1", core.FuncName(m), "can-return-ErrDuplicate", p.Pos(m.Pos()), "the exists edge returns the documented duplicate sentinel", "Create never returns store.ErrDuplicate: callers cannot recognise a duplicate with errors.Is")
			default:
				ok1, _ := returnsGlobal(all, "ErrNotFound")
				// badgerstore delegates to getValue, which maps the raw sentinel
				if !ok1 {
					for _, f2 := range all {
						for _, c := range core.Calls(f2) {
							if cal := c.Common().StaticCallee(); cal != nil && len(cal.Blocks) > 0 && cal.Pkg == m.Pkg && !ok1 {
								ok1, _ = returnsGlobal(withAnon(cal), "ErrNotFound")
							}
						}
					}
				}
				r.Check(ok1, "E1", core.FuncName(m), "can-return-ErrNotFound", p.Pos(m.Pos()), "a missing id yields the not-found sentinel", n+" never returns the not-found sentinel")
			}
		}
		if val != nil {
			ok, _ := returnsGlobal(withAnon(val), "ErrNotFound")
			r.Check(ok, "E1", core.FuncName(val), "can-return-ErrNotFound", p.Pos(val.Pos()), "a missing id yields the not-found sentinel", "Value never returns the not-found sentinel")
		}
		var methods []*ssa.Function
		for _, tn := range []string{"Store", "readTxn", "writeTxn", "QueryStore"} {
			for _, m := range methodsOf(p, rel, tn) {
				if m.Object() != nil && m.Object().Exported() {
					methods = append(methods, m)
				}
			}
		}
		for _, m := range methods {
			// only the outer function's returns escape to the caller
			if ok, at := returnsGlobal([]*ssa.Function{m}, "ErrKeyNotFound"); ok {
				r.Bad("E1", core.FuncName(m), "no-raw-ErrKeyNotFound", p.InstrPos(at), "the raw database sentinel escapes the store API")
			}
		}
		r.OKTrivial("E1", short, "no-raw-ErrKeyNotFound-in-exported-methods", "-", fmt.Sprintf("%d exported methods scanned", len(methods)))

		// ---- E2 ------------------------------------------------------------
		if cr := muts["Create"]; cr != nil {
			var guards []*ssa.If
			for _, b := range cr.Blocks {
				if iff, ok := b.Instrs[len(b.Instrs)-1].(*ssa.If); ok {
					ci := core.Cond(iff.Cond)
					if ci.Kind == "constcmp" && ci.Const != nil && ci.Const.ExactString() == `""` && ((ci.HasFld && ci.Field == idF) || loadsFieldThroughCell(ci.X, idF)) {
						guards = append(guards, iff)
					}
				}
			}
			good := false
			for _, guard := range guards {
				g := true
				// dominates every write: DB.Update call / map update
				for _, c := range core.Calls(cr) {
					if cal := c.Common().StaticCallee(); cal != nil && cal.Name() == "Update" && !core.Dominates(guard, c) {
						g = false
					}
				}
				for _, b := range cr.Blocks {
					for _, in := range b.Instrs {
						if mu, ok := in.(*ssa.MapUpdate); ok && !core.Dominates(guard, mu) {
							g = false
						}
					}
				}
				if g {
					good = true
				}
			}
			// the test may sit in a validation helper that is handed the id and whose error ends Create
			if !good {
				var writes []ssa.Instruction
				for _, c := range core.Calls(cr) {
					if cal := c.Common().StaticCallee(); cal != nil && cal.Name() == "Update" {
						writes = append(writes, c)
					}
				}
				for _, b := range cr.Blocks {
					for _, in := range b.Instrs {
						if mu, ok := in.(*ssa.MapUpdate); ok {
							writes = append(writes, mu)
						}
					}
				}
				for _, c := range core.Calls(cr) {
					hc, isCall := c.(*ssa.Call)
					cal := c.Common().StaticCallee()
					if !isCall || cal == nil || len(cal.Blocks) == 0 || cal.Pkg != cr.Pkg || types.TypeString(hc.Type(), nil) != "error" {
						continue
					}
					// which parameter receives the id
					pi := -1
					for i, a := range c.Common().Args {
						if f, ok := core.LoadedField(a); (ok && f == idF) || loadsFieldThroughCell(a, idF) {
							pi = i
						}
					}
					if pi < 0 || pi >= len(cal.Params) {
						continue
					}
					// in the helper: param == "" leads to a non-nil error return
					rejects := false
					for _, hb := range cal.Blocks {
						iff, ok := hb.Instrs[len(hb.Instrs)-1].(*ssa.If)
						if !ok {
							continue
						}
						ci := core.Cond(iff.Cond)
						if ci.Kind != "constcmp" || ci.Const == nil || ci.Const.ExactString() != `""` || ci.X != ssa.Value(cal.Params[pi]) {
							continue
						}
						emptyEdge := 0
						if (ci.Op == token.NEQ) != ci.Negate {
							emptyEdge = 1
						}
						eb := hb.Succs[emptyEdge]
						if ret, ok := eb.Instrs[len(eb.Instrs)-1].(*ssa.Return); ok && len(ret.Results) == 1 {
							if cst, isC := ret.Results[0].(*ssa.Const); !isC || !cst.IsNil() {
								rejects = true
							}
						}
					}
					if !rejects {
						continue
					}
					// in Create: every write is dominated by the nil edge of the helper's result
					all := len(writes) > 0
					for _, w := range writes {
						dom := false
						for _, ed := range dominatingEdges(w) {
							cnd, succ := ed.Norm()
							bo, ok := cnd.(*ssa.BinOp)
							if !ok || (bo.Op != token.EQL && bo.Op != token.NEQ) {
								continue
							}
							x, y := bo.X, bo.Y
							if cst, isC := x.(*ssa.Const); isC && cst.IsNil() {
								x, y = y, x
							}
							if cst, isC := y.(*ssa.Const); !isC || !cst.IsNil() || x != ssa.Value(hc) {
								continue
							}
							if (bo.Op == token.EQL) == (succ == 0) {
								dom = true
							}
						}
						if !dom {
							all = false
						}
					}
					if all {
						good = true
					}
				}
			}
			// the test may sit in a helper that *produces* the id to write under (`id, err := wt.createID()`):
			// it tests the transaction's id against "" and Create writes only on the helper's err == nil edge
			if !good {
				var writes []ssa.Instruction
				for _, h := range p.Helpers(cr) {
					for _, b := range h.Blocks {
						for _, in := range b.Instrs {
							if mu, ok := in.(*ssa.MapUpdate); ok {
								writes = append(writes, p.Lift(mu, cr)...)
							}
						}
					}
					for _, c := range core.Calls(h) {
						if cal := c.Common().StaticCallee(); cal != nil && cal.Name() == "Update" && strings.HasSuffix(cal.String(), "badger.DB).Update") {
							writes = append(writes, p.Lift(c, cr)...)
						}
					}
				}
				for _, c := range core.Calls(cr) {
					hc, isCall := c.(*ssa.Call)
					cal := c.Common().StaticCallee()
					if !isCall || cal == nil || len(cal.Blocks) == 0 || cal.Pkg != cr.Pkg || cal.Signature.Results().Len() != 2 {
						continue
					}
					tests := false
					for _, hb := range cal.Blocks {
						if iff, ok := hb.Instrs[len(hb.Instrs)-1].(*ssa.If); ok {
							ci := core.Cond(iff.Cond)
							if ci.Kind == "constcmp" && ci.Const != nil && ci.Const.ExactString() == `""` && ((ci.HasFld && ci.Field == idF) || loadsFieldThroughCell(ci.X, idF)) {
								tests = true
							}
						}
					}
					var errV ssa.Value
					if hc.Referrers() != nil {
						for _, rf := range *hc.Referrers() {
							if ex, ok := rf.(*ssa.Extract); ok && types.TypeString(ex.Type(), nil) == "error" {
								errV = ex
							}
						}
					}
					if !tests || errV == nil || len(writes) == 0 {
						continue
					}
					all := true
					for _, w := range writes {
						dom := false
						for _, ed := range dominatingEdges(w) {
							ci := core.Cond(ed.If.Cond)
							if ci.Kind == "nilcmp" && ci.X == errV {
								truth := ed.Succ == 0
								if ci.Negate {
									truth = !truth
								}
								if (ci.Op == token.EQL) == truth {
									dom = true
								}
							}
						}
						if !dom {
							all = false
						}
					}
					if all {
						good = true
					}
				}
			}
			r.Check(good, "E2", core.FuncName(cr), "empty-id-tested-before-write", p.Pos(cr.Pos()), "Create tests the id for \"\" before writing", "Create does not test for an empty id before writing: a value is stored under the bare prefix")
		}

		// ---- C1 ------------------------------------------------------------
		for _, n := range []string{"Create", "Update", "Delete"} {
			m := muts[n]
			if m == nil {
				continue
			}
			c11Callbacks(r, rel, n, m, idF)
			if n == "Create" {
				c11FanoutUnconditional(r, "C1", rel, "OnChange")
			}
		}
	}

	c11ReadErrorAborts(r, "E3")
	r.Rule("E4", "one codec for writing and reading (badgerstore): the binary codec calls - MarshalBinary where a value is written, UnmarshalBinary where it is read - stand under the same stored flag conditions; a writer that decides by the value's dynamic type while the reader follows the flag fixed in SetType writes a marshaler-only type in binary and reads it back as JSON", 2)
	c11CodecAgreement(r, "E4", "store/badgerstore")
	c11DuplicateDecidedByRawRead(r, "E1")
	// ---- E3 (badgerstore) ----------------------------------------------------
	// BadgerDB's Delete / Set succeed on a missing key: the not-found answer of Update / Delete comes
	// from the read that precedes the write. Typestate in the transaction body: "existence known"
	// is reached by a call that reads the key (may reach Txn.Get) or on the edge where the
	// transaction's cached value is non-nil; every write needs it on all paths.
	{
		rel := "store/badgerstore"
		mayGet := mayExec(p.FuncsOfPkg(rel), func(in ssa.Instruction) bool {
			c, ok := in.(ssa.CallInstruction)
			return ok && isBadgerCall(c, "Txn", "Get")
		})
		for _, n := range []string{"Update", "Delete"} {
			m := methodNamed(p, rel, "writeTxn", n)
			if m == nil {
				continue
			}
			for _, body := range txnBodies(m) {
				var writes []ssa.CallInstruction
				for _, c := range helperCalls(p, body) {
					if isTxnWrite(c) {
						writes = append(writes, c)
					}
				}
				if len(writes) == 0 {
					continue
				}
				fl := &core.Flow{Fn: body, Entry: core.StateSet(0).Add(0), Inline: func(cal *ssa.Function) bool {
					return cal.Pkg == body.Pkg && p.IsPrivateHelper(cal) && !mayGet[cal]
				}}
				fl.Transfer = func(in ssa.Instruction, st int) core.StateSet {
					if c, ok := in.(*ssa.Call); ok {
						if isBadgerCall(c, "Txn", "Get") {
							return core.StateSet(0).Add(1)
						}
						if cal := c.Common().StaticCallee(); cal != nil && mayGet[cal] {
							return core.StateSet(0).Add(1)
						}
					}
					return core.StateSet(0).Add(st)
				}
				fl.BranchOn = func(cond ssa.Value, succ int, st int) (int, bool) {
					ci := core.Cond(cond)
					// the cached value may have been copied to a local first: before = wt.v; if before == nil
					if ci.Kind == "nilcmp" && !ci.HasFld {
						if ld, ok := ci.X.(*ssa.UnOp); ok && ld.Op == token.MUL {
							if v := lastStoreInBlock(ld); v != nil {
								if f, ok := core.LoadedField(v); ok {
									ci.Field, ci.HasFld = f, true
								}
							}
						}
					}
					if ci.Kind == "nilcmp" && ci.HasFld && strings.HasSuffix(ci.Field.Struct, "readTxn") {
						if _, isIface := ci.X.Type().Underlying().(*types.Interface); isIface {
							truth := succ == 0
							if ci.Negate {
								truth = !truth
							}
							if (ci.Op == token.NEQ) == truth {
								return 1, true // the cached value is non-nil: the id holds a value
							}
						}
					}
					return st, true
				}
				fl.Branch = func(iff *ssa.If, succ int, st int) (int, bool) { return fl.BranchOn(iff.Cond, succ, st) }
				res := fl.Run()
				for _, w := range writes {
					st := res.Before[w]
					r.Check(!st.Empty() && st.Only(1), "E3", core.FuncName(body), "existence-known-before:"+w.Common().StaticCallee().Name(), p.InstrPos(w), "every path to the write read the key (or holds the cached value)", "a path reaches the database write without having read the key: BadgerDB's Set / Delete succeed on a missing key, so "+n+" on an id that holds no value reports success instead of the not-found error")
				}
			}
		}
	}

	// ---- E4 (badgerstore) ----------------------------------------------------
	// per-id operations answer from an exact-key read: a prefix scan (iterator Seek +
	// ValidForPrefix) also matches every longer id that starts with this one
	{
		rel := "store/badgerstore"
		n := 0
		for _, tn := range []string{"readTxn", "writeTxn"} {
			for _, m := range methodsOf(p, rel, tn) {
				if m.Parent() != nil {
					continue
				}
				n++
				bad := ""
				for _, f2 := range p.Scope(m) {
					for _, c := range core.Calls(f2) {
						if isBadgerCall(c, "Txn", "NewIterator") || isBadgerCall(c, "Iterator", "ValidForPrefix") || isBadgerCall(c, "Iterator", "Seek") {
							bad = c.Common().StaticCallee().Name() + " at " + p.InstrPos(c)
						}
					}
				}
				r.Check(bad == "", "E4", core.FuncName(m), "exact-key-read-only", p.Pos(m.Pos()), "no iterator / prefix test in a per-id operation", "a per-id operation of the store uses an iterator ("+bad+"): a prefix test also matches longer ids that start with this id, so the answer for one id depends on which other ids are stored")
			}
		}
		if n == 0 {
			r.Unres("E4", "badgerstore transaction methods", "none found")
		}
	}

	// ---- C2 (badgerstore) ----------------------------------------------------
	for _, n := range []string{"Create", "Update", "Delete"} {
		m := methodNamed(p, "store/badgerstore", "writeTxn", n)
		if m == nil {
			continue
		}
		var upd ssa.CallInstruction
		var cl *ssa.Function
		for _, c := range core.Calls(m) {
			if cal := c.Common().StaticCallee(); cal != nil && cal.String() == "(*github.com/dgraph-io/badger.DB).Update" {
				upd = c
				if mc, ok := c.Common().Args[1].(*ssa.MakeClosure); ok {
					cl, _ = mc.Fn.(*ssa.Function)
				}
			}
		}
		if upd == nil || cl == nil {
			r.Bad("C2", core.FuncName(m), "single-update-closure", p.Pos(m.Pos()), "mutation does not run inside one DB.Update closure")
			continue
		}
		if n != "Delete" {
			// type check: an If comparing reflect.Type values - in the method or in a helper whose
			// result the method tests - has an edge that dominates the transaction
			isRT := func(v ssa.Value) bool { return types.TypeString(v.Type(), nil) == "reflect.Type" }
			mayCmp := mayExec(p.FuncsOfPkg("store/badgerstore"), func(in ssa.Instruction) bool {
				bo, ok := in.(*ssa.BinOp)
				return ok && (bo.Op == token.EQL || bo.Op == token.NEQ) && isRT(bo.X)
			})
			tg := false
			for _, ed := range dominatingEdges(upd) {
				cnd, _ := ed.Norm()
				bo, ok := cnd.(*ssa.BinOp)
				if !ok {
					continue
				}
				for _, op := range []ssa.Value{bo.X, bo.Y} {
					if isRT(op) {
						tg = true
					}
					op = core.Strip(op)
					if ex, ok := op.(*ssa.Extract); ok {
						op = ex.Tuple
					}
					if c, ok := op.(*ssa.Call); ok {
						if cal := c.Common().StaticCallee(); cal != nil && mayCmp[cal] {
							tg = true
						}
					}
				}
			}
			r.Check(tg, "C2", core.FuncName(m), "type-check-dominates-transaction", p.InstrPos(upd), "a value of the wrong dynamic type is rejected before any transaction starts", "the dynamic type check does not dominate the database transaction")
		}
		// veto inside closure, before the write, error returned
		vetoFns := fanoutFuncs(p, "store/badgerstore", "BeforeChange")
		mayWrite := mayExec(p.FuncsOfPkg("store/badgerstore"), func(in ssa.Instruction) bool {
			c, ok := in.(ssa.CallInstruction)
			return ok && isTxnWrite(c)
		})
		var veto, wr ssa.CallInstruction
		for _, c := range core.Calls(cl) {
			if cal := c.Common().StaticCallee(); cal != nil {
				switch {
				case vetoFns[cal]:
					veto = c
				case isTxnWrite(c) || mayWrite[cal]:
					wr = c
				}
			}
		}
		// the veto loop may be written out in the closure: the load of the BeforeChange listener slice
		// stands for the veto, and every listener call's error must leave the closure
		inlineVeto := false
		if veto == nil && wr != nil {
			bf := listenerFieldOf(p, "store/badgerstore", "Store", "BeforeChange")
			var load ssa.Instruction
			errOut := true
			nHook := 0
			for _, b := range cl.Blocks {
				for _, in := range b.Instrs {
					if u, ok := in.(*ssa.UnOp); ok {
						if f, ok := core.LoadedField(u); ok && f == bf && bf.Name != "" && load == nil {
							load = u
						}
					}
				}
			}
			for _, c := range core.Calls(cl) {
				if !core.IsDynamic(c) {
					continue
				}
				if u, ok := c.Common().Value.(*ssa.UnOp); ok {
					if ia, ok := u.X.(*ssa.IndexAddr); ok {
						if f, ok := core.LoadedField(ia.X); ok && f == bf {
							nHook++
							if c.Value() == nil || !errorReachesReturn(c.Value(), cl) {
								errOut = false
							}
						}
					}
				}
			}
			if load != nil && nHook > 0 && errOut && core.Dominates(load, wr) {
				inlineVeto = true
			}
		}
		good := veto != nil && wr != nil && core.Dominates(veto, wr)
		if inlineVeto {
			r.OK("C2", core.FuncName(cl), "veto-before-write-in-closure", p.InstrPos(wr), "the BeforeChange listeners are called in the closure before the write and an error from any of them leaves the closure")
			continue
		}
		if good {
			// the write is on the err==nil edge of the veto
			good = false
			for _, ed := range dominatingEdges(wr) {
				ci := core.Cond(ed.If.Cond)
				if ci.Kind == "nilcmp" && (ci.X == veto.Value() || sameCellLoadOfCall(ci.X, veto)) {
					truth := ed.Succ == 0
					if ci.Negate {
						truth = !truth
					}
					if (ci.Op == token.EQL) == truth {
						good = true
					}
				}
			}
		}
		r.Check(good, "C2", core.FuncName(cl), "veto-before-write-in-closure", posOf(p, veto), "BeforeChange runs inside the transaction before the write and a veto error aborts it", "the before-change veto does not run inside the closure before the write with its error aborting the transaction")
	}
}

// c11Callbacks runs the callback-count typestate on one mutation method.
func c11Callbacks(r *core.Run, rel, name string, m *ssa.Function, idF core.Field) {
	p := r.P
	fan := fanoutFuncs(p, rel, "OnChange")
	lf := listenerFieldOf(p, rel, "Store", "OnChange")
	// a fan-out is a call of a fan-out function, or - when the loop over the listeners is written
	// out in the mutation method - the load of the listener slice that the loop ranges over
	isFanout := func(in ssa.Instruction) bool {
		if c, ok := in.(*ssa.Call); ok {
			cal := c.Common().StaticCallee()
			return cal != nil && fan[cal] && cal != m
		}
		if u, ok := in.(*ssa.UnOp); ok && core.Outermost(u.Parent()) == m {
			if f, ok := core.LoadedField(u); ok && f == lf && lf.Name != "" {
				// reading only the number of listeners calls nobody
				onlyLen := u.Referrers() != nil && len(*u.Referrers()) > 0
				if u.Referrers() != nil {
					for _, rf := range *u.Referrers() {
						if _, isDbg := rf.(*ssa.DebugRef); isDbg {
							continue
						}
						c, ok := rf.(*ssa.Call)
						if !ok || core.CalleeName(c) != "builtin:len" {
							onlyLen = false
						}
					}
				}
				return !onlyLen
			}
		}
		return false
	}
	// no fan-out inside closures of the method (would run inside the uncommitted transaction)
	for _, a := range m.AnonFuncs {
		for _, f2 := range withAnon(a) {
			for _, b := range f2.Blocks {
				for _, in := range b.Instrs {
					if isFanout(in) {
						r.Bad("C1", core.FuncName(f2), "no-fanout-inside-closure", p.InstrPos(in), "change callbacks run inside the transaction closure: they fire before commit and also when the commit fails")
					}
				}
			}
		}
	}
	// a "report" wrapper: a private helper that is handed the mutation's error, returns it untouched
	// when it is non-nil (no fan-out) and otherwise fans out exactly once and returns nil:
	// `return st.reportChange(id, before, after, err)` is then right by construction
	wrappers := map[ssa.Instruction]*ssa.Call{}
	for _, c := range core.Calls(m) {
		call, ok := c.(*ssa.Call)
		if !ok {
			continue
		}
		if h := call.Common().StaticCallee(); h != nil && h != m && p.IsPrivateHelper(h) && c11IsReportWrapper(h, isFanout) {
			wrappers[call] = call
		}
	}
	// state = number of fan-outs so far (0, 1, 2+) + 3 * what a nil test has established about the
	// error value a return hands back (0 unknown, 1 nil, 2 non-nil): `if err == nil { fan out };
	// return err` is a success return with one fan-out and an error return with none
	// (the knowledge is about one particular value: k = 0 unknown, 1+2i = the i-th returned value is
	// nil, 2+2i = it is non-nil; a test of another value replaces it)
	returned := map[ssa.Value]int{}
	for _, ret := range core.Returns(m) {
		if len(ret.Results) == 1 {
			v := core.Strip(ret.Results[0])
			if _, isC := v.(*ssa.Const); isC {
				continue
			}
			if _, ok := returned[v]; !ok && len(returned) < 8 {
				returned[v] = len(returned)
			}
		}
	}
	fl := &core.Flow{Fn: m, Entry: core.StateSet(0).Add(0)}
	fl.Transfer = func(in ssa.Instruction, s int) core.StateSet {
		if isFanout(in) && s%3 < 2 {
			s++
		}
		return core.StateSet(0).Add(s)
	}
	fl.Branch = func(iff *ssa.If, succ int, s int) (int, bool) {
		ci := core.Cond(iff.Cond)
		if ci.Kind != "nilcmp" {
			return s, true
		}
		i, ok := returned[core.Strip(ci.X)]
		if !ok {
			return s, true
		}
		truth := succ == 0
		if ci.Negate {
			truth = !truth
		}
		k := 2 + 2*i
		if (ci.Op == token.EQL) == truth {
			k = 1 + 2*i
		}
		return s%3 + 3*k, true
	}
	fl.EvalBoolAt = func(v ssa.Value, s int) int8 {
		i, ok := returned[core.Strip(v)]
		if !ok {
			return 0
		}
		switch s / 3 {
		case 1 + 2*i:
			return 2 // nil
		case 2 + 2*i:
			return 1 // non-nil
		}
		return 0
	}
	res0 := fl.Run()
	// fold the nil-ness component away again
	fold := func(ss core.StateSet) core.StateSet {
		var out core.StateSet
		for _, x := range ss.List() {
			out = out.Add(x % 3)
		}
		return out
	}
	res := &core.FlowResult{Before: map[ssa.Instruction]core.StateSet{}, RetFlag: map[*ssa.Return][3]core.StateSet{}}
	for in, ss := range res0.Before {
		res.Before[in] = fold(ss)
	}
	for ret, rf := range res0.RetFlag {
		res.RetFlag[ret] = [3]core.StateSet{fold(rf[0]), fold(rf[1]), fold(rf[2])}
	}
	for _, ret := range core.Returns(m) {
		st := res.Before[ret]
		if st.Empty() {
			continue
		}
		if len(ret.Results) == 1 {
			if wc, ok := ret.Results[0].(*ssa.Call); ok && wrappers[wc] != nil {
				r.Check(res.Before[wc].Only(0), "C1", core.FuncName(m), "nil-return=>exactly-one-fanout:via-report-helper", p.InstrPos(ret), "the result is that of the report helper, which fans out exactly once iff the mutation's error is nil; nothing fanned out before it", fmt.Sprintf("a change fan-out already ran before the report helper is called (%v)", res.Before[wc].List()))
				continue
			}
		}
		var conds []string
		for _, ed := range dominatingEdges(ret) {
			conds = append(conds, describeCond(ed))
		}
		// the error returned may be a variable that is nil on some paths and set on others (single
		// exit): the engine reports the states per nil-ness of the returned value
		stNil, stErr := res.RetFlag[ret][2], res.RetFlag[ret][1]|res.RetFlag[ret][0]
		if !stNil.Empty() {
			r.Check(stNil.Only(1), "C1", core.FuncName(m), "nil-return=>exactly-one-fanout:"+returnDesc(ret, conds), p.InstrPos(ret), "exactly one change fan-out on every path to this success return", fmt.Sprintf("success return with %v change fan-outs on some path", stNil.List()))
		}
		if !stErr.Empty() {
			r.Check(stErr.Only(0), "C1", core.FuncName(m), "error-return=>no-fanout:"+returnDesc(ret, conds), p.InstrPos(ret), "no change fan-out on any path to this error return", fmt.Sprintf("error return after %v change fan-outs", stErr.List()))
		}
	}
	// fan-out call: dominated by an err==nil edge; arguments
	type fanSite struct {
		at   ssa.Instruction
		args []ssa.Value // id, before, after
	}
	var fsites []fanSite
	viaWrapper := map[ssa.Instruction]bool{}
	for wc := range wrappers {
		call := wc.(*ssa.Call)
		h := call.Common().StaticCallee()
		rs := core.NewResolver()
		rs.Bind(call)
		for _, hc := range core.Calls(h) {
			if isFanout(hc) {
				var args []ssa.Value
				for _, a := range hc.Common().Args[1:] {
					args = append(args, rs.R(a))
				}
				// the listeners' own arguments when the fan-out function forwards them unchanged
				fsites = append(fsites, fanSite{call, args})
				viaWrapper[call] = true
			}
		}
	}
	for _, c := range core.Calls(m) {
		if isFanout(c) {
			// the listeners' arguments as the fan-out function passes them, expressed in the caller's values
			args := c.Common().Args[1:]
			if cal := c.Common().StaticCallee(); cal != nil {
				rs := core.NewResolver()
				rs.Bind(c)
				for _, hc := range core.Calls(cal) {
					if !core.IsDynamic(hc) || len(hc.Common().Args) != 3 {
						continue
					}
					isListener := false
					switch v := hc.Common().Value.(type) {
					case *ssa.UnOp:
						if ia, ok := v.X.(*ssa.IndexAddr); ok {
							if f, ok := core.LoadedField(ia.X); ok && f == lf && lf.Name != "" {
								isListener = true
							}
						}
					case *ssa.Extract: // range over the slice value
						isListener = true
					}
					if isListener {
						args = nil
						for _, a := range hc.Common().Args {
							args = append(args, rs.R(a))
						}
					}
				}
			}
			fsites = append(fsites, fanSite{c, args})
			continue
		}
		// written-out loop: the dynamic call of an element of the listener slice
		if core.IsDynamic(c) {
			if u, ok := c.Common().Value.(*ssa.UnOp); ok {
				if ia, ok := u.X.(*ssa.IndexAddr); ok {
					if f, ok := core.LoadedField(ia.X); ok && f == lf && lf.Name != "" {
						fsites = append(fsites, fanSite{c, c.Common().Args})
					}
				}
			}
		}
	}
	if len(fsites) == 0 {
		r.Bad("C1", core.FuncName(m), "has-change-fanout", p.Pos(m.Pos()), "the mutation never calls the OnChange listeners")
	}
	for _, fs := range fsites {
		c := fs.at
		okEdge := false
		for _, ed := range dominatingEdges(c) {
			ci := core.Cond(ed.If.Cond)
			if ci.Kind == "nilcmp" && types.TypeString(ci.X.Type(), nil) == "error" {
				truth := ed.Succ == 0
				if ci.Negate {
					truth = !truth
				}
				if (ci.Op == token.EQL) == truth {
					okEdge = true
				}
			}
		}
		if viaWrapper[c] {
			okEdge = true // the report helper fans out on its own error==nil edge (checked with the helper)
		}
		r.Check(okEdge, "C1", core.FuncName(m), "fanout-on-success-edge", p.InstrPos(c), "callbacks run only after the mutation's error was observed nil", "callbacks are not dominated by the success edge of the mutation")
		if len(fs.args) < 3 {
			r.Bad("C1", core.FuncName(m), "fanout-args", p.InstrPos(c), "the listeners are not called with (id, before, after)")
			continue
		}
		args := append([]ssa.Value{nil}, fs.args...) // (recv), id, before, after
		// the transaction's id, or (mock store, empty id) the id generated through the store's hook
		idok := true
		nID := 0
		for _, lf := range valueLeaves(args[1], nil, 0) {
			if f, ok := core.LoadedField(lf.V); ok && f == idF {
				nID++
				continue
			}
			if loadsFieldThroughCell(lf.V, idF) {
				nID++
				continue
			}
			if c, ok := lf.V.(*ssa.Call); ok && core.IsDynamic(c) {
				if _, isFld := core.LoadedField(c.Common().Value); isFld {
					continue // generated by a hook field of the store
				}
			}
			if s0, isC := core.ConstString(lf.V); isC && s0 == "" && len(valueLeaves(args[1], nil, 0)) > 1 {
				continue // the id an id-producing helper returns together with its error
			}
			idok = false
		}
		r.Check(idok && nID > 0, "C1", core.FuncName(m), "fanout-arg-id=txn.id", p.InstrPos(c), "id is the transaction's id", "callbacks get "+valDesc(args[1])+" as id")
		beforeNil := isNilConst(args[2])
		afterNil := isNilConst(args[3])
		afterParam := len(m.Params) > 1 && paramOrItsCell(core.Strip(args[3]), m.Params[1])
		switch name {
		case "Create":
			r.Check(beforeNil && afterParam, "C1", core.FuncName(m), "fanout-args(nil,new)", p.InstrPos(c), "create reports (nil, new value)", "create reports before="+valDesc(args[2])+" after="+valDesc(args[3]))
		case "Update":
			r.Check(!beforeNil && afterParam && beforeFromSameTxn(args[2], m), "C1", core.FuncName(m), "fanout-args(before-read-in-txn,new)", p.InstrPos(c), "update reports (value read in the same transaction/critical section, new value)", "update reports before="+valDesc(args[2])+" after="+valDesc(args[3])+" (before must be the value read in the same transaction)")
		case "Delete":
			r.Check(!beforeNil && afterNil && beforeFromSameTxn(args[2], m), "C1", core.FuncName(m), "fanout-args(before-read-in-txn,nil)", p.InstrPos(c), "delete reports (value read in the same transaction/critical section, nil)", "delete reports before="+valDesc(args[2])+" after="+valDesc(args[3]))
		}
	}
}

// c11IsReportWrapper: h has an error parameter e and one error result; every
// return on the e != nil edge returns e and no fan-out precedes it; every
// other return is reached only on the e == nil edge, returns nil, and exactly
// one fan-out call dominates it.
func c11IsReportWrapper(h *ssa.Function, isFanout func(ssa.Instruction) bool) bool {
	if h.Signature.Results().Len() != 1 || types.TypeString(h.Signature.Results().At(0).Type(), nil) != "error" {
		return false
	}
	var e *ssa.Parameter
	for _, prm := range h.Params {
		if types.TypeString(prm.Type(), nil) == "error" {
			if e != nil {
				return false
			}
			e = prm
		}
	}
	if e == nil {
		return false
	}
	var fans []ssa.Instruction
	for _, b := range h.Blocks {
		for _, in := range b.Instrs {
			if isFanout(in) {
				fans = append(fans, in)
			}
		}
	}
	if len(fans) == 0 {
		return false
	}
	nOK := 0
	for _, ret := range core.Returns(h) {
		onErr, onNil := false, false
		for _, ed := range dominatingEdges(ret) {
			ci := core.Cond(ed.If.Cond)
			if ci.Kind != "nilcmp" || core.Strip(ci.X) != ssa.Value(e) {
				continue
			}
			truth := ed.Succ == 0
			if ci.Negate {
				truth = !truth
			}
			if (ci.Op == token.NEQ) == truth {
				onErr = true
			} else {
				onNil = true
			}
		}
		nDom := 0
		for _, f := range fans {
			if core.Dominates(f, ret) {
				nDom++
			}
		}
		switch {
		case onErr && ret.Results[0] == ssa.Value(e) && nDom == 0:
		case onNil && isNilConst(ret.Results[0]) && nDom == 1:
			nOK++
		default:
			return false
		}
	}
	return nOK > 0
}

func isNilConst(v ssa.Value) bool {
	c, ok := core.Strip(v).(*ssa.Const)
	return ok && c.IsNil()
}

// beforeFromSameTxn: the before value is (a phi/cell of) a value read from the
// store inside this method: result of getValue in the update closure, a map
// lookup on the store's resources, or the result of the store's hook.
func beforeFromSameTxn(v ssa.Value, m *ssa.Function) bool {
	var chk func(v ssa.Value, d int) bool
	chk = func(v ssa.Value, d int) bool {
		if d > 6 {
			return false
		}
		v = core.Strip(v)
		switch x := v.(type) {
		case *ssa.Phi:
			for _, e := range x.Edges {
				if c, ok := e.(*ssa.Const); ok && c.IsNil() {
					continue
				}
				if !chk(e, d+1) {
					return false
				}
			}
			return true
		case *ssa.Extract:
			switch t := x.Tuple.(type) {
			case *ssa.Lookup:
				return true
			case *ssa.Call:
				_ = t
				return true // hook or getValue result
			}
		case *ssa.Lookup:
			return true
		case *ssa.UnOp:
			if x.Op == token.MUL {
				// cell written inside the closure(s) of m from getValue / the txn cache
				al, ok := x.X.(*ssa.Alloc)
				if !ok {
					if _, isFA := x.X.(*ssa.FieldAddr); isFA {
						return true // cached value field of the txn (K2 judges coherence)
					}
					return false
				}
				found := false
				for _, f2 := range withAnon(m) {
					for _, b := range f2.Blocks {
						for _, in := range b.Instrs {
							st, ok := in.(*ssa.Store)
							if !ok {
								continue
							}
							tgt := st.Addr
							if fv, ok := tgt.(*ssa.FreeVar); ok {
								tgt = core.BindingOf(fv)
							}
							if tgt != ssa.Value(al) {
								continue
							}
							if c, ok := st.Val.(*ssa.Const); ok && c.IsNil() {
								continue
							}
							if !chk(st.Val, d+1) {
								return false
							}
							found = true
						}
					}
				}
				return found
			}
		}
		return false
	}
	return chk(v, 0)
}

// paramOrItsCell: v is the parameter, or a load of the local cell go/ssa
// creates for a captured parameter (whose only stored value is the parameter).
func paramOrItsCell(v ssa.Value, prm *ssa.Parameter) bool {
	if v == ssa.Value(prm) {
		return true
	}
	u, ok := v.(*ssa.UnOp)
	if !ok || u.Op != token.MUL {
		return false
	}
	al, ok := u.X.(*ssa.Alloc)
	if !ok || al.Referrers() == nil {
		return false
	}
	n := 0
	for _, rf := range *al.Referrers() {
		if st, ok := rf.(*ssa.Store); ok && st.Addr == ssa.Value(al) {
			if st.Val != ssa.Value(prm) {
				return false
			}
			n++
		}
	}
	// stores through closures' free variables
	for _, a := range al.Parent().AnonFuncs {
		for _, f2 := range withAnon(a) {
			for _, b := range f2.Blocks {
				for _, in := range b.Instrs {
					if st, ok := in.(*ssa.Store); ok {
						if fv, ok := st.Addr.(*ssa.FreeVar); ok && core.BindingOf(fv) == ssa.Value(al) {
							return false
						}
					}
				}
			}
		}
	}
	return n == 1
}

// sameCellLoadOfCall: v is a load of a cell whose reaching store is the
// result of call c (err = f(); if err != nil ...).
func sameCellLoadOfCall(v ssa.Value, c ssa.CallInstruction) bool {
	u, ok := v.(*ssa.UnOp)
	if !ok || u.Op != token.MUL {
		return false
	}
	// the closest preceding store to the cell in the same block is the call's value
	blk := u.Block()
	var last *ssa.Store
	for _, in := range blk.Instrs {
		if in == ssa.Instruction(u) {
			break
		}
		if st, ok := in.(*ssa.Store); ok && st.Addr == u.X {
			last = st
		}
	}
	return last != nil && c.Value() != nil && last.Val == ssa.Value(c.Value())
}

// persistentWriters: the top-level methods through which a store performed
// by pointer-receiver method m outlives the call. A private helper whose
// every call site passes the address of a value receiver's local copy (or of
// another local) contributes nothing.
func persistentWriters(p *core.Prog, m *ssa.Function, seen map[*ssa.Function]bool) []string {
	if seen[m] {
		return nil
	}
	seen[m] = true
	callers := p.CallersOf(m)
	if (m.Object() != nil && m.Object().Exported()) || p.AddrTaken(m) || len(callers) == 0 {
		return []string{m.Name()}
	}
	var out []string
	for _, c := range callers {
		if len(c.Common().Args) == 0 {
			out = append(out, m.Name())
			continue
		}
		root := c.Common().Args[0]
		for {
			if fa, ok := root.(*ssa.FieldAddr); ok {
				root = fa.X
				continue
			}
			if fv, ok := root.(*ssa.FreeVar); ok {
				if b := core.BindingOf(fv); b != nil {
					root = b
					continue
				}
			}
			break
		}
		if _, isLocal := root.(*ssa.Alloc); isLocal {
			continue // a local copy: the write dies with the caller's frame
		}
		caller := core.Outermost(c.Parent())
		if caller.Signature.Recv() != nil {
			if _, isPtr := caller.Signature.Recv().Type().(*types.Pointer); isPtr && len(caller.Params) > 0 && root == ssa.Value(caller.Params[0]) {
				out = append(out, persistentWriters(p, caller, seen)...)
				continue
			}
		}
		out = append(out, caller.Name())
	}
	return out
}

// fanoutFuncs: the declared functions of package rel that call the listeners
// registered through the exported Store method named setter (they load the
// field that setter stores into and make a dynamic call).
// c11FanoutUnconditional: a fan-out function (the function that ranges over the
// listeners of a store) reaches its loop on every call: the read of the listener
// list dominates every return. A fan-out that returns early on a test of the
// values ("nothing changed") makes a successful mutation run no callback.
func c11FanoutUnconditional(r *core.Run, rule, rel, setter string) {
	p := r.P
	lf := listenerFieldOf(p, rel, "Store", setter)
	for fn := range fanoutFuncs(p, rel, setter) {
		if fn.Signature.Recv() == nil || !strings.HasSuffix(core.TypeName(fn.Signature.Recv().Type()), "Store") {
			continue
		}
		var load ssa.Instruction
		for _, ac := range core.FieldAccesses([]*ssa.Function{fn}, func(g core.Field) bool { return g == lf }) {
			if ac.Kind == "load" && load == nil {
				load = ac.Instr
			}
		}
		if load == nil {
			continue
		}
		bad := ""
		for _, ret := range core.Returns(fn) {
			if fn.Recover != nil && ret.Block() == fn.Recover {
				continue
			}
			if !core.Dominates(load, ret) {
				var conds []string
				for _, e := range dominatingEdges(ret) {
					conds = append(conds, describeCond(e))
				}
				bad = "return at " + p.InstrPos(ret) + " under " + strings.Join(conds, " && ")
			}
		}
		r.Check(bad == "", rule, core.FuncName(fn), "fan-out-reaches-the-listeners-on-every-call", p.InstrPos(load), "every call of the fan-out function reads the listener list and ranges over it", "the fan-out function can return without calling the listeners ("+bad+"): a mutation that succeeded - and was approved by the before-change listeners - then runs no change callback")
	}
}

func fanoutFuncs(p *core.Prog, rel, setter string) map[*ssa.Function]bool {
	return fanoutFuncsOf(p, rel, "Store", setter)
}

func fanoutFuncsOf(p *core.Prog, rel, tname, setter string) map[*ssa.Function]bool {
	out := map[*ssa.Function]bool{}
	m := methodNamed(p, rel, tname, setter)
	if m == nil {
		return out
	}
	var fld core.Field
	found := false
	for _, b := range m.Blocks {
		for _, in := range b.Instrs {
			if st, ok := in.(*ssa.Store); ok {
				if f, ok := core.FieldOf(st.Addr); ok {
					fld, found = f, true
				}
			}
		}
	}
	if !found {
		return out
	}
	for _, fn := range p.FuncsOfPkg(rel) {
		if fn == m || fn.Parent() != nil {
			continue
		}
		dyn := false
		for _, c := range core.Calls(fn) {
			if core.IsDynamic(c) {
				dyn = true
			}
		}
		if !dyn {
			continue
		}
		for _, ac := range core.FieldAccesses([]*ssa.Function{fn}, func(g core.Field) bool { return g == fld }) {
			if ac.Kind == "load" {
				out[fn] = true
			}
		}
	}
	return out
}

// c11CacheCoherence is rule K2 for one store package (shared with C13 / C14,
// whose index deltas are computed from the before-values the transaction
// reports).
func c11CacheCoherence(r *core.Run, rule, rel string) {
	p := r.P
	fns := p.FuncsOfPkg(rel)
	short := rel[strings.LastIndex(rel, "/")+1:]
	val := methodNamed(p, rel, "readTxn", "Value")
	muts := map[string]*ssa.Function{}
	for _, n := range []string{"Create", "Update", "Delete"} {
		muts[n] = methodNamed(p, rel, "writeTxn", n)
	}
	if val == nil {
		r.Unres(rule, short+".readTxn.Value", "method missing")
		return
	}
	// cache fields: fields of readTxn that Value() returns directly
	cache := map[core.Field]bool{}
	for _, ret := range core.Returns(val) {
		if f, ok := core.LoadedField(ret.Results[0]); ok && f.Struct == qual(rel, "readTxn") {
			cache[f] = true
		}
	}
	if len(cache) == 0 {
		r.OKTrivial(rule, short+".readTxn", "no-cached-value", "-", "Value() never returns a field of the transaction: nothing is cached")
	}
	for f := range cache {
		// live writers: stores to f through a pointer receiver (not a local copy of a value receiver)
		live := map[string]bool{}
		refreshes := map[string]bool{}
		for _, ac := range core.FieldAccesses(fns, func(g core.Field) bool { return g == f }) {
			if ac.Kind != "store" {
				continue
			}
			m := core.Outermost(ac.Fn)
			if m.Signature.Recv() == nil {
				continue
			}
			if _, isPtr := m.Signature.Recv().Type().(*types.Pointer); isPtr {
				// a pointer-receiver helper whose every call site passes the address of
				// a value receiver's local copy writes nothing that outlives the caller
				ws := persistentWriters(p, m, map[*ssa.Function]bool{})
				for _, w := range ws {
					live[w] = true
				}
				// a refresh stores the value the mutation leaves behind: its new-value parameter, or nil
				st := ac.Instr.(*ssa.Store)
				isNew := isNilConst(st.Val)
				if len(m.Params) > 1 && paramOrItsCell(core.Strip(st.Val), m.Params[1]) {
					isNew = true
				}
				if isNew {
					for _, w := range ws {
						refreshes[w] = true
					}
				}
			}
		}
		if len(live) == 0 {
			r.OK(rule, short+".readTxn", "cache("+f.Name+")-is-dead", "-", "every method that assigns the cached value has a value receiver: the assignment never outlives the call, so reads always hit the database and see the transaction's own writes")
			continue
		}
		var missing []string
		for n, m := range muts {
			if m != nil && !refreshes[n] {
				missing = append(missing, n)
			}
		}
		sort.Strings(missing)
		r.Check(len(missing) == 0, rule, short+".readTxn", "cache("+f.Name+")-refreshed-by-every-mutation", "-", "every mutation persistently stores the value it leaves behind into the cache",
			fmt.Sprintf("the cached value is persistently written by %v but %v do not store the value they leave behind (new value / nil) into it: after a mutation in the same write transaction Value() and the next mutation's before-value are stale (own writes invisible, not-found lost, wrong index deltas and change notifications)", core.SortedKeys(live), missing))
	}
}

// loadsFieldThroughCell: v is a load of a local / captured variable whose
// every assigned value is a load of field f (id := wt.id ... use of id).
func loadsFieldThroughCell(v ssa.Value, f core.Field) bool {
	u, ok := v.(*ssa.UnOp)
	if !ok || u.Op != token.MUL {
		return false
	}
	cell := u.X
	if fv, ok := cell.(*ssa.FreeVar); ok {
		cell = core.BindingOf(fv)
	}
	al, ok := cell.(*ssa.Alloc)
	if !ok || al.Referrers() == nil {
		return false
	}
	n := 0
	for _, fn := range withAnon(core.Outermost(al.Parent())) {
		for _, b := range fn.Blocks {
			for _, in := range b.Instrs {
				st, ok := in.(*ssa.Store)
				if !ok {
					continue
				}
				tgt := st.Addr
				if fv, ok := tgt.(*ssa.FreeVar); ok {
					tgt = core.BindingOf(fv)
				}
				if tgt != ssa.Value(al) {
					continue
				}
				if g, ok := core.LoadedField(st.Val); !ok || g != f {
					return false
				}
				n++
			}
		}
	}
	return n > 0
}

// lastStoreInBlock: the value most recently stored, earlier in the same block,
// to the cell that ld loads (nil if there is none).
func lastStoreInBlock(ld *ssa.UnOp) ssa.Value {
	b := ld.Block()
	var last ssa.Value
	for _, in := range b.Instrs {
		if in == ssa.Instruction(ld) {
			return last
		}
		if st, ok := in.(*ssa.Store); ok && st.Addr == ld.X {
			last = st.Val
		}
	}
	return nil
}

// c11FanoutAfterCommit (shared as C10.G2 / C13.K7): the change listeners of a
// store mutation are called outside the transaction closure, i.e. after the
// commit succeeded. Called inside the closure they would announce a value that
// a failing commit (conflict) never stores.
func c11FanoutAfterCommit(r *core.Run, rule, rel string) {
	p := r.P
	fan := fanoutFuncs(p, rel, "OnChange")
	lf := listenerFieldOf(p, rel, "Store", "OnChange")
	for _, n := range []string{"Create", "Update", "Delete"} {
		m := methodNamed(p, rel, "writeTxn", n)
		if m == nil {
			r.Unres(rule, rel+".writeTxn."+n, "method missing")
			continue
		}
		isFanout := func(in ssa.Instruction) bool {
			if c, ok := in.(*ssa.Call); ok {
				cal := c.Common().StaticCallee()
				return cal != nil && fan[cal] && cal != m
			}
			if u, ok := in.(*ssa.UnOp); ok {
				if f, ok := core.LoadedField(u); ok && f == lf && lf.Name != "" {
					if u.Referrers() != nil {
						for _, rf := range *u.Referrers() {
							if _, isRange := rf.(*ssa.Range); isRange {
								return true
							}
							if _, isIdx := rf.(*ssa.IndexAddr); isIdx {
								return true
							}
						}
					}
				}
			}
			return false
		}
		inside, outside := "", 0
		for _, f2 := range withAnon(m) {
			for _, b := range f2.Blocks {
				for _, in := range b.Instrs {
					if !isFanout(in) {
						continue
					}
					if f2 == m {
						outside++
					} else {
						inside = p.InstrPos(in)
					}
				}
			}
		}
		// the fan-out may also sit in a private helper of the method (not of the closure)
		for _, h := range p.Helpers(m) {
			if h == m {
				continue
			}
			for _, b := range h.Blocks {
				for _, in := range b.Instrs {
					if isFanout(in) {
						outside++
					}
				}
			}
		}
		r.Check(inside == "" && outside > 0, rule, core.FuncName(m), "change-announced-after-commit", p.Pos(m.Pos()), "the change listeners are called by the method itself, after the transaction returned", "the change listeners are called inside the transaction closure ("+inside+") or not at all: a change is announced before the commit, also when the commit then fails (conflict) - listeners publish events and index a value that is not stored")
	}
}

// c11LockHeldForTheWholeTransaction: between the acquire in Read / Write and
// the release in the transaction's Close nothing releases a lock: no method of
// a transaction type other than Close - nor anything it calls inside the
// package (the change fan-out, helpers) - calls Unlock / RUnlock. Releasing
// the store's lock "while the listeners run" lets another goroutine's write
// transaction on the same id run to completion inside the open one.
func c11LockHeldForTheWholeTransaction(r *core.Run, rule, rel, short string) {
	p := r.P
	for _, tn := range []string{"readTxn", "writeTxn"} {
		for _, m := range methodsOf(p, rel, tn) {
			if m.Name() == "Close" || len(m.Blocks) == 0 {
				continue
			}
			seen := map[*ssa.Function]bool{}
			bad := ""
			var walk func(f *ssa.Function, d int)
			walk = func(f *ssa.Function, d int) {
				if f == nil || seen[f] || len(f.Blocks) == 0 || f.Pkg != m.Pkg || d > 6 {
					return
				}
				seen[f] = true
				for _, a := range f.AnonFuncs {
					walk(a, d+1)
				}
				for _, c := range core.Calls(f) {
					if k := isLockCall(c); k == "Unlock" || k == "RUnlock" {
						bad = p.InstrPos(c)
					}
					if cal := c.Common().StaticCallee(); cal != nil && cal.Name() != "Close" {
						walk(cal, d+1)
					}
				}
			}
			walk(m, 0)
			r.Check(bad == "", rule, core.FuncName(m), "no-release-before-Close", p.Pos(m.Pos()), "nothing this method reaches inside the package releases a lock", "a lock is released (at "+bad+") in the middle of an open transaction - in a method other than Close, or in what it calls: another goroutine's write transaction on the same id can run inside the window, this transaction's later reads see the other's write, and its own writes are interleaved with it")
		}
	}
}

// c11ReadErrorAborts: in the transaction bodies of Update and Delete the read
// of the stored value decides: on the edge where it reported an error - any
// error - no database write is reachable. A body that carries on with "no
// before-value" (a stored value that no longer decodes) removes or replaces
// the value while its listeners are told before == nil: the indexes keep the
// old entry and no query change is announced (C11.E3; shared as C14.N7).
func c11ReadErrorAborts(r *core.Run, rule string) {
	p := r.P
	rel := "store/badgerstore"
	mayGet := mayExec(p.FuncsOfPkg(rel), func(in ssa.Instruction) bool {
		c, ok := in.(ssa.CallInstruction)
		return ok && isBadgerCall(c, "Txn", "Get")
	})
	mayWrite := mayExec(p.FuncsOfPkg(rel), func(in ssa.Instruction) bool {
		c, ok := in.(ssa.CallInstruction)
		return ok && isTxnWrite(c)
	})
	n := 0
	for _, mn := range []string{"Update", "Delete"} {
		m := methodNamed(p, rel, "writeTxn", mn)
		if m == nil {
			r.Unres(rule, rel+".writeTxn."+mn, "missing")
			continue
		}
		for _, body := range txnBodies(m) {
			isWriteBlock := func(b *ssa.BasicBlock) bool {
				for _, in := range b.Instrs {
					c, ok := in.(ssa.CallInstruction)
					if !ok {
						continue
					}
					if isTxnWrite(c) {
						return true
					}
					if cal := c.Common().StaticCallee(); cal != nil && cal.Pkg == body.Pkg && mayWrite[cal] {
						return true
					}
				}
				return false
			}
			for _, c := range core.Calls(body) {
				cal := c.Common().StaticCallee()
				if cal == nil || !(isBadgerCall(c, "Txn", "Get") || (cal.Pkg == body.Pkg && mayGet[cal] && !mayWrite[cal])) || c.Value() == nil || c.Value().Referrers() == nil {
					continue
				}
				var errv ssa.Value
				for _, rf := range *c.Value().Referrers() {
					if ex, ok := rf.(*ssa.Extract); ok && types.TypeString(ex.Type(), nil) == "error" {
						errv = ex
					}
				}
				if errv == nil {
					continue
				}
				n++
				bad := ""
				for _, b := range body.Blocks {
					iff, ok := b.Instrs[len(b.Instrs)-1].(*ssa.If)
					if !ok {
						continue
					}
					ci := core.Cond(iff.Cond)
					if ci.Kind != "nilcmp" || !(core.Strip(ci.X) == errv || sameVariable(core.Strip(ci.X), errv) || storedFrom(core.Strip(ci.X), errv)) {
						continue
					}
					failSucc := 1
					if (ci.Op == token.NEQ) != ci.Negate {
						failSucc = 0
					}
					seen := map[*ssa.BasicBlock]bool{}
					st := []*ssa.BasicBlock{b.Succs[failSucc]}
					for len(st) > 0 {
						x := st[len(st)-1]
						st = st[:len(st)-1]
						if seen[x] {
							continue
						}
						seen[x] = true
						if isWriteBlock(x) {
							bad = p.InstrPos(x.Instrs[0])
						}
						st = append(st, x.Succs...)
					}
				}
				r.Check(bad == "", rule, core.FuncName(body), "read-error-reaches-no-write:"+cal.Name(), p.InstrPos(c), "on the edge where the read of the stored value failed no write is reachable", "a database write (block at "+bad+") is reachable on the edge where reading the stored value reported an error: the value is replaced or removed although its before-value is unknown - the change listeners get before == nil, the indexes keep the entry of the old value and no query change is announced")
			}
		}
	}
	if n == 0 {
		r.Unres(rule, rel+".writeTxn.<read-in-body>", "no read of the stored value with an error result in the bodies of Update / Delete")
	}
}

// storedFrom: v is a load of a cell whose (only) stored values include w
// (`before, err = read(); if err != nil`, with err a captured or outer variable).
func storedFrom(v, w ssa.Value) bool {
	ld, ok := v.(*ssa.UnOp)
	if !ok || ld.Op != token.MUL || ld.X.Referrers() == nil {
		return false
	}
	for _, rf := range *ld.X.Referrers() {
		if st, ok := rf.(*ssa.Store); ok && st.Addr == ld.X && core.Strip(st.Val) == w && st.Block() == ld.Block() {
			return true
		}
	}
	return false
}

// c11DuplicateDecidedByRawRead: badgerstore's Create answers "duplicate"
// exactly when the key holds bytes: every return of the duplicate sentinel
// lies on the err == nil edge of a Txn.Get, and every database write of Create
// on an edge where such a read failed. A test through the decoding read
// (Exists / Value) takes an id whose stored bytes do not decode into the
// current type for free, and Create overwrites it.
func c11DuplicateDecidedByRawRead(r *core.Run, rule string) {
	p := r.P
	rel := "store/badgerstore"
	m := methodNamed(p, rel, "writeTxn", "Create")
	if m == nil {
		r.Unres(rule, rel+".writeTxn.Create", "missing")
		return
	}
	isGetErr := func(v ssa.Value) bool {
		ex, ok := core.Strip(v).(*ssa.Extract)
		if !ok {
			return false
		}
		c, ok := ex.Tuple.(*ssa.Call)
		return ok && isBadgerCall(c, "Txn", "Get") && types.TypeString(ex.Type(), nil) == "error"
	}
	onRawEdge := func(in ssa.Instruction, wantNil bool) bool {
		for _, ed := range dominatingEdges(in) {
			for _, ft := range edgeFacts(ed) {
				ci := core.Cond(ft.V)
				if ci.Kind != "nilcmp" || !(isGetErr(ci.X)) {
					continue
				}
				isNil := (ci.Op == token.EQL) == ft.True
				if ci.Negate {
					isNil = !isNil
				}
				if isNil == wantNil {
					return true
				}
			}
		}
		return false
	}
	nDup := 0
	for _, f2 := range p.Scope(m) {
		if f2.Pkg != m.Pkg {
			continue
		}
		for _, ret := range core.Returns(f2) {
			for _, rv := range ret.Results {
				for _, src := range phiSources(rv) {
					if g, ok := loadedGlobal(src.V); ok && g == "ErrDuplicate" {
						nDup++
						at := ssa.Instruction(ret)
						if src.Pred != nil {
							at = src.Pred.Instrs[len(src.Pred.Instrs)-1]
						}
						r.Check(onRawEdge(at, true), rule, core.FuncName(f2), "duplicate-decided-by-Txn.Get", p.InstrPos(ret), "the duplicate sentinel is returned on the edge where Txn.Get found the key", "the duplicate answer does not come from the raw read of the key (Txn.Get err == nil) but from something else - a decoding read reports \"absent\" for stored bytes that do not fit the current type, and Create then overwrites the value, runs the listeners with before == nil and reports success")
					}
				}
			}
		}
	}
	if nDup == 0 {
		r.Bad(rule, core.FuncName(m), "duplicate-decided-by-Txn.Get", p.Pos(m.Pos()), "Create never returns the duplicate sentinel")
	}
}

// c11CodecAgreement is C11.E4: what is written with one codec is read with the
// same one. The binary codec calls of the store (MarshalBinary on the write
// side, UnmarshalBinary on the read side) are guarded by the same stored
// flags; where the writer decides by the value's dynamic type and the reader
// by the flag fixed in SetType, a type that implements only the marshaler is
// written in binary and read back as JSON: Value and Exists fail right after a
// successful Create, in the same transaction and in later ones.
func c11CodecAgreement(r *core.Run, rule, rel string) {
	p := r.P
	type site struct {
		c     ssa.CallInstruction
		kind  string
		guard string
	}
	var sites []site
	for _, fn := range p.FuncsOfPkg(rel) {
		for _, c := range core.Calls(fn) {
			if !c.Common().IsInvoke() {
				continue
			}
			n := c.Common().Method.Name()
			if n != "MarshalBinary" && n != "UnmarshalBinary" {
				continue
			}
			var gs []string
			for _, ed := range ctxEdges(p, c, core.Outermost(fn), 0) {
				ci := core.Cond(ed.If.Cond)
				if ci.Kind == "boolfield" && ci.HasFld {
					gs = append(gs, describeCond(ed))
				}
			}
			sort.Strings(gs)
			sites = append(sites, site{c, n, strings.Join(gs, " && ")})
		}
	}
	if len(sites) == 0 {
		r.OKTrivial(rule, rel, "binary-codec-guards-agree", "-", "the store has no binary codec")
		return
	}
	ref := ""
	for _, s := range sites {
		if s.kind == "UnmarshalBinary" {
			ref = s.guard
		}
	}
	for _, s := range sites {
		r.Check(s.guard == ref, rule, core.FuncName(s.c.Parent()), "binary-codec-guard("+s.kind+")=reader's", p.InstrPos(s.c), "guarded by ["+s.guard+"] like the reader", "the binary codec is chosen under ["+s.guard+"] here but under ["+ref+"] on the read side: a value type for which the two differ (a BinaryMarshaler without BinaryUnmarshaler) is written in one encoding and read in the other - Value and Exists fail right after a successful Create")
	}
}
