package props

import (
	"fmt"
	"go/token"
	"go/types"
	"strings"

	"golang.org/x/tools/go/ssa"

	"resverif/core"
)

func init() { register("C17", c17) }

// fromPatternRecv: v is a byte/rune read from the function's receiver string
// (index, range element, or a phi of such).
func fromPatternRecv(v ssa.Value, recv ssa.Value, d int) bool {
	if d > 6 {
		return false
	}
	switch x := v.(type) {
	case *ssa.Lookup:
		return core.Strip(x.X) == recv
	case *ssa.Index:
		return core.Strip(x.X) == recv
	case *ssa.Extract:
		if nx, ok := x.Tuple.(*ssa.Next); ok {
			if rg, ok := nx.Iter.(*ssa.Range); ok {
				return core.Strip(rg.X) == recv
			}
		}
	case *ssa.Phi:
		any := false
		for _, e := range x.Edges {
			if !fromPatternRecv(e, recv, d+1) {
				return false
			}
			any = true
		}
		return any
	case *ssa.Convert, *ssa.ChangeType:
		return fromPatternRecv(core.Strip(v), recv, d+1)
	}
	return false
}

// isStartFlag: v is a token-start flag: a bool phi with an input that is the
// constant true from outside its loop, whose other inputs are constants, a
// comparison with '.', or (transitively) such phis.
func isStartFlag(v ssa.Value, d int) bool {
	if d > 4 {
		return false
	}
	phi, ok := v.(*ssa.Phi)
	if !ok {
		return false
	}
	if b, ok := phi.Type().Underlying().(*types.Basic); !ok || b.Kind() != types.Bool {
		return false
	}
	hasEntryTrue := false
	for i, e := range phi.Edges {
		pred := phi.Block().Preds[i]
		switch x := e.(type) {
		case *ssa.Const:
			if isConstBool(x, true) && !reachesBlock(phi.Block(), pred) {
				hasEntryTrue = true
			}
		case *ssa.BinOp:
			if k, ok := core.ConstInt(x.Y); !(ok && k == '.' && x.Op == token.EQL) {
				return false
			}
		case *ssa.Phi:
			if x != phi && !isStartFlagInner(x, phi, d+1) {
				return false
			}
		default:
			return false
		}
	}
	return hasEntryTrue
}

// isStartFlagInner: a phi merging values of the flag inside the loop body
// (constants, '.'-comparisons, the flag itself).
func isStartFlagInner(x *ssa.Phi, outer *ssa.Phi, d int) bool {
	if d > 4 {
		return false
	}
	for _, e := range x.Edges {
		switch y := e.(type) {
		case *ssa.Const:
		case *ssa.BinOp:
			if k, ok := core.ConstInt(y.Y); !(ok && k == '.' && y.Op == token.EQL) {
				return false
			}
		case *ssa.Phi:
			if y != outer && y != x && !isStartFlagInner(y, outer, d+1) {
				return false
			}
		default:
			return false
		}
	}
	return true
}

func condIsFlag(c ssa.Value) (bool, bool) { // (isFlag, negated)
	neg := false
	for {
		if u, ok := c.(*ssa.UnOp); ok && u.Op == token.NOT {
			neg = !neg
			c = u.X
			continue
		}
		break
	}
	return isStartFlag(c, 0), neg
}

// skipJumps follows blocks that only jump.
func skipJumps(b *ssa.BasicBlock) *ssa.BasicBlock {
	for i := 0; i < 4; i++ {
		if len(b.Instrs) == 1 {
			if _, ok := b.Instrs[0].(*ssa.Jump); ok {
				b = b.Succs[0]
				continue
			}
		}
		break
	}
	return b
}

func c17(r *core.Run) {
	p := r.P
	r.Explanation = "Sibling analysis of the hand-written pattern scanners: in every scanner that compares a byte of the pattern with '$', '*' or '>', the wildcard-meaning edge is under a token-start guard (a loop-carried flag that is true at entry and after '.', tested before or right after the comparison; or the byte is element 0 of a split token); the one reasoned exception (Values) is accepted only with its witness (the literal branch consumes a whole token in an inner loop). The three validators agree on the printable range and all single out '?'. Tag replacement is a single simultaneous pass (a replacement result is never scanned again). Decides that no scanner can give a wildcard meaning mid-token; agreement of the operations on every string is not enumerated."
	r.NotDecided = []string{"agreement of the five operations on every string (needs evaluation)", "pattern covering", "id transformer round trip"}
	r.Assumptions = []string{"patterns handed to Matches/Values/replace are valid (documented precondition) except for the token-start rule, which the property states for all"}

	r.Rule("G1", "token-start guard: every comparison of a pattern byte with '$', '*' or '>' has its wildcard edge under a token-start flag (tested before the comparison or immediately on its true edge) or applies to element 0 of a split token; exception Values, with the witness that its literal branch consumes a whole token in an inner loop", 12)
	r.Rule("G4", "no position-blind wildcard search: library code never looks for '$', '*' or '>' with a strings/bytes search, split, count or replace function (which cannot know whether the hit is at the start of a token); prefix/suffix tests are anchored and allowed", 1)
	r.Rule("G5", "a one-token wildcard never covers a full wildcard: in Pattern.Matches every loop that skips a token of the argument (for a '$tag' or '*' token of the pattern) is entered only after the argument's current byte was compared with '>' and found different; otherwise \"a.$id\" would be said to cover \"a.>\"", 1)
	r.Rule("G2", "character class: Pattern.IsValid, IsValidRID and isValidPart reject the same range (below 33, above 126) and each treats '?' specially", 3)
	r.Rule("G3", "single pass: tag replacement scans the original pattern once; the result of a replacement is never the receiver of another replacement", 2)

	r.Rule("G7", "routing is token-wise on the path as well (shared with C06.R7): Mux.GetHandler strips the mux path only at a token boundary; Pattern.Matches / Values, with which routing must agree, never match 'library' against 'lib.$id'", 1)
	r.Rule("G6", "routing accepts what the grammar accepts (shared with C06.R9): the trie matcher returns false only after the literal, the placeholder and the full-wildcard child were all tried, so a name that Pattern.Matches accepts for a registered pattern is not lost because another, longer pattern shares a literal prefix token with it", 1)
	if ro := resolveMuxRolesFor(r, "G6"); ro != nil {
		c06NoEarlyFailure(r, "G6", ro)
	}
	c06PrefixBoundary(r, "G7")
	r.Rule("G10", "registration accepts what the grammar accepts (shared with C06.R3): the function every handler registration passes through panics on a pattern Pattern.IsValid rejects before the trie is touched - validating in one public entry point only lets the others register patterns the validators reject", 1)
	if ro := resolveMuxRolesFor(r, "G10"); ro != nil {
		c06AddValidates(r, "G10", ro)
	}
	r.Rule("G11", "registration accepts the placeholder forms the grammar accepts (shared with C06.R10): analysed with the current pattern token assumed to be exactly \"*\" (valid for Pattern.IsValid, any number of times in one pattern) and a one-letter literal, the trie insertion reaches no panic", 2)
	if ro := resolveMuxRolesFor(r, "G11"); ro != nil {
		c06RegistrationAccepts(r, "G11", ro)
	}
	r.Rule("G12", "the full pattern is composed when asked: the value Mux.FullPath returns (the prefix of every pattern handed to OnRegister and of every listener pattern) derives from the parent mux read at call time - a full path remembered at Mount time is stale for a mux that was mounted before its own parent was (nested Route calls mount inner-first): handlers added afterwards are told a pattern that does not match the names routed to them", 1)
	c17FullPathFollowsParent(r, "G12")
	r.Rule("G13", "a pattern is rendered into memory of its own: no function of the package stores into an element of a []string it was handed (or a re-slice of it) - the registration-time traversal shares one path buffer between all nodes, so placeholder names written into it in place leak into the patterns rendered for the nodes visited afterwards (a handler registered with `*` is told another handler's `$tag`)", 1)
	c17NoElementStoreIntoStringSliceParam(r, "G13")
	r.Rule("G9", "exact tokenisation: library code never splits with strings/bytes Fields or FieldsFunc (they drop empty tokens, so names with empty tokens are routed like other names and a separators-only name has no first token) and never strips a variable prefix with a cutset function (Trim, TrimLeft, TrimRight)", 1)
	c17ExactTokens(r, "G9", []string{"", "store", "store/badgerstore", "store/mockstore", "resprot", "middleware", "middleware/resbadger"}, "library")
	r.Rule("G8", "the pattern handed out at registration is the pattern routed (shared with C06.R11): the registration-time traversal that reconstructs a handler's pattern rebinds the mount index at mount points, as the matcher does; otherwise a handler below a nested mount is told a pattern with its placeholder on another token, and id -> resource id -> id through the transformers is no longer the identity", 2)
	if ro := resolveMuxRolesFor(r, "G8"); ro != nil {
		c06MountAware(r, "G8", ro)
	}

	// ---- G5 --------------------------------------------------------------
	if mf := methodNamed(p, "", "Pattern", "Matches"); mf != nil && len(mf.Params) == 2 {
		arg := mf.Params[1]
		isArgElem := func(v ssa.Value) bool {
			switch x := v.(type) {
			case *ssa.Index:
				return x.X == ssa.Value(arg)
			case *ssa.Lookup:
				return x.X == ssa.Value(arg)
			}
			return false
		}
		nSkip := 0
		for _, b := range mf.Blocks {
			iff, ok := b.Instrs[len(b.Instrs)-1].(*ssa.If)
			if !ok {
				continue
			}
			bo, ok := iff.Cond.(*ssa.BinOp)
			if !ok || (bo.Op != token.NEQ && bo.Op != token.EQL) || !isArgElem(bo.X) {
				continue
			}
			if k, isC := core.ConstInt(bo.Y); !isC || k != '.' {
				continue
			}
			// a skip loop: this test is re-evaluated (the block reaches itself)
			if !reachesBlock(b, b) {
				continue
			}
			nSkip++
			guarded := false
			for _, ed := range dominatingEdges(iff) {
				cnd, succ := ed.Norm()
				g, ok := cnd.(*ssa.BinOp)
				if !ok || !isArgElem(g.X) {
					continue
				}
				if k, isC := core.ConstInt(g.Y); !isC || k != '>' {
					continue
				}
				if (g.Op == token.NEQ) == (succ == 0) {
					guarded = true
				}
			}
			r.Check(guarded, "G5", core.FuncName(mf), "token-skip-only-after-'>'-rejected", p.InstrPos(iff), "the argument's token is skipped only when it is not the full wildcard", "a '$tag' / '*' token of the pattern skips a token of the argument without first rejecting '>': Pattern(\"a.$id\").Matches(\"a.>\") is true although \"a.>\" has names (a.b.c) the first pattern does not match - covering disagrees with matching")
		}
		// the skip loop may live in a helper that is handed the argument
		for _, c := range core.Calls(mf) {
			cal := c.Common().StaticCallee()
			if cal == nil || len(cal.Blocks) == 0 || cal.Pkg != mf.Pkg {
				continue
			}
			ai := -1
			for i, a := range c.Common().Args {
				if a == ssa.Value(arg) {
					ai = i
				}
			}
			if ai < 0 || ai >= len(cal.Params) {
				continue
			}
			hp := cal.Params[ai]
			loops := false
			for _, b := range cal.Blocks {
				iff, ok := b.Instrs[len(b.Instrs)-1].(*ssa.If)
				if !ok || !reachesBlock(b, b) {
					continue
				}
				if bo, ok := iff.Cond.(*ssa.BinOp); ok {
					if ix, ok := bo.X.(*ssa.Index); ok && ix.X == ssa.Value(hp) {
						if k, isC := core.ConstInt(bo.Y); isC && k == '.' {
							loops = true
						}
					}
				}
			}
			if !loops {
				continue
			}
			nSkip++
			guarded := false
			for _, ed := range dominatingEdges(c) {
				cnd, succ := ed.Norm()
				g, ok := cnd.(*ssa.BinOp)
				if !ok || !isArgElem(g.X) {
					continue
				}
				if k, isC := core.ConstInt(g.Y); !isC || k != '>' {
					continue
				}
				if (g.Op == token.NEQ) == (succ == 0) {
					guarded = true
				}
			}
			r.Check(guarded, "G5", core.FuncName(mf), "token-skip-only-after-'>'-rejected", p.InstrPos(c), "the argument's token is skipped only when it is not the full wildcard", "a '$tag' / '*' token of the pattern skips a token of the argument (through "+core.FuncName(cal)+") without first rejecting '>'")
		}
		if nSkip == 0 {
			r.Bad("G5", core.FuncName(mf), "has-token-skip-loop", p.Pos(mf.Pos()), "no loop skipping a token of the argument found in Matches (rule went vacuous)")
		}
	}

	// ---- G4 --------------------------------------------------------------
	{
		blind := map[string]bool{"Index": true, "IndexByte": true, "IndexRune": true, "IndexAny": true, "IndexFunc": false, "LastIndex": true, "LastIndexByte": true, "LastIndexAny": true,
			"Contains": true, "ContainsRune": true, "ContainsAny": true, "Count": true, "Split": true, "SplitN": true, "SplitAfter": true, "SplitAfterN": true,
			"Replace": true, "ReplaceAll": true, "Cut": true, "Trim": true, "TrimLeft": true, "TrimRight": true, "Fields": false}
		nScan := 0
		for _, rel := range []string{"", "store"} {
			for _, fn := range p.FuncsOfPkg(rel) {
				for _, c := range core.Calls(fn) {
					cal := c.Common().StaticCallee()
					if cal == nil || cal.Pkg == nil {
						continue
					}
					pk := cal.Pkg.Pkg.Path()
					if (pk != "strings" && pk != "bytes") || !blind[cal.Name()] {
						continue
					}
					nScan++
					for i, a := range c.Common().Args {
						if i == 0 {
							continue // the haystack
						}
						needle := ""
						if sv, ok := core.ConstString(a); ok {
							needle = sv
						} else if k, ok := core.ConstInt(a); ok && k > 0 && k < 128 {
							needle = string(rune(k))
						} else {
							// a needle assembled from a wildcard character and a name ("$" + tag), also
							// when it was built outside the closure that uses it
							needle = constPartsOf(a, 0)
						}
						if strings.ContainsAny(needle, "$*>") {
							r.Bad("G4", core.FuncName(fn), "position-blind-search:"+cal.Name()+"("+fmt.Sprintf("%q", needle)+")", p.InstrPos(c), "a wildcard character is located with "+pk+"."+cal.Name()+", which also finds it in the middle of a token: this operation then gives '$', '*' or '>' wildcard meaning where the validator, matcher and mux treat it as a literal")
						}
					}
				}
			}
		}
		r.OK("G4", "pattern-operations", "no-position-blind-wildcard-search", "-", fmt.Sprintf("%d strings/bytes search calls scanned, none looks for a wildcard character", nScan))
	}

	// ---- G1 --------------------------------------------------------------
	var scanners []*ssa.Function
	for _, fn := range methodsOf(p, "", "Pattern") {
		scanners = append(scanners, withAnon(fn)...)
	}
	nCmp := c17WildcardGuard(r, "G1", nil)
	r.Analysed["wildcard_comparisons"] = nCmp
	// ... and a pattern byte is compared literally with a byte of the argument only after the
	// wildcard question was asked: a test of the token-start flag or of the pattern byte against
	// '$' / '*' / '>' dominates every literal comparison. With the literal comparison first, a name
	// token that happens to start with the wildcard character is matched byte-wise against the tag
	// name ("$id" vs "$42"), while extraction, routing and the transformers treat it as a value.
	for _, fn := range scanners {
		if len(fn.Params) < 2 || fn.Parent() != nil {
			continue
		}
		recv := ssa.Value(fn.Params[0])
		hasWild := false
		for _, b := range fn.Blocks {
			for _, in := range b.Instrs {
				if bo, ok := in.(*ssa.BinOp); ok && bo.Op == token.EQL {
					if k, isC := core.ConstInt(bo.Y); isC && (k == '$' || k == '*' || k == '>') && fromPatternRecv(bo.X, recv, 0) {
						hasWild = true
					}
				}
			}
		}
		if !hasWild {
			continue
		}
		fromArg := func(v ssa.Value) bool {
			var base ssa.Value
			switch lk := core.Strip(v).(type) {
			case *ssa.Lookup:
				base = lk.X
			case *ssa.Index:
				base = lk.X
			default:
				return false
			}
			prm, ok := core.Strip(base).(*ssa.Parameter)
			return ok && prm != fn.Params[0] && isStringType(prm.Type())
		}
		nLit := 0
		for _, b := range fn.Blocks {
			for _, in := range b.Instrs {
				bo, ok := in.(*ssa.BinOp)
				if !ok || (bo.Op != token.EQL && bo.Op != token.NEQ) {
					continue
				}
				if !((fromPatternRecv(bo.X, recv, 0) && fromArg(bo.Y)) || (fromPatternRecv(bo.Y, recv, 0) && fromArg(bo.X))) {
					continue
				}
				nLit++
				decided := false
				for _, d := range fn.Blocks {
					if len(d.Instrs) == 0 || !(d != b && d.Dominates(b)) {
						continue
					}
					iff, ok := d.Instrs[len(d.Instrs)-1].(*ssa.If)
					if !ok {
						continue
					}
					if isF, _ := condIsFlag(iff.Cond); isF {
						decided = true
					}
					if wb, ok := iff.Cond.(*ssa.BinOp); ok && wb.Op == token.EQL {
						if k, isC := core.ConstInt(wb.Y); isC && (k == '$' || k == '*' || k == '>') && fromPatternRecv(wb.X, recv, 0) {
							decided = true
						}
					}
				}
				r.Check(decided, "G1", core.FuncName(fn), fmt.Sprintf("literal-compare#%d-after-the-wildcard-decision", nLit), p.InstrPos(bo), "the literal comparison is reached only after the token-start / wildcard test", "a pattern byte is compared with the argument's byte before it was asked whether it is a wildcard at the start of a token: a name token that starts with '$', '*' or '>' is then matched literally against the tag name, although extraction, routing and the id transformers treat the token as a value - matching and the other operations disagree")
			}
		}
	}
	// fetch: element-0 form
	fetch := methodNamed(p, "", "Mux", "fetch")
	if fetch == nil {
		// by role: the registration walk of the mux, whatever it is called
		if ro := resolveMuxRolesFor(r, "G1"); ro != nil {
			fetch = ro.fetch
		}
	}
	if fetch != nil {
		for _, b := range fetch.Blocks {
			for _, in := range b.Instrs {
				bo, ok := in.(*ssa.BinOp)
				if !ok || bo.Op != token.EQL {
					continue
				}
				k, isC := core.ConstInt(bo.Y)
				if !isC || !(k == '$' || k == '*' || k == '>') {
					continue
				}
				idx0 := false
				var ix ssa.Value
				switch lk := bo.X.(type) {
				case *ssa.Lookup:
					ix = lk.Index
				case *ssa.Index:
					ix = lk.Index
				}
				if ix != nil {
					if i, ok := core.ConstInt(ix); ok && i == 0 {
						idx0 = true
					}
				}
				r.Check(idx0, "G1", core.FuncName(fetch), fmt.Sprintf("wildcard-compare(%q)-on-token[0]", rune(k)), p.InstrPos(bo), "compares the first byte of a split token", fmt.Sprintf("the mux gives a wildcard meaning to a byte that is not the first of its token (%T %v)", bo.X, bo.X))
			}
		}
	} else {
		r.Unres("G1", "(*Mux).fetch", "missing")
	}

	// ---- G2 --------------------------------------------------------------
	c17CharClass(r, "G2", nil)

	// ---- G3 --------------------------------------------------------------
	isRepl := func(c ssa.CallInstruction) bool {
		cal := c.Common().StaticCallee()
		if cal == nil || cal.Signature.Recv() == nil || core.TypeName(cal.Signature.Recv().Type()) != "Pattern" {
			return false
		}
		return cal.Name() == "replace" || cal.Name() == "ReplaceTag" || cal.Name() == "ReplaceTags"
	}
	var derivesFromRepl func(v ssa.Value, d int) bool
	derivesFromRepl = func(v ssa.Value, d int) bool {
		if d > 5 {
			return false
		}
		v = core.Strip(v)
		switch x := v.(type) {
		case *ssa.Call:
			return isRepl(x)
		case *ssa.Phi:
			for _, e := range x.Edges {
				if derivesFromRepl(e, d+1) {
					return true
				}
			}
		}
		return false
	}
	nRepl := 0
	for _, fn := range scanners {
		for _, c := range core.Calls(fn) {
			if !isRepl(c) {
				continue
			}
			nRepl++
			again := derivesFromRepl(c.Common().Args[0], 0)
			inLoop := core.Reaches(c, c)
			r.Check(!again && !inLoop, "G3", core.FuncName(fn), "replacement-on-original-pattern:"+c.Common().StaticCallee().Name(), p.InstrPos(c), "replacement scans the caller's pattern once", "a replacement result is scanned for tags again (sequential instead of simultaneous substitution): a substituted value that looks like a tag is replaced a second time")
		}
	}
	if nRepl == 0 {
		r.Bad("G3", "Pattern", "replacement-calls", "-", "no replacement call found")
	}
	_ = strings.Join
}

// onlyPureBefore: the block has no effectful instruction before its final If
// (only loads, phis, comparisons).
func onlyPureBefore(b *ssa.BasicBlock) bool {
	for _, in := range b.Instrs[:len(b.Instrs)-1] {
		switch in.(type) {
		case *ssa.Phi, *ssa.BinOp, *ssa.UnOp, *ssa.DebugRef, *ssa.Lookup, *ssa.Index:
		default:
			return false
		}
	}
	return true
}

// literalBranchConsumesToken: from the false edge of a '>' comparison there
// is a cycle that does not pass the outer loop head and that contains a
// comparison with '.'.
func literalBranchConsumesToken(fn *ssa.Function, recv ssa.Value) bool {
	for _, b := range fn.Blocks {
		iff, ok := b.Instrs[len(b.Instrs)-1].(*ssa.If)
		if !ok {
			continue
		}
		bo, ok := iff.Cond.(*ssa.BinOp)
		if !ok || bo.Op != token.EQL {
			continue
		}
		if k, ok := core.ConstInt(bo.Y); !ok || k != '>' || !fromPatternRecv(bo.X, recv, 0) {
			continue
		}
		start := b.Succs[1]
		// outer loop heads: loop heads that dominate b
		barrier := map[*ssa.BasicBlock]bool{}
		for h := range rangeLoopHead(fn) {
			if h.Dominates(b) {
				barrier[h] = true
			}
		}
		// find a block reachable from start (avoiding barrier) that reaches itself (avoiding barrier) and the cycle has a '.' compare
		seen := map[*ssa.BasicBlock]bool{}
		st := []*ssa.BasicBlock{start}
		var region []*ssa.BasicBlock
		for len(st) > 0 {
			x := st[len(st)-1]
			st = st[:len(st)-1]
			if seen[x] || barrier[x] {
				continue
			}
			seen[x] = true
			region = append(region, x)
			st = append(st, x.Succs...)
		}
		for _, x := range region {
			cyc := false
			for _, s := range x.Succs {
				if !barrier[s] && reachAvoiding(s, x, func(*ssa.BasicBlock) bool { return false }, barrier) {
					cyc = true
				}
			}
			if !cyc {
				continue
			}
			for _, in := range x.Instrs {
				if c2, ok := in.(*ssa.BinOp); ok && c2.Op == token.EQL {
					if k, ok := core.ConstInt(c2.Y); ok && k == '.' {
						return true
					}
				}
			}
		}
	}
	return false
}

// constPartsOf: the constant string parts of a concatenation, following a
// captured or local variable to the value stored in it.
func constPartsOf(v ssa.Value, depth int) string {
	if depth > 5 || v == nil {
		return ""
	}
	switch x := v.(type) {
	case *ssa.Const:
		if sv, ok := core.ConstString(x); ok {
			return sv
		}
	case *ssa.BinOp:
		if x.Op == token.ADD {
			return constPartsOf(x.X, depth+1) + constPartsOf(x.Y, depth+1)
		}
	case *ssa.Convert:
		return constPartsOf(x.X, depth+1)
	case *ssa.ChangeType:
		return constPartsOf(x.X, depth+1)
	case *ssa.Phi:
		out := ""
		for _, e := range x.Edges {
			if e != v {
				out += constPartsOf(e, depth+1)
			}
		}
		return out
	case *ssa.UnOp:
		if x.Op != token.MUL {
			return ""
		}
		cell := x.X
		if fv, ok := cell.(*ssa.FreeVar); ok {
			cell = core.BindingOf(fv)
		}
		al, ok := cell.(*ssa.Alloc)
		if !ok || al.Referrers() == nil {
			return ""
		}
		out := ""
		for _, rf := range *al.Referrers() {
			if st, ok := rf.(*ssa.Store); ok && st.Addr == ssa.Value(al) {
				out += constPartsOf(st.Val, depth+1)
			}
		}
		return out
	}
	return ""
}

// c17ExactTokens: resource names, patterns and keys are cut where the grammar
// says - at every separator, empty tokens included, and by exact prefixes. Two
// families of standard functions do something else and look deceptively like
// the exact ones: Fields / FieldsFunc drop empty fields (so "a..b" and "a.b"
// tokenise alike and a name of separators only yields no token at all), and
// Trim / TrimLeft / TrimRight take a *set of characters*, not a prefix (so
// with a variable "prefix" they keep eating characters of what follows).
// Expected count today: zero; the rule is kept alive by its seeded mutants.
func c17ExactTokens(r *core.Run, rule string, rels []string, what string) {
	p := r.P
	nScan := 0
	for _, rel := range rels {
		for _, fn := range p.FuncsOfPkg(rel) {
			for _, c := range core.Calls(fn) {
				cal := c.Common().StaticCallee()
				if cal == nil || cal.Pkg == nil {
					continue
				}
				pk := cal.Pkg.Pkg.Path()
				if pk != "strings" && pk != "bytes" {
					continue
				}
				nScan++
				switch cal.Name() {
				case "Fields", "FieldsFunc":
					r.Bad(rule, core.FuncName(fn), "lossy-split:"+cal.Name(), p.InstrPos(c), pk+"."+cal.Name()+" drops empty fields: a name with an empty token (\"a..b\", a trailing or leading separator) is tokenised like another name, and a name of separators only yields no token at all (the matcher indexes the first token)")
				case "Trim", "TrimLeft", "TrimRight":
					if len(c.Common().Args) == 2 {
						if _, isConst := core.ConstString(c.Common().Args[1]); !isConst {
							if _, isK := c.Common().Args[1].(*ssa.Const); !isK {
								r.Bad(rule, core.FuncName(fn), "cutset-trim-with-variable-set:"+cal.Name(), p.InstrPos(c), pk+"."+cal.Name()+" removes any run of the *characters* of its second argument, which here is a variable ("+valDesc(c.Common().Args[1])+"): used to strip a prefix it also eats the first characters of what follows whenever they occur in the prefix")
							}
						}
					}
				}
			}
		}
	}
	r.OK(rule, what, "exact-tokenisation-and-prefix-stripping", "-", fmt.Sprintf("%d strings/bytes calls scanned: no Fields/FieldsFunc, no Trim* with a variable cutset", nScan))
}

// c17WildcardGuard: every comparison of a pattern byte with '$', '*' or '>'
// in the pattern operations selected by only gives the byte wildcard meaning
// under the token-start flag (C17.G1; C09 shares it for Matches, which decides
// which owned pattern covers which).
func c17WildcardGuard(r *core.Run, rule string, only func(*ssa.Function) bool) int {
	p := r.P
	var scanners []*ssa.Function
	for _, fn := range methodsOf(p, "", "Pattern") {
		if only == nil || only(fn) {
			scanners = append(scanners, withAnon(fn)...)
		}
	}
	nCmp := 0
	for _, fn := range scanners {
		if len(fn.Params) == 0 {
			continue
		}
		recv := ssa.Value(fn.Params[0])
		if fn.Parent() != nil {
			continue
		}
		for _, b := range fn.Blocks {
			for _, in := range b.Instrs {
				bo, ok := in.(*ssa.BinOp)
				if !ok || bo.Op != token.EQL {
					continue
				}
				k, isC := core.ConstInt(bo.Y)
				if !isC || !(k == '$' || k == '*' || k == '>') || !fromPatternRecv(bo.X, recv, 0) {
					continue
				}
				nCmp++
				construct := fmt.Sprintf("wildcard-compare(%q)", rune(k))
				// (a) guard before: a dominating edge on which the flag is true
				guarded := false
				for _, ed := range dominatingEdges(bo) {
					if isF, neg := condIsFlag(ed.If.Cond); isF {
						truth := ed.Succ == 0
						if neg {
							truth = !truth
						}
						if truth {
							guarded = true
						}
					}
				}
				// (b) guard right after: the block on the true edge tests the flag first
				if !guarded && bo.Referrers() != nil {
					for _, rf := range *bo.Referrers() {
						iff, ok := rf.(*ssa.If)
						if !ok {
							continue
						}
						tb := skipJumps(iff.Block().Succs[0])
						if i2, ok := tb.Instrs[len(tb.Instrs)-1].(*ssa.If); ok {
							if isF, _ := condIsFlag(i2.Cond); isF && onlyPureBefore(tb) {
								guarded = true
							}
						}
					}
				}
				if guarded {
					r.OK(rule, core.FuncName(fn), construct, p.InstrPos(bo), "wildcard meaning only when the token-start flag holds")
					continue
				}
				if fn.Name() == "Values" {
					// witness: the literal branch (false edge of the last wildcard compare) has an inner loop
					if literalBranchConsumesToken(fn, recv) {
						r.ExemptObl(rule, core.FuncName(fn), construct, p.InstrPos(bo), "Values re-enters its switch only at token starts: the literal branch consumes the rest of the token in an inner loop that exits on '.', end or mismatch (witness checked)")
					} else {
						r.Bad(rule, core.FuncName(fn), construct, p.InstrPos(bo), "Values' literal branch no longer consumes a whole token, so its unguarded wildcard comparisons can hit mid-token bytes")
					}
					continue
				}
				r.Bad(rule, core.FuncName(fn), construct, p.InstrPos(bo), "a pattern byte is given wildcard meaning without a token-start guard: '$', '*' or '>' in the middle of a token is treated as a wildcard by this operation but as a literal by the others")
			}
		}
	}
	return nCmp
}

// c17CharClass: the validators accept exactly the printable non-space ASCII
// range and single out '?' (C17.G2; C18 shares it for IsValidRID, which
// decides what a Ref may hold).
func c17CharClass(r *core.Run, rule string, only map[string]bool) {
	p := r.P
	type vf struct {
		name string
		fn   *ssa.Function
	}
	vals := []vf{{"(Pattern).IsValid", methodNamed(p, "", "Pattern", "IsValid")}, {"IsValidRID", p.Func("IsValidRID")}, {"isValidPart", p.Func("isValidPart")}}
	for _, v := range vals {
		if only != nil && !only[v.name] {
			continue
		}
		if v.fn == nil {
			r.Unres(rule, v.name, "missing")
			continue
		}
		// the accepted class under "every character of the argument is v" (one dataflow run per v)
		cc := classOf(p, v.fn)
		bad := ""
		for _, ch := range charReps {
			if cc.Accept[ch] && (ch < 33 || ch > 126) && bad == "" {
				bad = fmt.Sprintf("accepts character %#x outside 33..126", ch)
			}
		}
		for _, ch := range "azAZ09_-!~" { // the last two are the ends of the range (33 and 126)
			if !cc.Accept[int(ch)] && bad == "" {
				bad = fmt.Sprintf("rejects the ordinary character %q", ch)
			}
		}
		if v.name != "(Pattern).IsValid" {
			// a resource id / a name part is a concrete name: '*' and '>' are refused wherever they stand
			// (as a whole token they are wildcards of a pattern, inside a token registration refuses them)
			for _, ch := range "*>" {
				if (cc.Accept[int(ch)] || cc.AcceptMid[int(ch)]) && bad == "" {
					bad = fmt.Sprintf("accepts the wildcard character %q in some position", ch)
				}
			}
		}
		if !cc.AcceptMid['b'] && bad == "" {
			bad = "rejects an ordinary character behind another one"
		}
		if cc.Extractions == 0 {
			bad = "does not look at the characters of its argument"
		}
		q := cc.ComparesWith['?']
		if !q && bad == "" {
			bad = "does not single out '?'"
		}
		sig := fmt.Sprintf("accepts only 33..126 (all of a-z A-Z 0-9 _ -), singles out '?'=%v", q)
		r.Check(bad == "", rule, v.name, "character-class", p.Pos(v.fn.Pos()), sig, "validators disagree on the character class: "+v.name+" "+bad+" (expected: exactly the printable non-space ASCII range 33..126 with '?' special)")
	}
}

// c17FullPathFollowsParent: some value flowing into a result of Mux.FullPath
// is read through the mux's parent link (the *Mux member of Mux).
func c17FullPathFollowsParent(r *core.Run, rule string) {
	p := r.P
	fp := methodNamed(p, "", "Mux", "FullPath")
	if fp == nil || len(fp.Params) == 0 {
		r.Unres(rule, "Mux.FullPath", "missing")
		return
	}
	isParentLoad := func(v ssa.Value) bool {
		f, ok := core.LoadedField(v)
		if !ok || f.Struct != "Mux" {
			return false
		}
		pt, isP := v.Type().Underlying().(*types.Pointer)
		return isP && core.TypeName(pt.Elem()) == "Mux"
	}
	seen := map[ssa.Value]bool{}
	found := false
	helperOfFP := map[*ssa.Function]bool{}
	for _, h := range p.Helpers(fp) {
		helperOfFP[h] = true
	}
	var back func(v ssa.Value, d int)
	back = func(v ssa.Value, d int) {
		if v == nil || seen[v] || d > 10 || found {
			return
		}
		seen[v] = true
		if isParentLoad(core.Strip(v)) {
			found = true
			return
		}
		switch x := v.(type) {
		case *ssa.Call:
			if x.Common().IsInvoke() {
				back(x.Common().Value, d+1)
			}
			for _, a := range x.Common().Args {
				back(a, d+1)
			}
			// what a private helper of FullPath returns (mountPrefix: the parent's path and the mount point)
			if cal := x.Common().StaticCallee(); cal != nil && cal != fp && helperOfFP[cal] {
				for _, ret := range core.Returns(cal) {
					for _, rv := range ret.Results {
						back(rv, d+1)
					}
				}
			}
		case *ssa.Phi:
			for _, e := range x.Edges {
				back(e, d+1)
			}
		case *ssa.BinOp:
			back(x.X, d+1)
			back(x.Y, d+1)
		case *ssa.UnOp:
			back(x.X, d+1)
		case *ssa.FieldAddr:
			back(x.X, d+1)
		case *ssa.Convert:
			back(x.X, d+1)
		case *ssa.Extract:
			back(x.Tuple, d+1)
		}
	}
	n := 0
	for _, h := range p.Helpers(fp) {
		for _, ret := range core.Returns(h) {
			if h != fp {
				continue
			}
			n++
			for _, rv := range ret.Results {
				back(rv, 0)
			}
		}
	}
	r.Check(found && n > 0, rule, core.FuncName(fp), "result-derives-from-the-parent-link", p.Pos(fp.Pos()), "a value read through the parent mux flows into the result", "no result of FullPath depends on anything read through the parent mux: the path of the parents is not followed at call time (a prefix stored at Mount time is a snapshot - wrong for every mux mounted before its parent was attached)")
}

// c17NoElementStoreIntoStringSliceParam is C17.G13.
func c17NoElementStoreIntoStringSliceParam(r *core.Run, rule string) {
	p := r.P
	var fromParam func(v ssa.Value, d int) *ssa.Parameter
	fromParam = func(v ssa.Value, d int) *ssa.Parameter {
		if d > 5 {
			return nil
		}
		switch x := core.Strip(v).(type) {
		case *ssa.Parameter:
			if sl, ok := x.Type().Underlying().(*types.Slice); ok && isStringType(sl.Elem()) {
				return x
			}
		case *ssa.Slice:
			return fromParam(x.X, d+1)
		case *ssa.Phi:
			for _, e := range x.Edges {
				if q := fromParam(e, d+1); q != nil {
					return q
				}
			}
		}
		return nil
	}
	n, bad := 0, 0
	for _, fn := range p.FuncsOfPkg("") {
		for _, in := range instrsOf(fn) {
			st, ok := in.(*ssa.Store)
			if !ok {
				continue
			}
			ia, ok := st.Addr.(*ssa.IndexAddr)
			if !ok {
				continue
			}
			n++
			if prm := fromParam(ia.X, 0); prm != nil {
				bad++
				r.Bad(rule, core.FuncName(fn), "no-element-store-into-the-[]string-parameter("+prm.Name()+")", p.InstrPos(st), "an element of the []string parameter "+prm.Name()+" is overwritten in place: the caller's slice (the traversal's shared path buffer) keeps the value, so what is rendered for the nodes visited afterwards contains this node's placeholder names")
			}
		}
	}
	if bad == 0 {
		r.OK(rule, "library", "no-element-store-into-a-[]string-parameter", "-", fmt.Sprintf("%d element stores scanned: none goes into a []string parameter", n))
	}
}
