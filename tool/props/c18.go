package props

import (
	"encoding/json"
	"fmt"
	"go/constant"
	"go/token"
	"go/types"
	"sort"
	"strings"

	"golang.org/x/tools/go/ssa"

	"resverif/core"
)

func init() { register("C18", c18) }

// initStringLiterals returns the string constants converted to byte slices /
// RawMessage in a package's init function and in its functions.
func jsonObjectLiterals(p *core.Prog, rel string) []string {
	set := map[string]bool{}
	fns := append([]*ssa.Function{}, p.FuncsOfPkg(rel)...)
	if ini := p.SPkgs[rel].Func("init"); ini != nil {
		fns = append(fns, ini)
	}
	for _, fn := range fns {
		for _, b := range fn.Blocks {
			for _, in := range b.Instrs {
				if cv, ok := in.(*ssa.Convert); ok {
					if s, ok := core.ConstString(cv.X); ok && strings.HasPrefix(s, "{") {
						set[s] = true
					}
				}
			}
		}
	}
	return core.SortedKeys(set)
}

func localStructTags(fn0 *ssa.Function) map[string]tagInfo {
	out := map[string]tagInfo{}
	// the function and the same-package helpers it calls (an unmarshal helper may hold the struct)
	fns := []*ssa.Function{fn0}
	for _, c := range core.Calls(fn0) {
		if cal := c.Common().StaticCallee(); cal != nil && len(cal.Blocks) > 0 && cal.Pkg == fn0.Pkg {
			fns = append(fns, cal)
		}
	}
	for _, fn := range fns {
		localStructTagsIn(fn, out)
	}
	return out
}

func localStructTagsIn(fn *ssa.Function, out map[string]tagInfo) {
	for _, b := range fn.Blocks {
		for _, in := range b.Instrs {
			if al, ok := in.(*ssa.Alloc); ok {
				if st, ok := al.Type().(*types.Pointer).Elem().Underlying().(*types.Struct); ok {
					for k, v := range jsonTags(st) {
						out[k] = v
					}
				}
			}
		}
	}
}

func c18(r *core.Run) {
	p := r.P
	r.Explanation = "Wire vocabulary agreement between the service package, the store's value parser and the client package, decided on constants, struct tags and literals: the reference prefix/suffix constants name the members the unmarshalers and the store's value object read (rid, soft:true), the delete-action literal is identical in both packages and uses the action constant, the data-value member is 'data' on all sides; the response envelope and the get/access result members agree between service and client; every hand-assembled byte buffer (Ref, SoftRef, data value) is filled exactly for every input length (symbolic linear layout) and its only variable-length segment is the output of json.Marshal for the id/value (so quoting and escaping come from the encoder). Inverse-ness on values is not decided."
	r.NotDecided = []string{"decode(encode(x)) == x on values (needs evaluation)", "the store's classifier Value.UnmarshalJSON on every JSON text", "equality being an equivalence"}
	r.Assumptions = []string{"encoding/json produces valid, correctly escaped JSON for strings"}

	r.Rule("V1", "reference/data/delete vocabulary: prefix and suffix constants parse (with a placeholder id) to an object with exactly the members the unmarshalers and the store's valueObject declare; the delete-action literal is the same in service and store and uses the action constant; 'data' is the data-value member everywhere", 6)
	r.Rule("V2", "envelopes: {result,resource,error}, {model,collection,query} and {get,call} have the same JSON member names in the service's response structs and the client package's parse structs", 3)
	r.Rule("V6", "members the client does not declare are tolerated: the service's response envelopes may carry members (meta: status, header) that the client's Response struct does not declare; then the client package must not decode strictly (no json.Decoder.DisallowUnknownFields), otherwise such a response is classified as an internal error", 1)
	r.Rule("V8", "an error response decodes to the error the handler supplied (shared with C05.E3): the Error(err) method of a request type answers with ToError(err) through the error funnel on every path; it does not pick a predefined static reply by testing the error (errors.Is, its code), which would drop the handler's message and data", 2)
	r.Rule("V9", "a result response is what the encoder wrote (shared with C07.P8): every payload handed to a reply funnel is a package-level literal or the output of json.Marshal - a response spliced together from raw bytes the handler supplied (a nil or invalid json.RawMessage) is not JSON, and the client classifies it as an error instead of the result the handler gave", 4)
	c07PayloadProvenance(r, "V9", replyFunnels(r.P), r.P.FuncsOfPkg(""))
	r.Rule("V11", "what is published is what was encoded (shared with C07.P10): no function appends onto a truncated prefix of a slice it was handed - a trace helper shortening a large payload that way replaces bytes in the middle of the response the client is about to parse", 1)
	c07NoAppendIntoForeignPrefix(r, "V11", []string{"", "resprot"})
	r.Rule("V12", "what a reference may hold (shared with C17.G2): IsValidRID accepts exactly the printable non-space ASCII range 33..126 and singles out '?': a wider class (DEL, 0x7f) lets Ref / SoftRef values through validation that the protocol - and the other validators - reject", 1)
	c17CharClass(r, "V12", map[string]bool{"IsValidRID": true})
	r.Rule("V13", "a response holds what its own request's callback supplied (shared with C16.O1): request objects own their memory - the function that builds and serves a request stores into no member of the longer-lived object it was handed and starts no request member on a re-slice of a buffer kept there (an event buffer reused between the requests of a query event is appended to by concurrent requests of a Parallel resource: a response then decodes to another request's events)", 5)
	c16RequestsOwnTheirMemory(r, "V13")
	r.Rule("V14", "equality implies JSON equality (shared with C10.D2): the store parser's Value.Equal compares encoded bytes and reference ids and never decodes the two sides into interface values - decoded, JSON numbers are float64, and two data values that differ only beyond float64 precision (ids above 2^53) compare equal although their JSON differs", 1)
	c10EqualityOnBytes(r, "V14")
	r.Rule("V10", "classification depends on the text only: every json.Unmarshal of the store's value parser decodes into a zero value made for that call or into the receiver's own members; a pooled or package-level scratch object keeps the members of an earlier parse that the current text does not mention (encoding/json merges), and a reference is classified as a soft reference, a data value as invalid", 1)
	r.Rule("V7", "equality looks at what the parser set: for every value class, the members of a store Value that Equal reads in that class's arm are members the value parser assigns on every path that ends in that class (the parser does not reset the others, so in a Value that is decoded into again they hold what an earlier text left behind); otherwise Equal answers from stale bytes - equal values differ, different values compare equal", 4)
	r.Rule("V3", "decoders own their bytes: no UnmarshalJSON method of the library keeps (a slice or byte-slice conversion of) its input parameter in the receiver - the json.Unmarshaler contract lets the caller reuse the buffer, after which a retained alias changes the value's JSON and its equality", 3)
	r.Rule("V4", "value classes are mutually exclusive: in the store's value parser every assignment of an object class (reference, delete action, data / primitive-in-data) happens on a path where exactly one of the members rid, action, data is known to be present and the other two are known to be absent - an object mixing them is invalid, not silently classified by whichever member is tested first", 3)
	r.Rule("V5", "a published response reaches the client's parser (shared with C19.U1): the inbox SendRequest subscribes has room for a message and nothing but the deferred release ends or limits the interest (no AutoUnsubscribe / Drain / early Unsubscribe): a service may publish a pre-response before the response, and a subscription limited to one message delivers the pre-response only - the response is then reported as system.timeout instead of what the handler supplied", 2)
	r.Rule("B3", "the wrap decision reads the first byte only: in the data-value marshallers the encoder's output is used for len, element reads, slicing, copying and returning - it is never handed to a bytes / strings search or comparison function (an object that merely starts like a wrapper must still be wrapped, or unmarshalling strips one level)", 1)
	r.Rule("B1", "buffer layout: each make([]byte,n) buffer in Ref.MarshalJSON, SoftRef.MarshalJSON and MarshalDataValue is exactly filled for every input length", 3)
	r.Rule("B2", "escaping comes from the encoder: the only variable-length segment copied into those buffers is the first result of json.Marshal", 3)
	if sr := p.Func("resprot.SendRequest"); sr != nil {
		var sub ssa.CallInstruction
		for _, c := range helperCalls(p, sr) { // the subscribe step may sit in a private helper
			if c.Common().IsInvoke() && c.Common().Method.Name() == "ChanSubscribe" {
				sub = c
			}
		}
		if sub != nil {
			var inCaller ssa.Value
			if sub.Parent() != sr {
				for _, site := range p.Lift(sub, sr) {
					if sc, ok := site.(ssa.CallInstruction); ok && sc.Value() != nil && sc.Value().Referrers() != nil {
						for _, rf := range *sc.Value().Referrers() {
							if ex, ok := rf.(*ssa.Extract); ok && strings.HasSuffix(types.TypeString(ex.Type(), nil), "nats.go.Subscription") {
								inCaller = ex
							}
						}
					}
				}
			}
			c19InboxOpen(r, "V5", sr, sub, inCaller)
		} else {
			r.Unres("V5", "resprot.SendRequest", "no ChanSubscribe")
		}
	} else {
		r.Unres("V5", "resprot.SendRequest", "missing")
	}

	consts := stringConsts(p, "")
	// ---- V1 --------------------------------------------------------------
	// the reference prefix / soft suffix by role: the constant strings the two marshallers copy
	// into their buffers (the one opening the object, the one closing the soft reference)
	constCopies := func(fn *ssa.Function) []string {
		var out []string
		if fn == nil {
			return out
		}
		for _, c := range helperCalls(p, fn) {
			if core.CalleeName(c) == "builtin:copy" && len(c.Common().Args) == 2 {
				if sv, ok := core.ConstString(c.Common().Args[1]); ok {
					out = append(out, sv)
				}
			}
		}
		return out
	}
	pre, sufSoft := consts["refPrefix"], consts["softRefSuffix"]
	for _, sv := range constCopies(methodNamed(p, "", "Ref", "MarshalJSON")) {
		if strings.HasPrefix(sv, "{") {
			pre = sv
		}
	}
	for _, sv := range constCopies(methodNamed(p, "", "SoftRef", "MarshalJSON")) {
		if strings.HasSuffix(sv, "}") && !strings.HasPrefix(sv, "{") {
			sufSoft = sv
		}
	}
	vo := p.NamedType("store", "valueObject")
	if pre == "" || sufSoft == "" || vo == nil {
		r.Unres("V1", "refPrefix/softRefSuffix/store.valueObject", "missing")
	} else {
		voTags := jsonTags(vo)
		voKeys := map[string]bool{}
		for _, t := range voTags {
			voKeys[t.Key] = true
		}
		// Ref: prefix + "x" + '}'
		var o map[string]interface{}
		err := json.Unmarshal([]byte(pre+`"x"}`), &o)
		_, hasRid := o["rid"]
		r.Check(err == nil && len(o) == 1 && hasRid && voKeys["rid"], "V1", "const refPrefix", "reference-object={rid}", "-", "prefix+id+'}' is the object {\"rid\":id}; the store reads member rid", "the reference prefix does not produce {\"rid\":...} or the store's value object has no rid member")
		var o2 map[string]interface{}
		err = json.Unmarshal([]byte(pre+`"x"`+sufSoft), &o2)
		soft, _ := o2["soft"].(bool)
		r.Check(err == nil && len(o2) == 2 && soft && voKeys["soft"], "V1", "const softRefSuffix", "soft-reference-object={rid,soft:true}", "-", "prefix+id+suffix is {\"rid\":id,\"soft\":true}; the store reads member soft", "the soft reference suffix does not produce ,\"soft\":true} or the store has no soft member")
		for _, tn := range []string{"Ref", "SoftRef"} {
			if um := methodNamed(p, "", tn, "UnmarshalJSON"); um != nil {
				tags := localStructTags(um)
				r.Check(tags["RID"].Key == "rid", "V1", core.FuncName(um), "reads-member-rid", p.Pos(um.Pos()), "unmarshals member rid", "the unmarshaler reads member "+tags["RID"].Key+", the marshaler writes rid")
			} else {
				r.Unres("V1", tn+".UnmarshalJSON", "missing")
			}
		}
		// delete action
		del := func(rel string) []string {
			var out []string
			for _, s := range jsonObjectLiterals(p, rel) {
				var m map[string]interface{}
				if json.Unmarshal([]byte(s), &m) == nil {
					if _, ok := m["action"]; ok {
						out = append(out, s)
					}
				}
			}
			return out
		}
		d1, d2 := del(""), del("store")
		actConst := stringConsts(p, "store")["actionDelete"]
		good := len(d1) == 1 && len(d2) == 1 && d1[0] == d2[0] && voKeys["action"]
		if good {
			var m map[string]string
			json.Unmarshal([]byte(d1[0]), &m)
			good = m["action"] == actConst && len(m) == 1
		}
		r.Check(good, "V1", "DeleteAction", "delete-action-literal-agrees(res,store)", "-", fmt.Sprintf("both packages use %v with action=%q", d1, actConst), fmt.Sprintf("delete action differs: res %v, store %v, action constant %q", d1, d2, actConst))
		// data value
		dvT := p.NamedType("", "DataValue")
		dataKeyRes := ""
		if dvT != nil {
			if st, ok := dvT.Underlying().(*types.Struct); ok {
				dataKeyRes = jsonTags(st)["Data"].Key
			}
		}
		mdv := p.Func("resprot.MarshalDataValue")
		udv := p.Func("resprot.UnmarshalDataValue")
		litKey := ""
		if mdv != nil {
			for _, c := range helperCalls(p, mdv) {
				if core.CalleeName(c) == "builtin:copy" {
					if s, ok := core.ConstString(c.Common().Args[1]); ok && strings.HasPrefix(s, `{"`) {
						litKey = strings.TrimSuffix(strings.TrimPrefix(s, `{"`), `":`)
					}
				}
			}
		}
		udvKey := ""
		if udv != nil {
			udvKey = localStructTags(udv)["Data"].Key
		}
		// a null data value ({"data":null}) is a data value: the member must be decoded into a
		// json.RawMessage (which keeps the bytes "null"); a pointer or interface would read
		// null as absent
		voDataT := ""
		for _, t := range voTags {
			if t.Key == "data" {
				voDataT = t.Type
			}
		}
		r.Check(voDataT == "json.RawMessage", "V1", "store.valueObject", "data-member-keeps-null(json.RawMessage)", "-", "the store's value parser decodes the data member into json.RawMessage: null stays distinguishable from absent", "the store's value object decodes the data member into "+voDataT+": {\"data\":null} is read as 'no data member' and the value is classified invalid / as something else")
		if udv != nil {
			t := localStructTags(udv)["Data"].Type
			r.Check(t == "json.RawMessage", "V1", "resprot.UnmarshalDataValue", "data-member-keeps-null(json.RawMessage)", p.Pos(udv.Pos()), "the client decodes the data member into json.RawMessage", "the client decodes the data member into "+t+": a null data value is lost")
		}
		r.Check(dataKeyRes == "data" && litKey == "data" && udvKey == "data" && voKeys["data"], "V1", "DataValue", "data-member-agrees(res,resprot,store)", "-", "DataValue tag, MarshalDataValue literal, UnmarshalDataValue struct and store.valueObject all use member data", fmt.Sprintf("data value member differs: res tag %q, marshal literal %q, unmarshal tag %q, store has data=%v", dataKeyRes, litKey, udvKey, voKeys["data"]))
	}

	// ---- V2 --------------------------------------------------------------
	keysOf := func(rel string, names ...string) string {
		set := map[string]bool{}
		for _, n := range names {
			if t := p.NamedType(rel, n); t != nil {
				for _, ti := range jsonTags(t) {
					if ti.Key != "meta" {
						set[ti.Key] = true
					}
				}
			}
		}
		ks := core.SortedKeys(set)
		sort.Strings(ks)
		return strings.Join(ks, ",")
	}
	pairs := []struct {
		what string
		a, b string
	}{
		{"response-envelope", keysOf("", "successResponse", "resourceResponse", "errorResponse"), keysOf("resprot", "Response")},
		{"get-result", keysOf("", "modelResponse", "collectionResponse"), keysOf("resprot", "GetResult")},
		{"access-result", keysOf("", "accessResponse"), keysOf("resprot", "AccessResult")},
	}
	for _, pr := range pairs {
		r.Check(pr.a == pr.b && pr.a != "", "V2", pr.what, "service-members==client-members", "-", "both sides use {"+pr.a+"}", "service writes {"+pr.a+"} but the client parses {"+pr.b+"}")
	}

	// ---- V6: members the client does not declare are tolerated -------------------------
	{
		all := func(rel string, names ...string) map[string]bool {
			set := map[string]bool{}
			for _, n := range names {
				if t := p.NamedType(rel, n); t != nil {
					for _, ti := range jsonTags(t) {
						set[ti.Key] = true
					}
				}
			}
			return set
		}
		svc := all("", "successResponse", "resourceResponse", "errorResponse")
		cli := all("resprot", "Response")
		var extra []string
		for k := range svc {
			if !cli[k] {
				extra = append(extra, k)
			}
		}
		sort.Strings(extra)
		var strict []string
		for _, fn := range p.FuncsOfPkg("resprot") {
			for _, c := range core.Calls(fn) {
				if cal := c.Common().StaticCallee(); cal != nil && cal.String() == "(*encoding/json.Decoder).DisallowUnknownFields" {
					strict = append(strict, core.FuncName(fn)+" at "+p.InstrPos(c))
				}
			}
		}
		sort.Strings(strict)
		r.Analysed["envelope_members_not_declared_by_client"] = len(extra)
		r.Check(len(extra) == 0 || len(strict) == 0, "V6", "resprot.Response", "undeclared-envelope-members-tolerated", "-",
			fmt.Sprintf("the service's envelopes carry %v beyond what the client declares; the client package uses no strict decoder, so they are ignored", extra),
			fmt.Sprintf("the service's response envelopes carry the member(s) %v that the client's Response struct does not declare, and the client package decodes strictly (%s): a response with a status or header (meta) is rejected and classified as an internal error instead of the result, resource or error the handler sent", extra, strings.Join(strict, "; ")))
	}

	// ---- V8: a handler's error reaches the client as supplied --------------------------
	c05ErrorMethodVerbatim(r, "V8")

	// ---- V7: Equal reads only what the parser wrote for that class ------------------
	c18EqualReadsWhatParserWrote(r, "V7")
	c18ParserDecodesIntoFreshObject(r, "V10")

	// ---- V3 --------------------------------------------------------------
	for _, rel := range core.LibPkgs {
		for _, fn := range p.FuncsOfPkg(rel) {
			if fn.Name() != "UnmarshalJSON" || fn.Signature.Recv() == nil || len(fn.Params) != 2 || !isByteSlice(fn.Params[1].Type()) {
				continue
			}
			data := fn.Params[1]
			var aliases func(v ssa.Value, d int) bool
			aliases = func(v ssa.Value, d int) bool {
				if d > 6 || v == nil {
					return false
				}
				switch x := v.(type) {
				case *ssa.Parameter:
					return x == data
				case *ssa.Slice:
					return aliases(x.X, d+1)
				case *ssa.ChangeType:
					return aliases(x.X, d+1)
				case *ssa.Convert:
					return isByteSlice(x.Type()) && isByteSlice(x.X.Type()) && aliases(x.X, d+1)
				case *ssa.Phi:
					for _, e := range x.Edges {
						if e != v && aliases(e, d+1) {
							return true
						}
					}
				}
				return false
			}
			bad := ""
			for _, f2 := range withAnon(fn) {
				for _, b := range f2.Blocks {
					for _, in := range b.Instrs {
						if st, ok := in.(*ssa.Store); ok && aliases(st.Val, 0) {
							if f, ok := core.FieldOf(st.Addr); ok {
								bad = f.String() + " at " + p.InstrPos(st)
							}
						}
					}
				}
			}
			// ... nor does the parsed value share memory with a package-level value: a whole value (or a
			// slice member of one) loaded from a global and stored into the receiver aliases the global's
			// backing array - the next decode into the same variable, which reuses the receiver's
			// buffer, then rewrites the global (store.DeleteValue) for the rest of the process
			shared := ""
			for _, f2 := range withAnon(fn) {
				for _, b := range f2.Blocks {
					for _, in := range b.Instrs {
						st, ok := in.(*ssa.Store)
						if !ok {
							continue
						}
						v := core.Strip(st.Val)
						g := ""
						if name, isG := loadedGlobal(v); isG {
							g = name
						} else if ld, isLd := v.(*ssa.UnOp); isLd && ld.Op == token.MUL {
							if fa, isFA := ld.X.(*ssa.FieldAddr); isFA {
								if gl, isGl := fa.X.(*ssa.Global); isGl {
									g = gl.Name()
								}
							}
						}
						if g == "" || !containsSlice(st.Val.Type(), 0) {
							continue
						}
						if derivesFromRecv(st.Addr, 0) {
							shared = "global " + g + " at " + p.InstrPos(st)
						}
					}
				}
			}
			r.Check(shared == "", "V3", core.FuncName(fn), "shares-no-memory-with-a-package-level-value", p.Pos(fn.Pos()), "nothing loaded from a package-level variable that holds a slice is stored into the receiver", "UnmarshalJSON stores a value loaded from a package-level variable into the receiver ("+shared+"): the receiver now shares its byte slice with that variable, and the next decode into the same Value (which reuses the receiver's buffer in place) overwrites the package-level value - every value typed like it then marshals to other, or invalid, JSON")
			r.Check(bad == "", "V3", core.FuncName(fn), "does-not-retain-input", p.Pos(fn.Pos()), "the input bytes are copied or only parsed, never kept", "UnmarshalJSON keeps its input slice in "+bad+": when the caller (json.Decoder, a read loop, a database item callback) reuses the buffer the decoded value silently changes - it marshals to other JSON and compares equal to different values")
		}
	}

	// ---- V4 --------------------------------------------------------------
	if um := methodNamed(p, "store", "Value", "UnmarshalJSON"); um != nil && vo != nil {
		member := map[string]string{} // field name -> json key
		for fname, t := range jsonTags(vo) {
			switch t.Key {
			case "rid", "action", "data":
				member[fname] = t.Key
			}
		}
		n := 0
		var umBlocks []*ssa.BasicBlock
		for _, h := range p.Helpers(um) {
			umBlocks = append(umBlocks, h.Blocks...)
		}
		for _, b := range umBlocks {
			for _, in := range b.Instrs {
				st, ok := in.(*ssa.Store)
				if !ok {
					continue
				}
				f, ok := core.FieldOf(st.Addr)
				if !ok || f.Name != "Type" || !strings.HasSuffix(f.Struct, "Value") {
					continue
				}
				if _, isC := st.Val.(*ssa.Const); !isC {
					continue
				}
				present, absent := map[string]bool{}, map[string]bool{}
				edges := ctxEdges(p, st, um, 0)
				// a classifier helper (`switch obj.kind()`): taking the edge "kind() == K" establishes what
				// holds on every return of the helper that yields K
				for _, ed := range ctxEdges(p, st, um, 0) {
					cnd, succ := ed.Norm()
					bo, ok := cnd.(*ssa.BinOp)
					if !ok || bo.Op != token.EQL || succ != 0 {
						continue
					}
					call, ok := bo.X.(*ssa.Call)
					k, isK := core.ConstInt(bo.Y)
					if !ok || !isK {
						continue
					}
					cal := call.Common().StaticCallee()
					if cal == nil || len(cal.Blocks) == 0 || cal.Pkg != um.Pkg || cal.Signature.Results().Len() != 1 {
						continue
					}
					var common map[edgeCond]bool
					for _, ret := range core.Returns(cal) {
						yields := false
						for _, src := range phiSources(ret.Results[0]) {
							if rk, ok := core.ConstInt(src.V); ok && rk == k {
								yields = true
							}
							if _, isC := src.V.(*ssa.Const); !isC {
								yields = true // not a constant: may be K
							}
						}
						if !yields {
							continue
						}
						cur := map[edgeCond]bool{}
						for _, he := range dominatingEdges(ret) {
							cur[he] = true
						}
						if common == nil {
							common = cur
						} else {
							for e := range common {
								if !cur[e] {
									delete(common, e)
								}
							}
						}
					}
					for e := range common {
						edges = append(edges, e)
					}
				}
				for _, ed := range edges {
					ci := core.Cond(ed.If.Cond)
					if ci.Kind != "nilcmp" || !ci.HasFld {
						continue
					}
					key, isMember := member[ci.Field.Name]
					if !isMember || !strings.HasSuffix(ci.Field.Struct, "valueObject") {
						continue
					}
					truth := ed.Succ == 0
					if ci.Negate {
						truth = !truth
					}
					if (ci.Op == token.NEQ) == truth {
						present[key] = true
					} else {
						absent[key] = true
					}
				}
				if len(present) == 0 {
					continue // not an object class (plain primitive)
				}
				n++
				good := len(present) == 1 && len(absent) == 2
				r.Check(good, "V4", core.FuncName(um), fmt.Sprintf("class(%s)-assigned-only-when-other-members-absent", strings.Join(core.SortedKeys(present), "+")), p.InstrPos(st),
					"exactly one member present, the other two absent", fmt.Sprintf("an object class is assigned while only %v is known present and %v known absent: an object mixing rid / action / data members is classified by its first-tested member instead of being rejected as invalid", core.SortedKeys(present), core.SortedKeys(absent)))
			}
		}
		if n == 0 {
			r.Bad("V4", core.FuncName(um), "assigns-object-classes", p.Pos(um.Pos()), "no class assignment under a member test found (rule went vacuous)")
		}
	}

	// ---- B1 / B2 ---------------------------------------------------------
	var fns []*ssa.Function
	for _, tn := range []string{"Ref", "SoftRef"} {
		if m := methodNamed(p, "", tn, "MarshalJSON"); m != nil {
			fns = append(fns, m)
		} else {
			r.Unres("B1", tn+".MarshalJSON", "missing")
		}
	}
	if m := p.Func("resprot.MarshalDataValue"); m != nil {
		fns = append(fns, m)
	} else {
		r.Unres("B1", "resprot.MarshalDataValue", "missing")
	}
	// ---- B3 --------------------------------------------------------------
	for _, top := range fns {
		if !strings.Contains(core.FuncName(top), "DataValue") {
			continue
		}
		n := 0
		for _, f2 := range p.Helpers(top) {
			for _, c := range core.Calls(f2) {
				call, ok := c.(*ssa.Call)
				if !ok || core.CalleeName(call) != "encoding/json.Marshal" || call.Referrers() == nil {
					continue
				}
				for _, rf := range *call.Referrers() {
					ex, ok := rf.(*ssa.Extract)
					if !ok || ex.Index != 0 || ex.Referrers() == nil {
						continue
					}
					n++
					bad := ""
					for _, use := range *ex.Referrers() {
						uc, ok := use.(ssa.CallInstruction)
						if !ok {
							continue
						}
						name := core.CalleeName(uc)
						if strings.HasPrefix(name, "bytes.") || strings.HasPrefix(name, "strings.") {
							bad = name + " at " + p.InstrPos(uc)
						}
					}
					r.Check(bad == "", "B3", core.FuncName(f2), "encoder-output-not-searched", p.InstrPos(call), "the encoded value is only measured, indexed, copied and returned", "the encoded value is inspected with "+bad+": whether a value is wrapped then depends on its content (an object starting like the wrapper goes out unwrapped and is stripped of one level by the receiver)")
				}
			}
		}
		if n == 0 {
			r.Bad("B3", core.FuncName(top), "encoder-output-not-searched", p.Pos(top.Pos()), "the data-value marshaller does not call json.Marshal")
		}
	}
	for _, top := range fns {
		// the buffer may be assembled in a private helper of the marshaller
		type fb struct {
			fn  *ssa.Function
			buf *ssa.MakeSlice
		}
		var all []fb
		for _, f2 := range p.Helpers(top) {
			for _, b := range byteBuffers(f2) {
				all = append(all, fb{f2, b})
			}
		}
		if len(all) == 0 {
			r.Bad("B1", core.FuncName(top), "has-buffer", p.Pos(top.Pos()), "no hand-assembled buffer found (rule went vacuous)")
			continue
		}
		for i, x := range all {
			fn, buf := x.fn, x.buf
			// a helper that makes the buffer and returns it partly filled is judged together with the
			// marshaller that completes it
			var via ssa.CallInstruction
			if fn != top {
				returnsBuf := false
				for _, ret := range core.Returns(fn) {
					for _, rv := range ret.Results {
						for _, src := range phiSources(rv) {
							if src.V == ssa.Value(buf) {
								returnsBuf = true
							}
						}
					}
				}
				if returnsBuf {
					for _, c := range p.CallersOf(fn) {
						if c.Parent() == top {
							via = c
						}
					}
				}
			}
			ok, desc, segs, _ := layoutCheckBufIn(p, fn, buf, via)
			r.Check(ok, "B1", core.FuncName(fn), fmt.Sprintf("buffer#%d-exactly-filled", i), p.InstrPos(buf), desc, "hand-assembled JSON buffer is not exactly filled for every input length: "+desc)
			// B2: variable segments
			for _, b := range fn.Blocks {
				for _, in := range b.Instrs {
					c, ok := in.(*ssa.Call)
					if !ok || core.CalleeName(c) != "builtin:copy" {
						continue
					}
					dst := c.Call.Args[0]
					if sl, ok := dst.(*ssa.Slice); ok {
						dst = sl.X
					}
					if dst != ssa.Value(buf) {
						continue
					}
					src := c.Call.Args[1]
					if _, isConst := core.ConstString(src); isConst {
						continue
					}
					good := true
					for _, sv := range paramArgs(p, src, 0) {
						if _, isConst := core.ConstString(sv); isConst {
							continue // literal text every caller of the shared encoder hands in
						}
						isEnc := false
						if ex, ok := sv.(*ssa.Extract); ok && ex.Index == 0 {
							if mc, ok := ex.Tuple.(*ssa.Call); ok && mc.Common().StaticCallee() != nil && mc.Common().StaticCallee().String() == "encoding/json.Marshal" {
								isEnc = true
							}
						}
						if !isEnc {
							good = false
						}
					}
					r.Check(good, "B2", core.FuncName(fn), fmt.Sprintf("buffer#%d-variable-segment<-json.Marshal", i), p.InstrPos(c), "the variable part is the encoder's output", "raw (unescaped) bytes "+valDesc(src)+" are copied into a JSON buffer: ids containing '\"' or '\\' produce invalid or different JSON")
				}
			}
			_ = segs
		}
	}
}

// c18EqualReadsWhatParserWrote: see rule V7.
func c18EqualReadsWhatParserWrote(r *core.Run, rule string) {
	p := r.P
	um := methodNamed(p, "store", "Value", "UnmarshalJSON")
	eq := methodNamed(p, "store", "Value", "Equal")
	if um == nil || eq == nil {
		r.Unres(rule, "store.Value.UnmarshalJSON/Equal", "missing")
		return
	}
	typeF, ok := fieldByType(p, "store", "Value", func(t types.Type) bool {
		return core.TypeName(t) == qual("store", "ValueType") || core.TypeName(t) == "ValueType"
	})
	if !ok {
		r.Unres(rule, "store.Value.<type>", "no single member of type ValueType")
		return
	}
	isValueField := func(f core.Field) bool { return f.Struct == typeF.Struct }
	// class constants
	names := map[int64]string{}
	if pk := p.Pkgs["store"]; pk != nil {
		sc := pk.Types.Scope()
		for _, n := range sc.Names() {
			if c, ok := sc.Lookup(n).(*types.Const); ok && core.TypeName(c.Type()) == core.TypeName(typeFType(p, typeF)) {
				if k, ok := constant.Int64Val(c.Val()); ok {
					names[k] = n
				}
			}
		}
	}
	if len(names) < 3 {
		r.Unres(rule, "store.ValueType constants", fmt.Sprintf("%d constants found", len(names)))
		return
	}
	// W(T): members written before every store of class T
	acc := core.FieldAccesses(p.Helpers(um), isValueField) // the parser and its private helpers
	written := map[int64]map[string]bool{}
	for _, ac := range acc {
		st, ok := ac.Instr.(*ssa.Store)
		if !ok || ac.F != typeF || ac.Kind != "store" {
			continue
		}
		// the class constant(s) stored: directly, or through a helper that picks one
		var ks []int64
		for _, lf := range valueLeaves(st.Val, nil, 0) {
			if k, ok := core.ConstInt(lf.V); ok {
				ks = append(ks, k)
			}
		}
		ws := map[string]bool{}
		for _, w := range acc {
			if w.Write && w.F != typeF && p.DominatesIn(um, w.Instr, st) {
				ws[w.F.Name] = true
			}
		}
		for _, k := range ks {
			if prev, seen := written[k]; seen {
				for n := range prev {
					if !ws[n] {
						delete(prev, n)
					}
				}
			} else {
				cp := map[string]bool{}
				for n := range ws {
					cp[n] = true
				}
				written[k] = cp
			}
		}
	}
	// R(T): members read in Equal while the class is T
	var consts []int64
	for k := range names {
		consts = append(consts, k)
	}
	sort.Slice(consts, func(i, j int) bool { return consts[i] < consts[j] })
	idx := map[int64]int{}
	entry := core.StateSet(0)
	for i, k := range consts {
		idx[k] = i
		entry = entry.Add(i)
	}
	isTypeLoad := func(v ssa.Value) bool {
		f, ok := core.LoadedField(v)
		if ok && f == typeF {
			return true
		}
		if fl, ok := v.(*ssa.Field); ok {
			if f, ok := core.FieldOf(fl); ok && f == typeF {
				return true
			}
		}
		return false
	}
	fl := &core.Flow{Fn: eq, Entry: entry}
	fl.Branch = func(iff *ssa.If, succ int, st int) (int, bool) {
		cnd, sc := iff.Cond, succ
		for {
			u, ok := cnd.(*ssa.UnOp)
			if !ok || u.Op != token.NOT {
				break
			}
			cnd, sc = u.X, 1-sc
		}
		bo, ok := cnd.(*ssa.BinOp)
		if !ok || (bo.Op != token.EQL && bo.Op != token.NEQ) || !isTypeLoad(bo.X) {
			return st, true
		}
		k, ok := core.ConstInt(bo.Y)
		if !ok {
			return st, true
		}
		i, known := idx[k]
		if !known {
			return st, true
		}
		isT := (bo.Op == token.EQL) == (sc == 0)
		return st, (st == i) == isT
	}
	res := fl.Run()
	type rd struct {
		name string
		pos  string
	}
	reads := map[int64][]rd{}
	for _, ac := range core.FieldAccesses([]*ssa.Function{eq}, isValueField) {
		if ac.Kind != "load" || ac.F == typeF {
			continue
		}
		for _, i := range res.Before[ac.Instr].List() {
			reads[consts[i]] = append(reads[consts[i]], rd{ac.F.Name, p.InstrPos(ac.Instr)})
		}
	}
	for _, k := range consts {
		ws, parsed := written[k]
		if !parsed {
			continue // a class the parser never assigns (zero value)
		}
		bad, at := "", "-"
		seen := map[string]bool{}
		for _, x := range reads[k] {
			if !ws[x.name] && !seen[x.name] {
				seen[x.name] = true
				bad += " " + x.name
				at = x.pos
			}
		}
		var wl []string
		for n := range ws {
			wl = append(wl, n)
		}
		sort.Strings(wl)
		r.Check(bad == "", rule, "store.Value.Equal", "class:"+names[k]+":reads-only-members-the-parser-sets", at, fmt.Sprintf("reads only members the parser assigns for this class %v", wl), fmt.Sprintf("for class %s Equal reads the member(s)%s, which the value parser does not assign on every path ending in that class (it assigns %v and resets nothing): a Value that is decoded into more than once compares by what an earlier text left there", names[k], bad, wl))
	}
}

func typeFType(p *core.Prog, f core.Field) types.Type {
	if st, ok := structType(p, "store", "Value"); ok {
		for i := 0; i < st.NumFields(); i++ {
			if st.Field(i).Name() == f.Name {
				return st.Field(i).Type()
			}
		}
	}
	return types.Typ[types.Invalid]
}

// c18ParserDecodesIntoFreshObject: encoding/json *merges* into its destination
// (members absent from the text keep their old value), so the classification
// of a JSON text is a function of the text only if every json.Unmarshal in the
// value parser writes into a zero value made for this call (a local variable,
// new(T)) or into the receiver's own members - not into an object that
// outlives the call (a pooled scratch object, a package-level variable).
func c18ParserDecodesIntoFreshObject(r *core.Run, rule string) {
	um := methodNamed(r.P, "store", "Value", "UnmarshalJSON")
	if um == nil {
		r.Unres(rule, "store.Value.UnmarshalJSON", "missing")
		return
	}
	freshDecodeRule(r, rule, um, "the value parser", true)
}

// freshDecodeRule: every json.Unmarshal in um's unit decodes into a zero value
// made for this call or a member of the receiver (see above).
func freshDecodeRule(r *core.Run, rule string, um *ssa.Function, who string, allowRecv bool) {
	p := r.P
	n := 0
	for _, c := range helperCalls(p, um) {
		if core.CalleeName(c) != "encoding/json.Unmarshal" || len(c.Common().Args) != 2 {
			continue
		}
		n++
		dst := c.Common().Args[1]
		if mi, ok := dst.(*ssa.MakeInterface); ok {
			dst = mi.X
		}
		why := ""
		for _, src := range phiSources(dst) {
			v := core.Strip(src.V)
			switch x := v.(type) {
			case *ssa.Alloc:
				continue // a local variable or new(T): zero at allocation, one per call
			case *ssa.FieldAddr:
				if allowRecv && derivesFromRecv(x.X, 0) {
					continue // a member of the value being parsed
				}
				if _, isAl := core.Strip(x.X).(*ssa.Alloc); isAl {
					continue
				}
			case *ssa.Parameter:
				if vs := paramArgs(p, x, 0); len(vs) > 0 {
					fresh := true
					for _, a := range vs {
						switch y := core.Strip(a).(type) {
						case *ssa.Alloc:
						case *ssa.FieldAddr:
							if !allowRecv || !derivesFromRecv(y.X, 0) {
								fresh = false
							}
						default:
							fresh = false
						}
					}
					if fresh {
						continue
					}
				}
			}
			why = valDesc(src.V)
		}
		r.Check(why == "", rule, core.FuncName(c.Parent()), fmt.Sprintf("json.Unmarshal#%d-into-a-fresh-object", n), p.InstrPos(c), "decodes into a zero value made for this call (or the receiver's own member)", who+" decodes into "+why+", an object that is not made for this call: encoding/json leaves members that are absent from the text as they were, so what an earlier (failed or partial) parse left behind decides how the next JSON text is classified")
	}
	if n == 0 {
		for _, c := range helperCalls(p, um) {
			if core.CalleeName(c) == "(*encoding/json.Decoder).Decode" {
				r.Bad(rule, core.FuncName(c.Parent()), "payload-decoded-as-one-whole-JSON-text", p.InstrPos(c), who+" decodes with a streaming json.Decoder, which reads the first JSON value and ignores what follows: a payload that is not valid JSON as a whole ({\"query\":\"a\"}] , two objects, trailing garbage) is accepted and answered as if it were well-formed, instead of the error reply for a malformed payload")
				return
			}
		}
		r.Bad(rule, core.FuncName(um), "json.Unmarshal-into-a-fresh-object", p.Pos(um.Pos()), who+" calls json.Unmarshal nowhere (rule went vacuous)")
	}
}

// containsSlice: t is a slice or a struct with a slice member (by value).
func containsSlice(t types.Type, d int) bool {
	if d > 3 {
		return false
	}
	switch u := t.Underlying().(type) {
	case *types.Slice:
		return true
	case *types.Struct:
		for i := 0; i < u.NumFields(); i++ {
			if containsSlice(u.Field(i).Type(), d+1) {
				return true
			}
		}
	}
	return false
}
