package props

import (
	"fmt"
	"go/constant"
	"go/token"
	"go/types"
	"os"
	"strings"

	"golang.org/x/tools/go/ssa"

	"resverif/core"
)

func init() { register("C06", c06) }

// fieldChain renders the chain of field loads a value derives from, e.g.
// "nodeMatch.n>node.hs>regHandler.Handler" (outermost base first).
func fieldChain(v ssa.Value, d int) string { return fieldChainS(v, d, nil) }

// fieldChainS is fieldChain with the parameters of a helper replaced by the
// arguments of one of its call sites.
func fieldChainS(v ssa.Value, d int, sub map[*ssa.Parameter]ssa.Value) string {
	if d > 6 {
		return "?"
	}
	v = core.Strip(v)
	switch x := v.(type) {
	case *ssa.UnOp:
		if x.Op == token.MUL {
			switch a := x.X.(type) {
			case *ssa.FieldAddr:
				f, _ := core.FieldOf(a)
				base := fieldChainS(a.X, d+1, sub)
				if base == "" {
					return f.String()
				}
				return base + ">" + f.String()
			case *ssa.Alloc:
				return "local:" + a.Comment
			}
		}
	case *ssa.FieldAddr:
		f, _ := core.FieldOf(x)
		base := fieldChainS(x.X, d+1, sub)
		if base == "" {
			return "&" + f.String()
		}
		return base + ">&" + f.String()
	case *ssa.Parameter:
		if a, ok := sub[x]; ok {
			return fieldChainS(a, d+1, nil)
		}
		return "param:" + x.Name()
	case *ssa.Alloc:
		return "local:" + x.Comment
	case *ssa.Field:
		f, _ := core.FieldOf(x)
		return fieldChainS(x.X, d+1, sub) + ">" + f.String()
	}
	return ""
}

func c06(r *core.Run) {
	p := r.P
	r.Explanation = "Structural obligations on the trie matcher and registration: (R1) candidate children are tried literal -> placeholder -> wildcard by CFG reachability, a failed recursive match falls through to the next candidate (no unconditional return of the recursive call); (R2) a units rule for mount-relative token indexes: values loaded from an index field are only compared with each other or added to a mount index before indexing a token slice, and every such field that is read against mount-rebased tokens is written as tokenIndex - mountIndex; (R3) registration paths call the validators and reject duplicates/mismatches by panic before storing; (R4) the match record is assembled atomically at the accept sites (node, mount index and params written together, from the same node), and the Match handed out takes handler, listeners and group from that one node. Decides shape, not equality with a reference matcher."
	r.NotDecided = []string{"equality with a brute-force matcher for all pattern sets and names", "absence of index panics for all names (depends on trie invariants that are data)", "what a group template evaluates to"}
	r.Assumptions = []string{"registration completes before lookups (documented)"}

	r.Rule("R1", "specificity order: the literal child is looked up before the placeholder child, the wildcard child last (CFG reachability, no path backwards); the recursive match's result is tested and its false edge continues to the next candidate; no return passes the recursive result through unconditionally", 4)
	r.Rule("R2", "mount-relative indexes: a value loaded from an index field (pathParam.idx, gpart.idx) is only compared with another such value or added to a mount index before indexing tokens, or indexes a token slice that callers re-slice at the mount index; every write of such a field is tokenIndex - mountIndex", 6)
	r.Rule("R3", "registration validation: add() panics on an invalid pattern before touching the trie and on a duplicate handler before storing, after the path parameters were validated; NewMux/Mount panic on invalid paths; Serve returns ValidateListeners' error before initialising", 6)
	r.Rule("R4", "match assembly: node, mount index and params of the match record are written together at each accept site, the mount index stored is the one used to rebase that site's params; every Match literal takes Handler, Listeners and Group from the same node and Params from the match record", 6)

	r.Rule("R5", "group tag resolution: the index stored for a ${tag} of a group template is the position of a token of the split pattern that is equal (whole-token string equality) to \"$\"+tag, found by a loop over the token list; a substring search would also hit a longer placeholder that merely starts with the tag ($id in $idx) or a literal token", 1)

	r.Rule("R6", "lookup is a pure read: no function reachable from Mux.GetHandler stores to a field or element of the Mux / trie node / registered handler, updates one of their maps, or appends to (re-slices and extends) a slice held in them; lookups run concurrently on the listener goroutine and on any goroutine calling With / Resource, so scratch state kept in the Mux would mix the tokens of two names", 1)

	r.Rule("R7", "the mux path is matched as whole tokens: in Mux.GetHandler the remainder of the name after the path prefix is taken only on an edge where the byte following the prefix was compared equal to the token separator (or the lengths are equal); a bare prefix test would route 'testing.x' or 'users.1' to the service 'test' / 'user'", 1)
	r.Rule("R9", "the matcher does not give up early: every `false` the recursive matcher returns is produced on the edge where the full-wildcard child was found absent - after the literal and the placeholder child were tried; a `return false` before that (for instance at a handler-less literal node that only exists as part of a longer pattern) hides the placeholder and wildcard patterns that match the name", 1)
	r.Rule("R10", "registration accepts the documented token forms: analysed under the assumption that the current pattern token is exactly \"*\" (the anonymous placeholder of the Handle documentation, accepted by Pattern.IsValid) and, separately, a one-letter literal, the trie insertion reaches no panic (branches on the token's length and first byte are pruned by the assumption)", 2)
	r.Rule("R11", "traversals are mount-aware: every function that descends the trie through literal, placeholder and wildcard children while carrying a position parameter tests the node's mounted flag and rebinds its mount index there, passing the rebound value to its recursive calls (the matcher and the registration-time traversal alike); placeholder positions are stored relative to the mux they were added to", 2)
	r.Rule("R14", "the reported group is the registered one (shared with C01.F2): Match.Group is the handler's group template evaluated on the full resource name (so that an unset group is the resource name), also for the root pattern; resources and requests report that group and every enqueue is keyed by it", 5)
	r.Rule("R12", "only nodes with a handler are accepted: every exact-match accept site of the matcher lies behind the non-nil test of the accepted node's handler (the full-wildcard site excepted: such a node is only created for a registration)", 1)
	r.Rule("R8", "Parallel means the empty group (shared with C01.F2): registration parses the group template from Handler.Group only on the !Parallel edge, so a Parallel handler is stored with the empty group whatever its Group option says (lookup then reports an empty group for it)", 1)
	c01ParallelGroup(r, "R8")

	root := p.FuncsOfPkg("")
	ro := resolveMuxRoles(r)
	if ro == nil {
		return
	}
	c06PureLookup(r, "R6")
	r.Rule("R13", "the name is tokenised at every separator (shared with C17.G9): the lookup never splits with Fields / FieldsFunc, which drop empty tokens - a name with an empty token would match a pattern it does not match token by token, and a name of separators only would reach the matcher with no token at all (index out of range on the listener goroutine)", 1)
	c17ExactTokens(r, "R13", []string{""}, "mux")
	if ro := resolveMuxRolesFor(r, "R2"); ro != nil {
		c06DefaultGroupOnlyWithoutGroup(r, "R2", ro)
	}
	if sa := resolveSvc(r, "R14"); sa.ok {
		c01GroupArg(r, "R14", sa, r.P.FuncsOfPkg(""))
	}
	c06NoEarlyFailure(r, "R9", ro)
	c06RegistrationAccepts(r, "R10", ro)
	c06PrefixBoundary(r, "R7")
	c06MountAware(r, "R11", ro)
	c06AcceptHasHandler(r, "R12", root, ro)
	c06GroupTags(r, root, ro)
	// ---- R1 --------------------------------------------------------------
	c06Specificity(r, "R1", ro)

	// ---- R2 --------------------------------------------------------------
	c06Units(r, "R2", root, ro, false)

	// ---- R3 --------------------------------------------------------------
	c06Registration(r, root, ro)

	// ---- R4 --------------------------------------------------------------
	c06MatchAssembly(r, "R4", root, ro)
}

// c06Specificity holds the obligations of C06.R1 (specificity order and
// backtracking of the trie matcher); C05 re-uses them (rule M4): the handler a
// request is dispatched to is the one of the pattern the matcher selects.
func c06Specificity(r *core.Run, rule string, ro *muxRoles) {
	p := r.P
	mn := ro.matchNode
	nodeNodes, nodeParam, nodeWild := ro.nodeNodes, ro.nodeParam, ro.nodeWild

	// ---- R1 --------------------------------------------------------------
	// candidate reads: in the matcher itself, or in a per-candidate helper handed the parent node -
	// then the read stands at the helper's call site(s) in the matcher
	var lit, par, wild []ssa.Instruction
	addAt := func(dst *[]ssa.Instruction, in ssa.Instruction) {
		sites := []ssa.Instruction{in}
		if in.Parent() != mn {
			sites = p.Lift(in, mn)
		}
		for _, sIn := range sites {
			dup := false
			for _, have := range *dst {
				if have == sIn {
					dup = true
				}
			}
			if !dup && sIn.Parent() == mn {
				*dst = append(*dst, sIn)
			}
		}
	}
	for _, h := range p.Helpers(mn) {
		if h.Parent() != nil {
			continue
		}
		for _, b := range h.Blocks {
			for _, in := range b.Instrs {
				switch x := in.(type) {
				case *ssa.Lookup:
					if f, ok := core.LoadedField(x.X); ok && f == nodeNodes {
						addAt(&lit, x)
					}
				case *ssa.UnOp:
					if x.Op == token.MUL {
						if f, ok := core.FieldOf(x.X); ok {
							if f == nodeParam {
								addAt(&par, x)
							}
							if f == nodeWild {
								addAt(&wild, x)
							}
						}
					}
				}
			}
		}
	}
	if len(lit) == 0 || len(par) == 0 || len(wild) == 0 {
		r.Bad(rule, "matchNode", "three-candidate-kinds", p.Pos(mn.Pos()), fmt.Sprintf("literal=%d placeholder=%d wildcard=%d candidate reads", len(lit), len(par), len(wild)))
		return
	}
	orderOK := true
	why := ""
	for _, l := range lit {
		for _, q := range par {
			if !core.Reaches(l, q) {
				orderOK, why = false, "placeholder child is not tried after the literal child"
			}
			if core.Reaches(q, l) {
				orderOK, why = false, "a path leads from the placeholder candidate back to the literal lookup"
			}
		}
		for _, w := range wild {
			if core.Reaches(w, l) {
				orderOK, why = false, "a path leads from the wildcard candidate back to the literal lookup"
			}
		}
	}
	for _, q := range par {
		for _, w := range wild {
			if !core.Reaches(q, w) {
				orderOK, why = false, "wildcard child is not tried after the placeholder child"
			}
			if core.Reaches(w, q) {
				orderOK, why = false, "a path leads from the wildcard candidate back to the placeholder candidate"
			}
		}
	}
	r.Check(orderOK, rule, "matchNode", "order:literal->placeholder->wildcard", p.Pos(mn.Pos()), "candidates are read in specificity order with no path backwards", why)
	// the candidate variable: phi whose loop-entry edge is the literal and back edge the placeholder
	for _, b := range mn.Blocks {
		for _, in := range b.Instrs {
			phi, ok := in.(*ssa.Phi)
			if !ok || core.TypeName(phi.Type()) != "node" {
				continue
			}
			first, later := "", ""
			for i, ed := range phi.Edges {
				pred := b.Preds[i]
				desc := ""
				if lk, ok := ed.(*ssa.Lookup); ok {
					if f, ok := core.LoadedField(lk.X); ok && f == nodeNodes {
						desc = "literal"
					}
				}
				if f, ok := core.LoadedField(ed); ok && f == nodeParam {
					desc = "placeholder"
				}
				if reachesBlock(b, pred) {
					later = desc
				} else {
					first = desc
				}
			}
			r.Check(first == "literal" && later == "placeholder", rule, "matchNode", "candidate-phi:first=literal,then=placeholder", p.InstrPos(phi), "the first round tests the literal child, the second the placeholder child", "candidate rounds are first="+first+" then="+later)
		}
	}
	// recursion
	nRec := 0
	// an attempt: the recursive call itself, or the call of a per-candidate helper of the matcher's
	// unit that descends (calls the matcher) - its result is the outcome of trying that candidate
	inUnit := map[*ssa.Function]bool{}
	for _, h := range p.Helpers(mn) {
		inUnit[h] = true
	}
	descends := func(h *ssa.Function) bool {
		seen := map[*ssa.Function]bool{}
		var walk func(f *ssa.Function) bool
		walk = func(f *ssa.Function) bool {
			for _, c := range core.Calls(f) {
				cal := c.Common().StaticCallee()
				if cal == mn {
					return true
				}
				if cal != nil && inUnit[cal] && !seen[cal] {
					seen[cal] = true
					if walk(cal) {
						return true
					}
				}
			}
			return false
		}
		return walk(h)
	}
	for _, c := range core.Calls(mn) {
		cal := c.Common().StaticCallee()
		if cal != mn && !(cal != nil && inUnit[cal] && descends(cal)) {
			continue
		}
		nRec++
		v := c.Value()
		tested := false
		if v.Referrers() != nil {
			for _, rf := range *v.Referrers() {
				switch x := rf.(type) {
				case *ssa.If:
					tested = true
					// true edge returns true; false edge reaches the next candidate (placeholder read or wildcard read)
					tBlk, fBlk := x.Block().Succs[0], x.Block().Succs[1]
					retTrue := returnsConstBool(tBlk, true, 0)
					cont := false
					for _, q := range append(append([]ssa.Instruction{}, par...), wild...) {
						if reachesBlock(fBlk, q.Block()) {
							cont = true
						}
					}
					r.Check(retTrue && cont, rule, "matchNode", "recursive-result:true->return-true,false->next-candidate", p.InstrPos(x), "a failed deeper match falls through to the less specific candidate (backtracking)", fmt.Sprintf("recursive match handling broken: trueEdgeReturnsTrue=%v falseEdgeContinues=%v", retTrue, cont))
					// ... and the next candidate after a failed *literal* attempt is the placeholder: when the
					// candidate of this attempt may be the literal child, no path leads from its failure to
					// the wildcard candidate without passing the read of the placeholder child
					mayBeLiteral := false
					for _, a := range c.Common().Args {
						for _, src := range phiSources(a) {
							if lk, ok := src.V.(*ssa.Lookup); ok {
								if f, ok := core.LoadedField(lk.X); ok && f == nodeNodes {
									mayBeLiteral = true
								}
							}
							if ex, ok := src.V.(*ssa.Extract); ok {
								if lk, ok := ex.Tuple.(*ssa.Lookup); ok {
									if f, ok := core.LoadedField(lk.X); ok && f == nodeNodes {
										mayBeLiteral = true
									}
								}
							}
						}
					}
					if mayBeLiteral {
						parBlocks := map[*ssa.BasicBlock]bool{}
						for _, q := range par {
							parBlocks[q.Block()] = true
						}
						skips := false
						for _, w := range wild {
							if parBlocks[w.Block()] {
								continue
							}
							if !parBlocks[fBlk] && reachAvoiding(fBlk, w.Block(), func(b *ssa.BasicBlock) bool { return parBlocks[b] }, nil) {
								skips = true
							}
						}
						r.Check(!skips, rule, "matchNode", "failed-literal-attempt->placeholder-before-wildcard", p.InstrPos(x), "after a literal branch that dead-ends the placeholder child is tried before the wildcard", "a path leads from the failed attempt on the literal child straight to the full-wildcard candidate without reading the placeholder child: a name that follows a literal branch and dead-ends there is not routed to the placeholder pattern that matches it (no match, or the less specific wildcard handler)")
					}
				case *ssa.Return:
					r.Bad(rule, "matchNode", "no-unconditional-return-of-recursion", p.InstrPos(x), "the recursive result is returned directly: a failed literal branch would not fall back to the placeholder/wildcard sibling")
				}
			}
		}
		if !tested {
			r.Bad(rule, "matchNode", "recursive-result-tested", p.InstrPos(c), "the recursive match's result is not branched on")
		}
	}
	r.Check(nRec >= 1, rule, "matchNode", "recurses", p.Pos(mn.Pos()), "descends token by token", "matchNode does not recurse")

}

// c06MatchAssembly holds the obligations of C06.R4; C01 re-uses them (rule
// F3) because the group id of a request is computed from the assembled record.
func c06MatchAssembly(r *core.Run, rule string, root []*ssa.Function, ro *muxRoles) {
	p := r.P
	mn := ro.matchNode
	nmN, nmMI, nmP := ro.nmNode, ro.nmMountIdx, ro.nmParams
	storesIn := func(b *ssa.BasicBlock, f core.Field) []*ssa.Store {
		var out []*ssa.Store
		for _, in := range b.Instrs {
			if st, ok := in.(*ssa.Store); ok {
				if g, ok := core.FieldOf(st.Addr); ok && g == f {
					out = append(out, st)
				}
			}
		}
		return out
	}
	nAccept := 0
	for _, fn := range root {
		for _, b := range fn.Blocks {
			ns, ms := storesIn(b, nmN), storesIn(b, nmMI)
			for _, st := range ns {
				if n := len(p.Lift(st, mn)); n > 0 {
					nAccept += n
				} else {
					nAccept++
				}
				good := len(ms) == 1
				rebOK := false
				if good {
					// the params written at this accept site are rebased with the same value
					mv := ms[0].Val
					for _, b2 := range fn.Blocks {
						if !(b2 == b || b.Dominates(b2)) {
							continue
						}
						for _, in := range b2.Instrs {
							if bo, ok := in.(*ssa.BinOp); ok && bo.Op == token.ADD {
								if f, ok := core.LoadedField(bo.X); ok && f == ro.ppIdx && bo.Y == mv {
									rebOK = true
								}
							}
						}
					}
					// sites without params loop are fine only if none exists below
				}
				// one obligation per accept site of the matcher (a shared helper serves several sites)
				sites := p.Lift(st, mn)
				if len(sites) == 0 {
					sites = []ssa.Instruction{st}
				}
				for k, site := range sites {
					what := "accept-site-writes-node+mountIdx:" + valDesc(st.Val)
					if site != ssa.Instruction(st) {
						vd := ""
						if sc, ok := site.(ssa.CallInstruction); ok {
							for i, prm := range fn.Params {
								if ssa.Value(prm) == st.Val && i < len(sc.Common().Args) {
									vd = valDesc(sc.Common().Args[i])
								}
							}
						}
						what = fmt.Sprintf("accept-site-writes-node+mountIdx:%s@site%d", vd, k)
					}
					r.Check(good && rebOK, rule, core.FuncName(fn), what, p.InstrPos(site),
						"the match record's node and mount index are written together and the params are rebased with that same mount index", fmt.Sprintf("accept site stores the node without (exactly one) mount index store next to it (%d), or rebases params with a different value (sameValue=%v): after backtracking out of a mount the record would carry a stale mount index", len(ms), rebOK))
				}
			}
			for _, st := range ms {
				if len(ns) == 0 {
					r.Bad(rule, core.FuncName(fn), "mountIdx-written-away-from-accept", p.InstrPos(st), "the match record's mount index is written on the way down, not at the accept site: backtracking does not restore it")
				}
			}
			_ = nmP
		}
	}
	r.Check(nAccept >= 2, rule, "matchNode", "accept-sites", p.Pos(mn.Pos()), fmt.Sprintf("%d accept sites", nAccept), "fewer than two accept sites (leaf and wildcard)")
	// Match literals (in GetHandler, or in a constructor helper of it: then once per call site, the
	// helper's parameters standing for the call's arguments)
	for _, gh := range methodsOf(p, "", "Mux") {
		if gh.Name() != "GetHandler" {
			continue
		}
		for _, fn := range p.Helpers(gh) {
			type inst struct {
				sub  map[*ssa.Parameter]ssa.Value
				site ssa.Instruction
			}
			var insts []inst
			if fn == gh || fn.Parent() != nil {
				insts = []inst{{nil, nil}}
			} else {
				for _, cs := range p.CallersOf(fn) {
					if !p.Within(cs.Parent(), gh) && cs.Parent() != gh {
						continue
					}
					sub := map[*ssa.Parameter]ssa.Value{}
					for i, prm := range fn.Params {
						if i < len(cs.Common().Args) {
							sub[prm] = cs.Common().Args[i]
						}
					}
					insts = append(insts, inst{sub, cs})
				}
			}
			for _, b := range fn.Blocks {
				for _, in := range b.Instrs {
					al, ok := in.(*ssa.Alloc)
					if !ok || core.TypeName(al.Type()) != "Match" {
						continue
					}
					for _, ins := range insts {
						where := ssa.Instruction(al)
						if ins.site != nil {
							where = ins.site
						}
						src := map[string]string{}
						if al.Referrers() != nil {
							for _, rf := range *al.Referrers() {
								fa, ok := rf.(*ssa.FieldAddr)
								if !ok || fa.Referrers() == nil {
									continue
								}
								f, _ := core.FieldOf(fa)
								for _, r2 := range *fa.Referrers() {
									if st, ok := r2.(*ssa.Store); ok && st.Addr == fa {
										v := st.Val
										if prm, isP := core.Strip(v).(*ssa.Parameter); isP {
											if a, has := ins.sub[prm]; has {
												v = core.Strip(a)
											}
										}
										if c, ok := v.(*ssa.Call); ok && c.Common().StaticCallee() != nil && c.Common().StaticCallee() == ro.toString {
											src[f.Name] = "toString(" + fieldChain(c.Common().Args[0], 0) + ")"
											// second argument: tokens re-sliced at the record's mount index (or nil for the root)
											tok := c.Common().Args[2]
											if sl, ok := tok.(*ssa.Slice); ok {
												lf, lok := core.LoadedField(sl.Low)
												r.Check(lok && lf == nmMI, rule, core.FuncName(gh), "group-tokens-rebased-at-record-mountIdx", p.InstrPos(c), "group tags are evaluated on tokens[record.mountIdx:]", "group tags are evaluated on tokens re-sliced at "+valDesc(sl.Low))
											}
										} else {
											src[f.Name] = fieldChainS(v, 0, ins.sub)
										}
									}
								}
							}
						}
						// node base: strip the trailing field names
						base := func(s, suffix string) string { return strings.TrimSuffix(s, suffix) }
						hb := base(src["Handler"], ">"+ro.nodeHs.String()+">regHandler.Handler")
						lb := base(src["Listeners"], ">"+ro.nodeListeners.String())
						gb := base(strings.TrimSuffix(strings.TrimPrefix(src["Group"], "toString("), ")"), ">"+ro.nodeHs.String()+">"+ro.rhGroup.String())
						same := hb != "" && hb == lb && hb == gb && hb != src["Handler"]
						r.Check(same, rule, core.FuncName(gh), "Match{Handler,Listeners,Group}-from-one-node:"+hb, p.InstrPos(where), "all three come from node "+hb, fmt.Sprintf("Match is assembled from different nodes: Handler<-%s Listeners<-%s Group<-%s", src["Handler"], src["Listeners"], src["Group"]))
						if strings.Contains(hb, nmN.String()) {
							r.Check(strings.HasSuffix(src["Params"], nmP.String()), rule, core.FuncName(gh), "Match.Params<-record.params", p.InstrPos(where), "path parameters come from the match record", "Match.Params is fed from "+src["Params"])
						}
					}
				}
			}
		}
	}
}

// c06Units checks the units rule for mount-relative indexes under `rule`. With
// groupOnly (C01.F4) only the reads of the group-tag index are checked: the
// group evaluator uses it as nothing but an index into the rebased tokens.
func c06Units(r *core.Run, rule string, root []*ssa.Function, ro *muxRoles, groupOnly bool) {
	p := r.P
	isIdxField := func(f core.Field) bool { return (f == ro.ppIdx && !groupOnly) || f == ro.gpIdx }
	isMountIndex := func(v ssa.Value) bool {
		switch x := v.(type) {
		case *ssa.Parameter:
			b, ok := x.Type().Underlying().(*types.Basic)
			return ok && b.Kind() == types.Int
		case *ssa.Phi:
			for _, e := range x.Edges {
				if _, ok := e.(*ssa.Parameter); ok {
					return true
				}
			}
			// loop-carried mount index in fetch: a phi whose leaves (through phis) are the
			// constant 0 and values of the token loop's own index
			seen := map[ssa.Value]bool{}
			hasZero, hasIdx, other := false, false, false
			var walk func(v ssa.Value, d int)
			walk = func(v ssa.Value, d int) {
				if seen[v] || d > 6 {
					return
				}
				seen[v] = true
				switch y := v.(type) {
				case *ssa.Phi:
					if y != x && strings.Contains(y.Comment, "rangeindex") {
						hasIdx = true
						return
					}
					for _, e := range y.Edges {
						walk(e, d+1)
					}
				case *ssa.Const:
					if c, ok := core.ConstInt(y); ok && c == 0 {
						hasZero = true
					} else {
						other = true
					}
				case *ssa.BinOp:
					// rangeindex + 1
					if ph, ok := y.X.(*ssa.Phi); ok && y.Op == token.ADD && strings.Contains(ph.Comment, "rangeindex") {
						hasIdx = true
					} else {
						other = true
					}
				default:
					other = true
				}
			}
			walk(x, 0)
			return hasZero && hasIdx && !other
		}
		return false
	}
	label := func(f core.Field) string {
		if f == ro.gpIdx {
			return "group-tag.index"
		}
		return "path-param.index"
	}
	rebasedRead := map[string]bool{} // struct name -> read against mount-rebased tokens
	for _, ac := range core.FieldAccesses(root, isIdxField) {
		fn := core.FuncName(ac.Fn)
		switch ac.Kind {
		case "load":
			v := ac.Instr.(ssa.Value)
			if v.Referrers() == nil {
				continue
			}
			for _, rf := range *v.Referrers() {
				switch x := rf.(type) {
				case *ssa.BinOp:
					switch x.Op {
					case token.ADD:
						other := x.Y
						if other == v {
							other = x.X
						}
						usedAsIndex := false
						if x.Referrers() != nil {
							for _, r2 := range *x.Referrers() {
								if ia, ok := r2.(*ssa.IndexAddr); ok && ia.Index == ssa.Value(x) {
									usedAsIndex = true
								}
							}
						}
						rebasedRead[ac.F.Struct] = true
						r.Check(isMountIndex(other) && usedAsIndex, rule, fn, "read("+label(ac.F)+")+mountIndex->index", p.InstrPos(x), "rebased by the mount index before indexing the token slice", "index field is added to "+valDesc(other)+" (not a mount index) or the sum is not used as an index")
					case token.EQL, token.NEQ:
						other := x.Y
						if other == v {
							other = x.X
						}
						f, ok := core.LoadedField(other)
						r.Check(ok && isIdxField(f), rule, fn, "read("+label(ac.F)+")-compared-with-same-unit", p.InstrPos(x), "compared with another mount-relative index", "mount-relative index compared with "+valDesc(other))
					default:
						r.Bad(rule, fn, "read("+label(ac.F)+")-arith", p.InstrPos(x), "mount-relative index used in arithmetic "+x.Op.String())
					}
				case *ssa.IndexAddr:
					// direct index: the indexed slice must be a parameter that every caller re-slices at a mount index (or passes nil)
					prm, ok := x.X.(*ssa.Parameter)
					good := ok
					if ok {
						idx := -1
						for i, q := range prm.Parent().Params {
							if q == prm {
								idx = i
							}
						}
						for _, c := range callsTo(root, prm.Parent()) {
							// (the caller may itself have been handed the slice: toString(tokens) -> part.value(tokens))
							var resolve func(a ssa.Value, d int)
							resolve = func(a ssa.Value, d int) {
								switch y := a.(type) {
								case *ssa.Slice:
									if y.Low == nil {
										good = false
									} else {
										rebasedRead[ac.F.Struct] = true
									}
								case *ssa.Const:
									if !y.IsNil() {
										good = false
									}
								case *ssa.Parameter:
									pi := -1
									for i, q := range y.Parent().Params {
										if q == y {
											pi = i
										}
									}
									cs := callsTo(root, y.Parent())
									if d > 3 || pi < 0 || len(cs) == 0 {
										good = false
										return
									}
									for _, c2 := range cs {
										if pi < len(c2.Common().Args) {
											resolve(c2.Common().Args[pi], d+1)
										} else {
											good = false
										}
									}
								default:
									good = false
								}
							}
							resolve(c.Common().Args[idx], 0)
						}
					}
					r.Check(good, rule, fn, "read("+label(ac.F)+")-indexes-rebased-slice", p.InstrPos(x), "indexes a token slice that every caller re-slices at the mount index (or nil)", "mount-relative index applied to a slice that is not rebased by all callers")
				case *ssa.Store, *ssa.DebugRef, *ssa.MakeInterface:
				}
			}
		case "store":
			if groupOnly {
				continue
			}
			st := ac.Instr.(*ssa.Store)
			bo, ok := st.Val.(*ssa.BinOp)
			good := ok && bo.Op == token.SUB && isMountIndex(bo.Y)
			// a per-token-kind helper that is handed the relative index: judged at its call sites
			if prm, isPrm := st.Val.(*ssa.Parameter); isPrm && !good && p.IsPrivateHelper(ac.Fn) {
				vs := paramArgs(p, prm, 0)
				good = len(vs) > 0
				for _, v := range vs {
					b2, isB := v.(*ssa.BinOp)
					if !isB || b2.Op != token.SUB || !isMountIndex(b2.Y) {
						good = false
					}
				}
			}
			if c, ok := st.Val.(*ssa.Const); ok && c.Value != nil && c.Value.ExactString() == "0" {
				continue // zero value in a literal (string part of a group)
			}
			if !rebasedRead[ac.F.Struct] {
				// decide after all reads are seen: defer by re-checking below
			}
			wfn := fn
			if ac.Fn == ro.parseGroup {
				wfn = "<group-parser>" // role label: keeps the known finding's key stable under renaming
			}
			r.Check(good, rule, wfn, "write("+label(ac.F)+")=tokenIndex-mountIndex", p.InstrPos(st), "stored relative to the mount point", "index written as "+valDesc(st.Val)+" (a raw pattern token index) although it is read against mount-rebased tokens: a handler registered through a parent mux across a mount point gets the wrong token or an index-out-of-range panic")
		}
	}
}

func c06Registration(r *core.Run, root []*ssa.Function, ro *muxRoles) {
	p := r.P
	byName := func(recv, name string) *ssa.Function {
		if recv == "" {
			return p.Func(name)
		}
		for _, fn := range methodsOf(p, "", recv) {
			if fn.Name() == name {
				return fn
			}
		}
		return nil
	}
	add := ro.add
	var fetchCall, setParams ssa.CallInstruction
	for _, c := range core.Calls(add) {
		if cal := c.Common().StaticCallee(); cal != nil {
			switch cal {
			case ro.fetch:
				fetchCall = c
			case ro.setParams:
				setParams = c
			}
		}
	}
	// only named placeholders become path parameters: in the registration walk every extension of
	// the placeholder list happens on the edge where the token's first byte was compared equal to
	// the placeholder mark ('$'); the anonymous '*' shares the node but has no name to report
	if ro.fetch != nil {
		n := 0
		for _, f2 := range p.Helpers(ro.fetch) {
			for _, c := range core.Calls(f2) {
				call, isCall := c.(*ssa.Call)
				if !isCall || core.CalleeName(call) != "builtin:append" {
					continue
				}
				sl, isSl := call.Type().Underlying().(*types.Slice)
				if !isSl || core.TypeName(sl.Elem()) != "pathParam" {
					continue
				}
				n++
				named := false
				for _, ed := range ctxEdges(p, c, ro.fetch, 0) {
					for _, ft := range edgeFacts(ed) {
						bo, isB := ft.V.(*ssa.BinOp)
						if !isB || (bo.Op != token.EQL && bo.Op != token.NEQ) {
							continue
						}
						k, isC := core.ConstInt(bo.Y)
						if !isC || k != '$' {
							continue
						}
						if (bo.Op == token.EQL) == ft.True {
							named = true
						}
					}
				}
				r.Check(named, "R3", core.FuncName(f2), "path-param-recorded-only-for-a-named-placeholder", p.InstrPos(c), "the placeholder list grows only where the token starts with the placeholder mark", "a path parameter is recorded for a token that was not tested to start with the placeholder mark '$' (e.g. the anonymous '*'): lookups then report a parameter with an empty name holding that token")
			}
		}
		if n == 0 {
			r.Bad("R3", core.FuncName(ro.fetch), "path-param-recorded-only-for-a-named-placeholder", p.Pos(ro.fetch.Pos()), "the registration walk never extends a placeholder list (rule went vacuous)")
		}
	}
	guards := guardMap(add)
	g, ok := panicsUnlessCall(add, "IsValid")
	r.Check(ok && fetchCall != nil && core.Dominates(g, fetchCall), "R3", core.FuncName(add), "IsValid-panic-before-fetch", p.Pos(add.Pos()), "an invalid pattern panics before the trie is touched", "add() does not reject invalid patterns before inserting nodes")
	hsField := ro.nodeHs
	for _, ac := range core.FieldAccesses([]*ssa.Function{add}, func(f core.Field) bool { return f == hsField }) {
		if ac.Kind != "store" {
			continue
		}
		g2, ok2 := guards[ro.nodeHs.String()+"!=nil"]
		r.Check(ok2 && core.Dominates(g2, ac.Instr) && setParams != nil && core.Dominates(setParams, ac.Instr), "R3", core.FuncName(add), "store(node.hs)-after-duplicate-panic-and-param-validation", p.InstrPos(ac.Instr),
			"a second registration on the node panics and placeholder positions are validated before the handler is stored", "the handler is stored without the duplicate check / parameter validation dominating it")
	}
	for _, nm := range [][2]string{{"", "NewMux"}, {"Mux", "Mount"}} {
		fn := byName(nm[0], nm[1])
		if fn == nil {
			r.Unres("R3", nm[1], "not found")
			continue
		}
		_, ok := panicsUnlessCall(fn, "isValidPath")
		r.Check(ok, "R3", core.FuncName(fn), "isValidPath-panic", p.Pos(fn.Pos()), "invalid paths are rejected by panic", nm[1]+" does not reject invalid paths")
	}
	if fn := byName("Mux", "Mount"); fn != nil {
		gs := guardMap(fn)
		_, a1 := gs[ro.muxParent.String()+"!=nil"]
		_, a2 := gs[ro.muxSvc.String()+"!=nil"]
		r.Check(a1 && a2, "R3", core.FuncName(fn), "already-mounted/registered-panic", p.Pos(fn.Pos()), "a mux can be mounted once and not after registration", "Mount does not reject an already mounted / registered mux")
	}
	c06ParamsCompared(r, "R3", ro)
	// serve returns ValidateListeners' error first
	for _, fn := range methodsOf(p, "", "Service") {
		// role: the (unexported) Service method that calls the exported ValidateListeners
		var vl ssa.CallInstruction
		for _, c := range core.Calls(fn) {
			if cal := c.Common().StaticCallee(); cal != nil && cal.Name() == "ValidateListeners" && cal != fn {
				vl = c
			}
		}
		if vl == nil || fn.Parent() != nil {
			continue
		}
		good := false
		for _, ret := range core.Returns(fn) {
			if len(ret.Results) != 1 {
				continue
			}
			// the error may be returned directly or through a result variable (single exit)
			for _, src := range phiSources(ret.Results[0]) {
				if src.V != vl.Value() {
					continue
				}
				for _, ed := range srcEdges(ret, src) {
					if strings.HasSuffix(describeCond(ed), "!=nil") {
						good = true
					}
				}
			}
		}
		r.Check(good, "R3", core.FuncName(fn), "returns-ValidateListeners-error", p.Pos(fn.Pos()), "listeners without a handler make Serve fail", "serve does not return ValidateListeners' error")
	}
}

// muxRoles are the role-resolved unexported anchors of the mux.
type muxRoles struct {
	nodeNodes, nodeParam, nodeWild, nodeHs, nodeParams, nodeListeners core.Field
	nmNode, nmMountIdx, nmParams                                      core.Field
	ppIdx, gpIdx, rhGroup, muxParent, muxSvc                          core.Field
	matchNode, fetch, add, setParams, parseGroup, toString            *ssa.Function
}

func resolveMuxRoles(r *core.Run) *muxRoles { return resolveMuxRolesFor(r, "R1") }

func resolveMuxRolesFor(r *core.Run, roleRule string) *muxRoles {
	p := r.P
	ro := &muxRoles{}
	ok := true
	need := func(f core.Field, found bool, what string) core.Field {
		if !found {
			r.Unres(roleRule, what, "role not resolvable (0 or several candidates)")
			ok = false
		}
		return f
	}
	f, b := fieldByType(p, "", "node", func(t types.Type) bool {
		m, isMap := t.Underlying().(*types.Map)
		return isMap && core.TypeName(m.Elem()) == "node"
	})
	ro.nodeNodes = need(f, b, "node.children-map")
	f, b = fieldByType(p, "", "node", ptrTo("regHandler"))
	ro.nodeHs = need(f, b, "node.handler")
	f, b = fieldByType(p, "", "node", func(t types.Type) bool {
		sl, isSl := t.Underlying().(*types.Slice)
		return isSl && core.TypeName(sl.Elem()) == "pathParam"
	})
	ro.nodeParams = need(f, b, "node.params")
	f, b = fieldByType(p, "", "node", func(t types.Type) bool {
		sl, isSl := t.Underlying().(*types.Slice)
		if !isSl {
			return false
		}
		_, isFn := sl.Elem().Underlying().(*types.Signature)
		return isFn
	})
	ro.nodeListeners = need(f, b, "node.listeners")
	f, b = fieldByType(p, "", "nodeMatch", ptrTo("node"))
	ro.nmNode = need(f, b, "nodeMatch.node")
	f, b = fieldByType(p, "", "nodeMatch", typeIs("int"))
	ro.nmMountIdx = need(f, b, "nodeMatch.mountIdx")
	f, b = fieldByType(p, "", "nodeMatch", func(t types.Type) bool { _, isMap := t.Underlying().(*types.Map); return isMap })
	ro.nmParams = need(f, b, "nodeMatch.params")
	f, b = fieldByType(p, "", "pathParam", typeIs("int"))
	ro.ppIdx = need(f, b, "pathParam.index")
	f, b = fieldByType(p, "", "gpart", typeIs("int"))
	ro.gpIdx = need(f, b, "gpart.index")
	f, b = fieldByType(p, "", "regHandler", typeIs("group"))
	ro.rhGroup = need(f, b, "regHandler.group")
	f, b = fieldByType(p, "", "Mux", ptrTo("Mux"))
	ro.muxParent = need(f, b, "Mux.parent")
	f, b = fieldByType(p, "", "Mux", ptrTo("Service"))
	ro.muxSvc = need(f, b, "Mux.service")
	one := func(what string, pred func(*ssa.Function) bool) *ssa.Function {
		fs := funcsWhere(p, "", pred)
		if len(fs) != 1 {
			r.Unres(roleRule, what, fmt.Sprintf("%d candidates", len(fs)))
			ok = false
			return nil
		}
		return fs[0]
	}
	hasParamType := func(fn *ssa.Function, tn string) bool {
		for _, prm := range fn.Params {
			if core.TypeName(prm.Type()) == tn {
				return true
			}
		}
		return false
	}
	// the matcher: takes the match record, is recursive - directly or through per-candidate helpers
	// that take the record as well - and is entered from outside (by the lookup entry point)
	reachesSelf := func(fn *ssa.Function) bool {
		seen := map[*ssa.Function]bool{}
		var walk func(f *ssa.Function) bool
		walk = func(f *ssa.Function) bool {
			for _, c := range core.Calls(f) {
				cal := c.Common().StaticCallee()
				if cal == nil || !hasParamType(cal, "nodeMatch") {
					continue
				}
				if cal == fn {
					return true
				}
				if !seen[cal] {
					seen[cal] = true
					if walk(cal) {
						return true
					}
				}
			}
			return false
		}
		return walk(fn)
	}
	ro.matchNode = one("matchNode", func(fn *ssa.Function) bool {
		if !hasParamType(fn, "nodeMatch") || !reachesSelf(fn) {
			return false
		}
		for _, c := range p.CallersOf(fn) {
			if !hasParamType(core.Outermost(c.Parent()), "nodeMatch") {
				return true // entered from outside the matcher
			}
		}
		return false
	})
	isFetchLike := func(fn *ssa.Function) bool {
		res := fn.Signature.Results()
		return fn.Signature.Recv() != nil && core.TypeName(fn.Signature.Recv().Type()) == "Mux" && res.Len() >= 2 && core.TypeName(res.At(0).Type()) == "node"
	}
	// (per-token-kind helpers of the walk may have the same shape: the walk is the outermost one)
	ro.fetch = one("fetch", func(fn *ssa.Function) bool {
		if !isFetchLike(fn) {
			return false
		}
		for _, c := range p.CallersOf(fn) {
			if isFetchLike(core.Outermost(c.Parent())) && core.Outermost(c.Parent()) != fn {
				return false
			}
		}
		return true
	})
	ro.setParams = one("setAndValidateParams", func(fn *ssa.Function) bool {
		return fn.Signature.Recv() == nil && fn.Signature.Params().Len() == 2 && hasParamType(fn, "node") && fn.Signature.Results().Len() == 0 && strings.Contains(fn.Signature.Params().At(1).Type().String(), "pathParam")
	})
	ro.parseGroup = one("parseGroup", func(fn *ssa.Function) bool {
		if !(fn.Signature.Recv() == nil && fn.Signature.Results().Len() == 1 && core.TypeName(fn.Signature.Results().At(0).Type()) == "group" && fn.Signature.Params().Len() == 2) {
			return false
		}
		for i := 0; i < 2; i++ {
			if b, isB := fn.Signature.Params().At(i).Type().Underlying().(*types.Basic); !isB || b.Kind() != types.String {
				return false
			}
		}
		return true
	})
	ro.toString = one("group.toString", func(fn *ssa.Function) bool {
		return fn.Signature.Recv() != nil && core.TypeName(fn.Signature.Recv().Type()) == "group" && fn.Signature.Results().Len() == 1 && fn.Signature.Params().Len() == 2
	})
	if ro.fetch != nil {
		ro.add = one("add", func(fn *ssa.Function) bool {
			if fn.Signature.Recv() == nil || core.TypeName(fn.Signature.Recv().Type()) != "Mux" || fn.Object() == nil || fn.Object().Exported() {
				return false
			}
			if !callsStatic(fn, func(c *ssa.Function) bool { return c == ro.fetch }) {
				return false
			}
			for _, b := range fn.Blocks {
				for _, in := range b.Instrs {
					if st, isSt := in.(*ssa.Store); isSt {
						if g, isF := core.FieldOf(st.Addr); isF && g == ro.nodeHs {
							return true
						}
					}
				}
			}
			return false
		})
	}
	// the two *node fields of node: wild is the one fetch assigns on the '>' edge
	if st, isSt := structType(p, "", "node"); isSt && ro.fetch != nil {
		var cands []string
		for i := 0; i < st.NumFields(); i++ {
			if pt, isP := st.Field(i).Type().(*types.Pointer); isP && core.TypeName(pt.Elem()) == "node" {
				cands = append(cands, st.Field(i).Name())
			}
		}
		wild := ""
		isCand := func(n string) bool {
			for _, c := range cands {
				if c == n {
					return true
				}
			}
			return false
		}
		for _, f2 := range p.Helpers(ro.fetch) { // the walk and its per-token-kind helpers
			for _, b := range f2.Blocks {
				for _, in := range b.Instrs {
					stI, isSt := in.(*ssa.Store)
					if !isSt {
						continue
					}
					g, isF := core.FieldOf(stI.Addr)
					if !isF || g.Struct != "node" || !isCand(g.Name) {
						continue
					}
					for _, ed := range ctxEdges(p, stI, ro.fetch, 0) {
						for _, ft := range edgeFacts(ed) {
							bo, isB := ft.V.(*ssa.BinOp)
							if !isB || (bo.Op != token.EQL && bo.Op != token.NEQ) {
								continue
							}
							if k, isC := core.ConstInt(bo.Y); isC && k == '>' && (bo.Op == token.EQL) == ft.True {
								wild = g.Name
							}
						}
					}
				}
			}
		}
		if len(cands) == 2 && wild != "" {
			ro.nodeWild = core.Field{Struct: "node", Name: wild}
			for _, c := range cands {
				if c != wild {
					ro.nodeParam = core.Field{Struct: "node", Name: c}
				}
			}
		} else {
			r.Unres(roleRule, "node.param/node.wild", fmt.Sprintf("candidates %v wild=%q", cands, wild))
			ok = false
		}
	}
	if !ok {
		return nil
	}
	return ro
}

// c06GroupTags is rule R5.
func c06GroupTags(r *core.Run, root []*ssa.Function, ro *muxRoles) {
	p := r.P
	// equalTokenIndex: v is the counter of a loop that indexes a []string with it and
	// the store at `at` is dominated by the true edge of <that element> == <string>
	equalTokenIndex := func(v ssa.Value, at ssa.Instruction, known []edgeCond) (bool, string) {
		// a loop counter: a phi, or phi+1 (go/ssa rotates range loops)
		var fn *ssa.Function
		switch x := v.(type) {
		case *ssa.Phi:
			fn = x.Parent()
		case *ssa.BinOp:
			if _, isPhi := x.X.(*ssa.Phi); isPhi && x.Op == token.ADD {
				fn = x.Parent()
			}
		}
		if fn == nil {
			return false, valDesc(v) + " is not a loop counter over the pattern's tokens"
		}
		for _, b := range fn.Blocks {
			for _, in := range b.Instrs {
				ia, ok := in.(*ssa.IndexAddr)
				if !ok || ia.Index != v {
					continue
				}
				sl, isSl := ia.X.Type().Underlying().(*types.Slice)
				if !isSl || types.TypeString(sl.Elem(), nil) != "string" {
					continue
				}
				// the slice is the split pattern: the []string result of a call
				if _, isCall := valueRoot(ia.X).(*ssa.Call); !isCall {
					if _, isPrm := valueRoot(ia.X).(*ssa.Parameter); !isPrm {
						continue
					}
				}
				if ia.Referrers() == nil {
					continue
				}
				for _, rf := range *ia.Referrers() {
					ld, ok := rf.(*ssa.UnOp)
					if !ok || ld.Referrers() == nil {
						continue
					}
					for _, r2 := range *ld.Referrers() {
						bo, ok := r2.(*ssa.BinOp)
						if !ok || bo.Op != token.EQL {
							continue
						}
						for _, ed := range known {
							if at.Parent() == fn && ed.If.Cond == ssa.Value(bo) && ed.Succ == 0 {
								return true, ""
							}
						}
						// the counter is returned from a helper on the equal edge
						if at.Parent() != fn {
							for _, ret := range core.Returns(fn) {
								for _, ed := range dominatingEdges(ret) {
									if ed.If.Cond == ssa.Value(bo) && ed.Succ == 0 {
										for _, res := range ret.Results {
											if res == v {
												return true, ""
											}
										}
									}
								}
							}
						}
					}
				}
			}
		}
		return false, "no whole-token equality test guards the index"
	}
	n := 0
	for _, ac := range core.FieldAccesses(root, func(f core.Field) bool { return f == ro.gpIdx }) {
		if ac.Kind != "store" {
			continue
		}
		st := ac.Instr.(*ssa.Store)
		if c, ok := st.Val.(*ssa.Const); ok && c.Value != nil && c.Value.ExactString() == "0" {
			continue // zero value of a literal (string part)
		}
		n++
		v := st.Val
		if bo, ok := v.(*ssa.BinOp); ok && bo.Op == token.SUB {
			v = bo.X // stored relative to the mount point
		}
		good, why := true, ""
		nl := 0
		// the index may be a variable set in the search loop and stored after it (not-found sentinel
		// on the other paths): each source is judged under the edges through which it is chosen
		for _, src := range phiSources(v) {
			known := srcEdges(st, src)
			for _, lf := range valueLeaves(src.V, nil, 0) {
				if c, ok := lf.V.(*ssa.Const); ok && c.Value != nil {
					continue // not-found sentinel
				}
				nl++
				if ok, w := equalTokenIndex(lf.V, st, known); !ok {
					good, why = false, w
				}
			}
		}
		r.Check(good && nl > 0, "R5", core.FuncName(ac.Fn), "group-tag-index=position-of-equal-token", p.InstrPos(st), "the tag is located by comparing whole tokens", "the token index stored for a group tag is not obtained by whole-token equality: "+why)
	}
	if n == 0 {
		r.Bad("R5", "parseGroup", "stores-a-tag-index", "-", "no store of a group tag index found (rule went vacuous)")
	}
}

// valueRoot strips slices, loads of local cells and conversions.
func valueRoot(v ssa.Value) ssa.Value {
	for i := 0; i < 6; i++ {
		switch x := v.(type) {
		case *ssa.Slice:
			v = x.X
		case *ssa.ChangeType:
			v = x.X
		case *ssa.Convert:
			v = x.X
		default:
			return v
		}
	}
	return v
}

// c06PureLookup is rule R6.
func c06PureLookup(r *core.Run, rule string) {
	p := r.P
	gh := methodNamed(p, "", "Mux", "GetHandler")
	if gh == nil {
		r.Unres(rule, "Mux.GetHandler", "missing")
		return
	}
	shared := map[string]bool{"Mux": true, "node": true, "regHandler": true, "Service": true}
	// the lookup call tree (static callees in the root package, closures included)
	seen := map[*ssa.Function]bool{}
	var tree []*ssa.Function
	var walk func(f *ssa.Function)
	walk = func(f *ssa.Function) {
		if f == nil || seen[f] || len(f.Blocks) == 0 || f.Pkg != gh.Pkg {
			return
		}
		seen[f] = true
		tree = append(tree, f)
		for _, a := range f.AnonFuncs {
			walk(a)
		}
		for _, c := range core.Calls(f) {
			walk(c.Common().StaticCallee())
		}
	}
	walk(gh)
	// fromShared: v is (a re-slice / phi of) a value loaded from a field of a shared struct
	var fromShared func(v ssa.Value, d int) (string, bool)
	fromShared = func(v ssa.Value, d int) (string, bool) {
		if d > 6 || v == nil {
			return "", false
		}
		v = core.Strip(v)
		if f, ok := core.LoadedField(v); ok && shared[f.Struct] {
			return f.String(), true
		}
		switch x := v.(type) {
		case *ssa.FieldAddr: // an array field sliced in place
			if f, ok := core.FieldOf(x); ok && shared[f.Struct] {
				return f.String(), true
			}
		case *ssa.Slice:
			return fromShared(x.X, d+1)
		case *ssa.Phi:
			for _, e := range x.Edges {
				if e == v {
					continue
				}
				if s, ok := fromShared(e, d+1); ok {
					return s, true
				}
			}
		}
		return "", false
	}
	n := 0
	for _, fn := range tree {
		for _, b := range fn.Blocks {
			for _, in := range b.Instrs {
				n++
				switch x := in.(type) {
				case *ssa.Store:
					if f, ok := core.FieldOf(x.Addr); ok && shared[f.Struct] {
						r.Bad(rule, core.FuncName(fn), "no-store-to("+f.String()+")", p.InstrPos(x), "the lookup path writes "+f.String()+": concurrent lookups race on it")
					}
					if ia, ok := x.Addr.(*ssa.IndexAddr); ok {
						if s, ok := fromShared(ia.X, 0); ok {
							r.Bad(rule, core.FuncName(fn), "no-element-store-into("+s+")", p.InstrPos(x), "the lookup path overwrites an element of "+s)
						}
					}
				case *ssa.MapUpdate:
					if s, ok := fromShared(x.Map, 0); ok {
						r.Bad(rule, core.FuncName(fn), "no-map-update-of("+s+")", p.InstrPos(x), "the lookup path updates the map "+s)
					}
				case *ssa.Call:
					// a mutating method of a container kept in shared state (a sync.Map cache of lookup
					// results, an atomic counter): the lookup memoises - what it hands out later is what
					// was registered when the name was first looked up, not what is registered now
					if cal := x.Common().StaticCallee(); cal != nil && cal.Pkg != nil && cal.Pkg != gh.Pkg && len(x.Call.Args) > 0 {
						if fa, isFA := core.Strip(x.Call.Args[0]).(*ssa.FieldAddr); isFA {
							if f, ok := core.FieldOf(fa); ok && shared[f.Struct] {
								switch cal.String() {
								case "(*sync.Map).Store", "(*sync.Map).LoadOrStore", "(*sync.Map).Delete", "(*sync.Map).LoadAndDelete", "(*sync.Map).Swap", "(*sync.Map).CompareAndSwap", "(*sync.Map).CompareAndDelete",
									"sync/atomic.StorePointer", "(*sync/atomic.Value).Store", "(*sync/atomic.Pointer).Store":
									r.Bad(rule, core.FuncName(fn), "no-mutating-call-on("+f.String()+")", p.InstrPos(x), "the lookup path stores into "+f.String()+" ("+cal.String()+"): results are memoised in shared state - a match handed out later carries the handler, listeners and group registered when the name was first looked up (listeners added since are never called)")
								}
							}
						}
					}
					if core.CalleeName(x) == "builtin:append" {
						if s, ok := fromShared(x.Call.Args[0], 0); ok {
							r.Bad(rule, core.FuncName(fn), "no-append-into("+s+")", p.InstrPos(x), "the lookup path appends into the backing array of "+s+" (a scratch buffer kept in shared state): two concurrent lookups overwrite each other's tokens, so params, group and even the matched handler can belong to another name")
						}
					}
				}
			}
		}
	}
	r.OK(rule, core.FuncName(gh), "lookup-tree-writes-no-shared-state", p.Pos(gh.Pos()), fmt.Sprintf("%d functions, %d instructions reachable from the lookup entry point scanned", len(tree), n))
}

// c06PrefixBoundary is rule R7.
func c06PrefixBoundary(r *core.Run, rule string) {
	p := r.P
	gh := methodNamed(p, "", "Mux", "GetHandler")
	if gh == nil || len(gh.Params) < 2 {
		r.Unres(rule, "Mux.GetHandler", "missing")
		return
	}
	ghName := gh.Params[1]
	n := 0
	// the entry itself and its private helpers (trimPath(rname)): in a helper the name is the
	// parameter that every call site binds to the entry's name parameter
	type scope struct {
		fn   *ssa.Function
		name ssa.Value
	}
	scopes := []scope{{gh, ghName}}
	for _, h := range p.Helpers(gh) {
		if h == gh {
			continue
		}
		for _, prm := range h.Params {
			if isStringType(prm.Type()) && originOf(p, prm) == ssa.Value(ghName) {
				scopes = append(scopes, scope{h, prm})
			}
		}
	}
	for _, sc := range scopes {
		name := sc.name
		for _, b := range sc.fn.Blocks {
			for _, in := range b.Instrs {
				sl, ok := in.(*ssa.Slice)
				if !ok || sl.X != name || sl.Low == nil {
					continue
				}
				if k, isC := core.ConstInt(sl.Low); isC && k == 0 {
					continue // a prefix, not a remainder
				}
				n++
				sepChecked := false
				var facts []condFact
				for _, ed := range dominatingEdges(sl) {
					facts = append(facts, edgeFacts(ed)...)
				}
				for _, ft := range facts {
					cnd, succ := ft.V, 1
					if ft.True {
						succ = 0
					}
					bo, ok := cnd.(*ssa.BinOp)
					if !ok || (bo.Op != token.EQL && bo.Op != token.NEQ) {
						continue
					}
					k, isC := core.ConstInt(bo.Y)
					if !isC || k != '.' {
						continue
					}
					// the compared byte is an element of the name
					isElem := false
					switch x := bo.X.(type) {
					case *ssa.Index:
						isElem = x.X == ssa.Value(name)
					case *ssa.Lookup:
						isElem = x.X == ssa.Value(name)
					case *ssa.UnOp:
						if ia, ok := x.X.(*ssa.IndexAddr); ok {
							isElem = ia.X == ssa.Value(name)
						}
					}
					if isElem && ((bo.Op == token.EQL) == (succ == 0)) {
						sepChecked = true
					}
				}
				r.Check(sepChecked, rule, core.FuncName(sc.fn), "remainder-after-path-starts-at-token-boundary", p.InstrPos(sl), "the remainder is taken only where the byte after the path is the separator", "the name's remainder after the mux path is taken without having tested that the path is followed by the token separator: a name that merely starts with the path text (\"testing.x\" for path \"test\") is routed into this mux and its handler sees token fragments as path parameters")
			}
		}
	}
	if n == 0 {
		r.OKTrivial(rule, core.FuncName(gh), "no-remainder-slicing", p.Pos(gh.Pos()), "the lookup entry takes no remainder of the name by position")
	}
}

// c06NoEarlyFailure is C06.R9 (shared with C17.G6).
func c06NoEarlyFailure(r *core.Run, rule string, ro *muxRoles) {
	p := r.P
	mn := ro.matchNode
	if mn == nil {
		r.Unres(rule, "matchNode", "not resolved")
		return
	}
	wildAbsent := func(e edgeCond) bool {
		ci := core.Cond(e.If.Cond)
		if ci.Kind != "nilcmp" {
			return false
		}
		isWild := ci.HasFld && ci.Field == ro.nodeWild
		if prm, isP := core.Strip(ci.X).(*ssa.Parameter); isP && !isWild {
			// a per-candidate helper: the candidate it is handed at every call site is the wildcard child
			vs := paramArgs(p, prm, 0)
			isWild = len(vs) > 0
			for _, v := range vs {
				if f, ok := core.LoadedField(v); !ok || f != ro.nodeWild {
					isWild = false
				}
			}
		}
		if !isWild {
			return false
		}
		truth := e.Succ == 0
		if ci.Negate {
			truth = !truth
		}
		return (ci.Op == token.EQL && truth) || (ci.Op == token.NEQ && !truth)
	}
	under := func(at ssa.Instruction, pred, to *ssa.BasicBlock) bool {
		if pred != nil {
			at = pred.Instrs[len(pred.Instrs)-1]
			if iff, ok := at.(*ssa.If); ok {
				for i, sc := range pred.Succs {
					if sc == to && wildAbsent(edgeCond{iff, i}) {
						return true
					}
				}
			}
		}
		for _, e := range dominatingEdges(at) {
			if wildAbsent(e) {
				return true
			}
		}
		return false
	}
	n := 0
	// matcher-level functions: the matcher, and the bool helpers of its unit whose result a
	// matcher-level function returns as its own (a helper whose result is only branched on
	// reports one candidate's outcome, not the matcher's)
	level := map[*ssa.Function]bool{mn: true}
	for changed := true; changed; {
		changed = false
		for _, h := range p.Helpers(mn) {
			if level[h] || !(h.Signature.Results().Len() == 1 && core.TypeName(h.Signature.Results().At(0).Type()) == "bool") {
				continue
			}
			for _, c := range p.CallersOf(h) {
				if !level[c.Parent()] || c.Value() == nil {
					continue
				}
				for _, ret := range core.Returns(c.Parent()) {
					for _, src := range phiSources(ret.Results[0]) {
						if src.V == c.Value() {
							level[h] = true
							changed = true
						}
					}
				}
			}
		}
	}
	for _, fn := range p.Helpers(mn) {
		if !level[fn] {
			continue
		}
		for _, ret := range core.Returns(fn) {
			if len(ret.Results) != 1 {
				continue
			}
			var walk func(v ssa.Value, pred, to *ssa.BasicBlock, d int)
			walk = func(v ssa.Value, pred, to *ssa.BasicBlock, d int) {
				if phi, ok := v.(*ssa.Phi); ok && d < 5 {
					for i, e := range phi.Edges {
						walk(e, phi.Block().Preds[i], phi.Block(), d+1)
					}
					return
				}
				if !isConstBool(v, false) {
					return
				}
				n++
				r.Check(under(ret, pred, to), rule, core.FuncName(fn), "false-only-after-wildcard-child-absent", p.InstrPos(ret), "the matcher fails only after the full-wildcard child was found absent", "the matcher returns false before the placeholder / full-wildcard children were tried: a name whose last token equals a literal that only exists as part of a longer pattern is not routed to the placeholder or wildcard pattern that matches it")
			}
			walk(ret.Results[0], nil, nil, 0)
		}
	}
	if n == 0 {
		r.Bad(rule, core.FuncName(mn), "false-only-after-wildcard-child-absent", p.Pos(mn.Pos()), "the matcher has no failing return at all")
	}
}

// c06RegistrationAccepts is C06.R10: the trie insertion (fetch) under an
// assumption on the current token.
func c06RegistrationAccepts(r *core.Run, rule string, ro *muxRoles) {
	p := r.P
	fn := ro.fetch
	if fn == nil {
		r.Unres(rule, "fetch", "not resolved")
		return
	}
	unit := map[*ssa.Function]bool{}
	for _, f2 := range p.Scope(fn) {
		unit[f2] = true
	}
	// token values: string elements of a []string, and helper/closure parameters receiving them
	tok := map[ssa.Value]bool{}
	for changed := true; changed; {
		changed = false
		for f2 := range unit {
			for _, b := range f2.Blocks {
				for _, in := range b.Instrs {
					switch x := in.(type) {
					case *ssa.UnOp:
						if ia, ok := x.X.(*ssa.IndexAddr); ok && x.Op == token.MUL && isStringType(x.Type()) {
							if sl, ok := ia.X.Type().Underlying().(*types.Slice); ok && isStringType(sl.Elem()) && !tok[x] {
								tok[x] = true
								changed = true
							}
						}
					case *ssa.Extract:
						if nx, ok := x.Tuple.(*ssa.Next); ok && !nx.IsString && x.Index == 2 && isStringType(x.Type()) && !tok[x] {
							tok[x] = true
							changed = true
						}
					case ssa.CallInstruction:
						cal := x.Common().StaticCallee()
						if cal == nil || !unit[cal] {
							continue
						}
						for i, a := range x.Common().Args {
							if tok[a] && i < len(cal.Params) && !tok[cal.Params[i]] {
								tok[cal.Params[i]] = true
								changed = true
							}
						}
					}
				}
			}
		}
	}
	if len(tok) == 0 {
		r.Unres(rule, core.FuncName(fn), "no pattern token value found in the trie insertion")
		return
	}
	cmpInt := func(a int64, op token.Token, b int64) int8 {
		var t bool
		switch op {
		case token.EQL:
			t = a == b
		case token.NEQ:
			t = a != b
		case token.LSS:
			t = a < b
		case token.LEQ:
			t = a <= b
		case token.GTR:
			t = a > b
		case token.GEQ:
			t = a >= b
		default:
			return 0
		}
		if t {
			return 1
		}
		return 2
	}
	scenario := func(text string) func(v ssa.Value) int8 {
		depthEval := 0
		var eval func(v ssa.Value) int8
		eval = func(v ssa.Value) int8 {
			if u, ok := v.(*ssa.UnOp); ok && u.Op == token.NOT {
				if r := eval(u.X); r != 0 {
					return 3 - r
				}
				return 0
			}
			// a short-circuit flag (a || b as a bool phi): the inputs that can arrive - an input whose
			// predecessor block branches away from the merge block under the assumption cannot - must
			// agree
			if phi, isPhi := v.(*ssa.Phi); isPhi && depthEval < 3 {
				if bt, isB := phi.Type().Underlying().(*types.Basic); isB && bt.Kind() == types.Bool {
					depthEval++
					defer func() { depthEval-- }()
					// arrives: control can pass from block q to block b under the assumption
					arrives := func(q, b *ssa.BasicBlock) bool {
						if iff, isIf := q.Instrs[len(q.Instrs)-1].(*ssa.If); isIf && len(q.Succs) == 2 && q.Succs[0] != q.Succs[1] {
							if c := eval(iff.Cond); c != 0 {
								taken := q.Succs[0]
								if c == 2 {
									taken = q.Succs[1]
								}
								return taken == b
							}
						}
						return true
					}
					var feasible func(b *ssa.BasicBlock, d int) bool
					feasible = func(b *ssa.BasicBlock, d int) bool {
						if d > 3 || len(b.Preds) == 0 {
							return true
						}
						for _, q := range b.Preds {
							if arrives(q, b) && feasible(q, d+1) {
								return true
							}
						}
						return false
					}
					var got int8
					for i, e := range phi.Edges {
						pred := phi.Block().Preds[i]
						if !arrives(pred, phi.Block()) || !feasible(pred, 0) {
							continue // this input cannot arrive
						}
						var r int8
						if k, isK := e.(*ssa.Const); isK && k.Value != nil && k.Value.Kind() == constant.Bool {
							r = 2
							if constant.BoolVal(k.Value) {
								r = 1
							}
						} else {
							r = eval(e)
						}
						if r == 0 || (got != 0 && got != r) {
							return 0
						}
						got = r
					}
					return got
				}
			}
			bo, ok := v.(*ssa.BinOp)
			if !ok {
				return 0
			}
			// the token classified by a helper of the unit: kindOf(tok) == kindWildcard. The helper is
			// walked under the same assumption; when every return it can reach yields one constant,
			// that constant is the call's value
			if bo.Op == token.EQL || bo.Op == token.NEQ {
				if call, isCall := bo.X.(*ssa.Call); isCall {
					if k, isK := bo.Y.(*ssa.Const); isK && k.Value != nil {
						if cal := call.Common().StaticCallee(); cal != nil && unit[cal] && cal != fn && cal.Signature.Results().Len() == 1 && depthEval < 3 {
							handed := false
							for _, a := range call.Call.Args {
								if tok[a] {
									handed = true
								}
							}
							if handed && len(cal.Blocks) > 0 {
								depthEval++
								var vals []constant.Value
								known := true
								seen := map[*ssa.BasicBlock]bool{}
								var walk func(b *ssa.BasicBlock)
								walk = func(b *ssa.BasicBlock) {
									if seen[b] || !known {
										return
									}
									seen[b] = true
									switch t := b.Instrs[len(b.Instrs)-1].(type) {
									case *ssa.If:
										switch eval(t.Cond) {
										case 1:
											walk(b.Succs[0])
										case 2:
											walk(b.Succs[1])
										default:
											walk(b.Succs[0])
											walk(b.Succs[1])
										}
									case *ssa.Return:
										for _, src := range phiSources(t.Results[0]) {
											if c, isC := src.V.(*ssa.Const); isC && c.Value != nil {
												vals = append(vals, c.Value)
											} else {
												known = false
											}
										}
									case *ssa.Jump:
										walk(b.Succs[0])
									}
								}
								walk(cal.Blocks[0])
								depthEval--
								if known && len(vals) > 0 {
									all := true
									for _, cv := range vals[1:] {
										if cv.Kind() != vals[0].Kind() || !constant.Compare(cv, token.EQL, vals[0]) {
											all = false
										}
									}
									if all && vals[0].Kind() == k.Value.Kind() {
										if constant.Compare(vals[0], token.EQL, k.Value) == (bo.Op == token.EQL) {
											return 1
										}
										return 2
									}
								}
							}
						}
					}
				}
			}
			// comparison of two decided conditions: (a == '$') == (n == 1)
			if bo.Op == token.EQL || bo.Op == token.NEQ {
				if bt, ok := bo.X.Type().Underlying().(*types.Basic); ok && bt.Kind() == types.Bool {
					ex, ey := eval(bo.X), eval(bo.Y)
					if k, ok := bo.Y.(*ssa.Const); ok && k.Value != nil && k.Value.Kind() == constant.Bool {
						ey = 2
						if constant.BoolVal(k.Value) {
							ey = 1
						}
					}
					if ex != 0 && ey != 0 {
						if (ex == ey) == (bo.Op == token.EQL) {
							return 1
						}
						return 2
					}
					return 0
				}
			}
			x := core.Strip(bo.X)
			for {
				cv, ok := x.(*ssa.Convert)
				if !ok {
					break
				}
				x = core.Strip(cv.X)
			}
			switch y := bo.Y.(type) {
			case *ssa.Const:
				if y.Value == nil {
					return 0
				}
				// len(token) <op> k
				if c, ok := x.(*ssa.Call); ok && core.CalleeName(c) == "builtin:len" && tok[c.Call.Args[0]] {
					if k, ok := core.ConstInt(y); ok {
						return cmpInt(int64(len(text)), bo.Op, k)
					}
				}
				// token[0] <op> k
				if ix, ok := x.(*ssa.Index); ok && tok[ix.X] {
					if i, ok := core.ConstInt(ix.Index); ok && int(i) < len(text) {
						if k, ok := core.ConstInt(y); ok {
							return cmpInt(int64(text[i]), bo.Op, k)
						}
					}
				}
				// token == "literal"
				if tok[x] && y.Value.Kind() == constant.String && (bo.Op == token.EQL || bo.Op == token.NEQ) {
					eq := constant.StringVal(y.Value) == text
					if eq == (bo.Op == token.EQL) {
						return 1
					}
					return 2
				}
			}
			return 0
		}
		return eval
	}
	for _, sc := range []struct{ text, what string }{{"*", "anonymous-placeholder"}, {"a", "one-letter-literal"}} {
		fl := &core.Flow{Fn: fn, Entry: core.StateSet(0).Add(0), Tags: true, EvalBool: scenario(sc.text),
			Inline: func(cal *ssa.Function) bool { return unit[cal] && cal != fn }}
		res := fl.Run()
		bad := ""
		for f2 := range unit {
			for _, b := range f2.Blocks {
				for _, in := range b.Instrs {
					if pn, ok := in.(*ssa.Panic); ok && !res.Before[pn].Empty() {
						if bad == "" || p.InstrPos(pn) < bad {
							bad = p.InstrPos(pn)
						}
					}
				}
			}
		}
		r.Check(bad == "", rule, core.FuncName(fn), "accepts-token:"+sc.what, p.Pos(fn.Pos()), "no panic is reachable in the trie insertion when the token is \""+sc.text+"\"", "registration panics (at "+bad+") for a pattern token \""+sc.text+"\": a pattern the documentation calls valid and Pattern.IsValid accepts (\"user."+sc.text+"\") cannot be registered")
	}
	// ... and the malformed wildcard forms are refused by the insertion itself (AddListener and the
	// Listeners of a handler reach it without the pattern validator): with every token assumed to be
	// the form, no return of the insertion is reachable
	for _, sc := range []struct{ text, what string }{{">x", "full-wildcard-with-suffix"}, {"*x", "anonymous-placeholder-with-suffix"}, {"$", "unnamed-placeholder"}} {
		// state 1: a token has been read on this path (a pattern without tokens runs no iteration)
		fl := &core.Flow{Fn: fn, Entry: core.StateSet(0).Add(0), Tags: true, EvalBool: scenario(sc.text),
			Inline: func(cal *ssa.Function) bool { return unit[cal] && cal != fn }}
		fl.Transfer = func(in ssa.Instruction, st int) core.StateSet {
			if v, ok := in.(ssa.Value); ok && tok[v] {
				return core.StateSet(0).Add(1)
			}
			return core.StateSet(0).Add(st)
		}
		res := fl.Run()
		completes := ""
		for _, ret := range core.Returns(fn) {
			if res.Before[ret].Has(1) {
				completes = p.InstrPos(ret)
			}
		}
		if os.Getenv("RV_DEBUG_R10") != "" {
			ev := scenario(sc.text)
			for _, b := range fn.Blocks {
				if iff, ok := b.Instrs[len(b.Instrs)-1].(*ssa.If); ok {
					fmt.Fprintf(os.Stderr, "R10 %s block %d cond %s eval=%d before=%v\n", sc.text, b.Index, iff.Cond.String(), ev(iff.Cond), res.Before[iff].List())
				}
			}
		}
		r.Check(completes == "", rule, core.FuncName(fn), "refuses-token:"+sc.what, p.Pos(fn.Pos()), "the trie insertion cannot complete when a token is \""+sc.text+"\"", "the trie insertion completes (return at "+completes+") for a pattern token \""+sc.text+"\": a listener pattern of that form is registered although no name can be routed by it as written (AddListener does not run the pattern validator) - the node it plants changes what other names resolve to")
	}
}

// c06MountAware: a function that descends the trie through all three child
// kinds and carries a position parameter is mount-aware: it tests the node's
// mounted flag and, on the true edge, rebinds one of its int parameters (the
// mount index) to a token position; its recursive calls pass the rebound
// value, not the parameter as it came in.
func c06MountAware(r *core.Run, rule string, ro *muxRoles) {
	p := r.P
	mountedF, ok := fieldByType(p, "", "node", func(t types.Type) bool {
		b, isB := t.Underlying().(*types.Basic)
		return isB && b.Kind() == types.Bool
	})
	if !ok {
		r.Unres(rule, "node.<mounted>", "no single bool field in the trie node")
		return
	}
	for _, fn := range p.FuncsOfPkg("") {
		if fn.Parent() != nil || len(fn.Blocks) == 0 {
			continue
		}
		var ints []*ssa.Parameter
		for _, prm := range fn.Params {
			if b, isB := prm.Type().Underlying().(*types.Basic); isB && b.Kind() == types.Int {
				ints = append(ints, prm)
			}
		}
		if len(ints) == 0 {
			continue
		}
		// all three child kinds are read by the function, or by it and its per-candidate helpers
		// (the matcher proper may leave the reads to per-candidate helpers)
		kinds, ownKinds := map[core.Field]bool{}, map[core.Field]bool{}
		for _, ac := range core.FieldAccesses(p.Helpers(fn), func(f core.Field) bool {
			return f == ro.nodeNodes || f == ro.nodeParam || f == ro.nodeWild
		}) {
			kinds[ac.F] = true
			if ac.Fn == fn {
				ownKinds[ac.F] = true
			}
		}
		if !(len(ownKinds) == 3 || (fn == ro.matchNode && len(kinds) == 3)) {
			continue
		}
		// the rebinding phi
		type cand struct {
			phi *ssa.Phi
			prm *ssa.Parameter
		}
		var cands []cand
		for _, b := range fn.Blocks {
			iff, isIf := b.Instrs[len(b.Instrs)-1].(*ssa.If)
			if !isIf {
				continue
			}
			cnd := iff.Cond
			for {
				u, isU := cnd.(*ssa.UnOp)
				if !isU || u.Op != token.NOT {
					break
				}
				cnd = u.X
			}
			if f, isF := core.LoadedField(cnd); !isF || f != mountedF {
				continue
			}
			near := map[*ssa.BasicBlock]bool{}
			for _, s1 := range b.Succs {
				near[s1] = true
				for _, s2 := range s1.Succs {
					near[s2] = true
				}
			}
			for nb := range near {
				for _, in := range nb.Instrs {
					phi, isPhi := in.(*ssa.Phi)
					if !isPhi {
						break
					}
					for _, e := range phi.Edges {
						for _, ip := range ints {
							if e == ssa.Value(ip) && len(phi.Edges) == 2 {
								cands = append(cands, cand{phi, ip})
							}
						}
					}
				}
			}
		}
		fname := core.FuncName(fn)
		if len(cands) == 0 {
			r.Bad(rule, fname, "mount-index-rebound-at-mount-points", p.Pos(fn.Pos()), "this function walks the trie with a position parameter but never rebinds a mount index on the edge where the node is a mount point: placeholder positions, which are stored relative to the mux they were registered in, are then resolved against the wrong token for everything below a nested mount (the pattern handed to OnRegister, the path parameters of a match)")
			continue
		}
		// (the phi may merge two int parameters - the old mount index and the position -: the mount
		// index is the one at whose position the recursive calls pass the phi)
		good, nRec := false, 0
		rebound := cands[0].phi
		for _, cd := range cands {
			idx := -1
			for i, q := range fn.Params {
				if q == cd.prm {
					idx = i
				}
			}
			ok, n := true, 0
			for _, c := range core.Calls(fn) {
				g := c.Common().StaticCallee()
				if g == nil {
					continue
				}
				if g == fn {
					if idx >= len(c.Common().Args) {
						continue
					}
					n++
					if c.Common().Args[idx] != ssa.Value(cd.phi) {
						ok = false
					}
					continue
				}
				// a per-candidate helper that descends: it hands one of its own parameters on as the
				// mount index of the recursive call; this call must pass the rebound value for it
				for _, c2 := range core.Calls(g) {
					if c2.Common().StaticCallee() != fn || idx >= len(c2.Common().Args) {
						continue
					}
					n++
					gp, isP := c2.Common().Args[idx].(*ssa.Parameter)
					j := -1
					if isP {
						for k, q := range g.Params {
							if q == gp {
								j = k
							}
						}
					}
					if j < 0 || j >= len(c.Common().Args) || c.Common().Args[j] != ssa.Value(cd.phi) {
						ok = false
					}
				}
			}
			if n > nRec {
				nRec = n
			}
			if ok && n > 0 {
				good, rebound = true, cd.phi
			}
		}
		r.Check(good && nRec > 0, rule, fname, "mount-index-rebound-at-mount-points", p.InstrPos(rebound), "the mount index is rebound where the node is a mount point and every recursive call passes the rebound value", fmt.Sprintf("recursive calls (%d) do not all pass the mount index rebound at mount points", nRec))
	}
}

// c06AcceptHasHandler (C06.R12, shared as C02.W2): an exact-match accept site of
// the matcher - one that records a literal or placeholder node as the match -
// lies behind the edge on which that node's handler was tested non-nil. A node
// without a handler only exists as part of a longer pattern; accepting it ends
// the search, the lookup then reports "no handler" although the placeholder or
// wildcard sibling matches the name. The wildcard site needs no test: a
// full-wildcard node is only ever created for a registration.
func c06AcceptHasHandler(r *core.Run, rule string, root []*ssa.Function, ro *muxRoles) {
	p := r.P
	n := 0
	for _, ac := range core.FieldAccesses(root, func(f core.Field) bool { return f == ro.nmNode }) {
		st, ok := ac.Instr.(*ssa.Store)
		if !ok || ac.Kind != "store" {
			continue
		}
		if c, isC := st.Val.(*ssa.Const); isC && c.IsNil() {
			continue
		}
		fromWild := false
		for _, lf := range valueLeaves(st.Val, nil, 0) {
			if f, ok := core.LoadedField(lf.V); ok && f == ro.nodeWild {
				fromWild = true
			}
		}
		// a helper that records whatever node it is handed: judged at its call sites
		type site struct {
			node ssa.Value
			at   ssa.Instruction
		}
		sites := []site{{st.Val, st}}
		if prm, isPrm := st.Val.(*ssa.Parameter); isPrm && p.IsPrivateHelper(ac.Fn) {
			sites = nil
			pi := -1
			for i, q := range ac.Fn.Params {
				if q == prm {
					pi = i
				}
			}
			for _, cs := range p.CallersOf(ac.Fn) {
				if pi >= 0 && pi < len(cs.Common().Args) {
					sites = append(sites, site{cs.Common().Args[pi], cs})
				}
			}
		}
		for k, s := range sites {
			isWild := fromWild
			for _, lf := range valueLeaves(s.node, nil, 0) {
				if f, ok := core.LoadedField(lf.V); ok && f == ro.nodeWild {
					isWild = true
				}
			}
			if _, isPrm := core.Strip(s.node).(*ssa.Parameter); isPrm && !isWild {
				// the calling helper was itself handed the node (matchFullWild(cur.fullWild, ...))
				vs := paramArgs(p, s.node, 0)
				all := len(vs) > 0
				for _, v := range vs {
					w := false
					for _, lf := range valueLeaves(v, nil, 0) {
						if f, ok := core.LoadedField(lf.V); ok && f == ro.nodeWild {
							w = true
						}
					}
					if !w {
						all = false
					}
				}
				isWild = all
			}
			if isWild {
				continue
			}
			n++
			guarded := false
			for _, ed := range dominatingEdges(s.at) {
				ci := core.Cond(ed.If.Cond)
				if ci.Kind != "nilcmp" || !ci.HasFld || ci.Field != ro.nodeHs {
					continue
				}
				u, isU := core.Strip(ci.X).(*ssa.UnOp)
				if !isU {
					continue
				}
				fa, isFA := u.X.(*ssa.FieldAddr)
				if !isFA || fa.X != s.node {
					continue
				}
				nonNil := (ci.Op == token.NEQ) == (ed.Succ == 0)
				if ci.Negate {
					nonNil = !nonNil
				}
				if nonNil {
					guarded = true
				}
			}
			r.Check(guarded, rule, core.FuncName(s.at.Parent()), fmt.Sprintf("exact-accept-site-behind-handler!=nil#%d", k), p.InstrPos(s.at), "the literal / placeholder node is recorded as the match only when it has a handler", "a literal or placeholder node is recorded as the match without its handler having been tested non-nil: a node that only exists as part of a longer pattern ends the search, so names that the placeholder or wildcard sibling matches are reported as having no handler (With errs, requests get system.notFound)")
		}
	}
	if n == 0 {
		r.Bad(rule, "matchNode", "exact-accept-sites-found", "-", "no exact-match accept site found (rule went vacuous)")
	}
}

// c06AddValidates: the one function through which every handler registration
// passes (it calls the trie walk and stores the handler) panics on a pattern
// Pattern.IsValid rejects before the walk touches the trie (C06.R3's clause;
// shared with C17.G10). Validation in one public entry point only leaves the
// other entry points (AddHandler) with the walk's weaker first-byte scan.
func c06AddValidates(r *core.Run, rule string, ro *muxRoles) {
	p := r.P
	add := ro.add
	if add == nil || ro.fetch == nil {
		r.Unres(rule, "Mux.add/fetch", "not resolved")
		return
	}
	var fetchCall ssa.Instruction
	for _, c := range helperCalls(p, add) {
		if c.Common().StaticCallee() == ro.fetch {
			if l := p.Lift(c, add); len(l) > 0 {
				fetchCall = l[0]
			}
		}
	}
	g, ok := panicsUnlessCall(add, "IsValid")
	r.Check(ok && fetchCall != nil && core.Dominates(g, fetchCall), rule, core.FuncName(add), "IsValid-panic-before-fetch", p.Pos(add.Pos()), "an invalid pattern panics before the trie is touched, whichever public method registered it", "the common registration function does not reject patterns Pattern.IsValid rejects before inserting nodes: a public entry point that does not validate on its own (AddHandler) registers patterns with a wildcard character in the middle of a token, '?', spaces or non-ASCII bytes, hands them to OnRegister and routes names no validator accepts")
}

// c06DefaultGroupOnlyWithoutGroup: the group evaluator falls back on the
// resource name exactly when no group was configured (the nil group). A
// fallback on any other condition (no tokens, as for the root pattern) makes a
// configured static group be ignored there, and the resource is queued under
// its own name beside the other members of its group.
func c06DefaultGroupOnlyWithoutGroup(r *core.Run, rule string, ro *muxRoles) {
	p := r.P
	ts := ro.toString
	if ts == nil || len(ts.Params) < 2 {
		r.Unres(rule, "group.toString", "not resolved")
		return
	}
	recv := ts.Params[0]
	var name *ssa.Parameter
	for _, prm := range ts.Params[1:] {
		if isStringType(prm.Type()) {
			name = prm
		}
	}
	if name == nil {
		r.Unres(rule, "group.toString.<resource-name>", "no string parameter")
		return
	}
	n := 0
	for _, ret := range core.Returns(ts) {
		for _, src := range phiSources(ret.Results[0]) {
			if core.Strip(src.V) != ssa.Value(name) {
				continue
			}
			n++
			onNil := false
			for _, ed := range srcEdges(ret, src) {
				ci := core.Cond(ed.If.Cond)
				if ci.Kind != "nilcmp" || core.Strip(ci.X) != ssa.Value(recv) {
					continue
				}
				truth := ed.Succ == 0
				if ci.Negate {
					truth = !truth
				}
				if (ci.Op == token.EQL) == truth {
					onNil = true
				}
			}
			r.Check(onNil, rule, core.FuncName(ts), "resource-name-returned-only-for-the-nil-group", p.InstrPos(ret), "the resource name is the group only when no group was configured", "the group evaluator returns the resource name on a path where a group may be configured (not only on the group==nil edge): a static group on such a pattern (the root pattern has no tokens) is ignored, the resource gets a worker group of its own and runs beside the other members of the configured group")
		}
	}
	if n == 0 {
		r.Bad(rule, core.FuncName(ts), "resource-name-returned-only-for-the-nil-group", p.Pos(ts.Pos()), "the group evaluator never returns the resource name (rule went vacuous)")
	}
}

// c06ParamsCompared: setAndValidateParams rejects a registration whose
// placeholders differ from the node's in count, name or position (C06.R3's
// clause; shared as C05.M11 - the handler's path parameters carry its own
// placeholder names).
func c06ParamsCompared(r *core.Run, rule string, ro *muxRoles) {
	p := r.P
	// setAndValidateParams: mismatch panics
	if fn := ro.setParams; fn != nil {
		n := 0
		for _, b := range fn.Blocks {
			if _, ok := b.Instrs[len(b.Instrs)-1].(*ssa.Panic); ok {
				n++
			}
		}
		r.Check(n >= 2, rule, core.FuncName(fn), "mismatch-panics", p.Pos(fn.Pos()), "count and name/position mismatches panic", "setAndValidateParams no longer rejects conflicting placeholders")
		// every member of a path parameter is compared between the new registration and the node
		// (a listener and a handler on one node may reach it through patterns that place the same
		// names on different tokens: model.$id.* and model.*.$id)
		if st, ok := structType(p, "", "pathParam"); ok {
			compared := map[string]bool{}
			fieldOfElem := func(v ssa.Value) (string, ssa.Value) {
				switch x := core.Strip(v).(type) {
				case *ssa.Field:
					if f, ok := core.FieldOf(x); ok && f.Struct == "pathParam" {
						return f.Name, x.X
					}
				case *ssa.UnOp:
					if fa, ok := x.X.(*ssa.FieldAddr); ok {
						if f, ok := core.FieldOf(fa); ok && f.Struct == "pathParam" {
							return f.Name, fa.X
						}
					}
				}
				return "", nil
			}
			var blocks []*ssa.BasicBlock
			for _, h := range p.Helpers(fn) { // the comparison may sit in a helper (sameParam(a, b))
				blocks = append(blocks, h.Blocks...)
			}
			for _, b := range blocks {
				for _, in := range b.Instrs {
					bo, ok := in.(*ssa.BinOp)
					if !ok || (bo.Op != token.NEQ && bo.Op != token.EQL) {
						continue
					}
					if core.TypeName(bo.X.Type()) == "pathParam" && core.TypeName(bo.Y.Type()) == "pathParam" {
						for i := 0; i < st.NumFields(); i++ {
							compared[st.Field(i).Name()] = true // whole-struct comparison
						}
						continue
					}
					fx, bx := fieldOfElem(bo.X)
					fy, by := fieldOfElem(bo.Y)
					if fx != "" && fx == fy && bx != by {
						compared[fx] = true
					}
				}
			}
			var missing []string
			for i := 0; i < st.NumFields(); i++ {
				if !compared[st.Field(i).Name()] {
					missing = append(missing, st.Field(i).Name())
				}
			}
			r.Check(len(missing) == 0, rule, core.FuncName(fn), "params-compared-member-by-member", p.Pos(fn.Pos()), "name and token index of every placeholder are compared with those already set on the node", fmt.Sprintf("the placeholders of a new registration are compared with the node's without their member(s) %v: a listener and a handler that put the same names on different tokens are both accepted, and the one registered first decides which token the other's path parameter is taken from", missing))
		}
	}
}
