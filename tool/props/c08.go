package props

import (
	"fmt"
	"go/token"
	"go/types"
	"sort"
	"strings"

	"golang.org/x/tools/go/ssa"

	"resverif/core"
)

func init() { register("C08", c08) }

// mayPublish computes the root-package functions from which Conn.Publish is
// reachable through static (non-go) calls.
func mayPublish(p *core.Prog) map[*ssa.Function]bool {
	root := p.FuncsOfPkg("")
	mp := map[*ssa.Function]bool{}
	for _, c := range invokes(root, "Conn", "Publish") {
		mp[c.Parent()] = true
	}
	for changed := true; changed; {
		changed = false
		for _, fn := range root {
			if mp[fn] {
				continue
			}
			for _, c := range core.Calls(fn) {
				if cal := c.Common().StaticCallee(); cal != nil && mp[cal] && !core.IsGo(c) {
					mp[fn] = true
					changed = true
				}
			}
		}
	}
	return mp
}

// reservedEventNames: custom event names the RES protocol reserves (protocol table, frozen with reason).
var reservedEventNames = []string{"add", "change", "delete", "patch", "query", "reaccess", "remove", "unsubscribe"}

type evMethod struct {
	fn      *ssa.Function
	stem    string // Change, Add, ...
	applyF  core.Field
	hasAppl bool
	A       []ssa.CallInstruction
	P       []ssa.CallInstruction
	L       []ssa.CallInstruction
	scope   []*ssa.Function // the method and the private helpers holding its apply call
}

// isListenerCall: a dynamic call of an element of the resource's listener
// slice (the field of resource whose type is []func(*Event); resolved by
// type, not by name).
func isListenerCall(c ssa.CallInstruction) bool {
	if !core.IsDynamic(c) {
		return false
	}
	u, ok := c.Common().Value.(*ssa.UnOp)
	if !ok {
		return false
	}
	ia, ok := u.X.(*ssa.IndexAddr)
	if !ok {
		return false
	}
	f, ok := core.LoadedField(ia.X)
	if !ok || f.Struct != "resource" {
		return false
	}
	sl, ok := ia.X.Type().Underlying().(*types.Slice)
	if !ok {
		return false
	}
	sig, ok := sl.Elem().Underlying().(*types.Signature)
	return ok && sig.Params().Len() == 1 && core.TypeName(sig.Params().At(0).Type()) == "Event"
}

func c08(r *core.Run) {
	p := r.P
	r.Explanation = "Event classification (A = call of the paired Apply handler, P = call reaching Conn.Publish, L = call of a listener element, V = validity panic) in every event method of the resource, then path-universal typestate/dominance obligations: apply-or-no-handler before publish, publish before listeners, at most one publish per path, apply-error edge reaches only panic, empty-change edges reach no publish/listener, validity checks dominate apply and publish, Event fields flow from the apply results / method arguments, and no go statement on any call path from an event/reply method to Conn.Publish. Decides the order and the nothing-published-on-failure clauses for every handler/listener program; what apply handlers and listeners do is opaque."
	r.NotDecided = []string{"what apply handlers and listeners do", "the JSON content of event payloads (C07/C18)"}
	r.Assumptions = []string{"Conn.Publish is synchronous with respect to the caller (documented nats.go behaviour)"}

	r.Rule("O1", "apply-then-publish: every publish is reached only after the paired apply handler ran or its absence was decided; no path from publish to apply; at most one publish on any path; a method whose Apply field exists contains the apply call", 10)
	r.Rule("O2", "publish-then-listeners: every listener call is reached only after the publish", 5)
	r.Rule("O3", "failed/empty applies publish nothing: the apply error is tested and its non-nil edge reaches only panic (no publish, no listener, no return); for change events the empty-argument edge and the empty-revert-map edge reach return without publish/listener", 7)
	r.Rule("O4", "validity first: wrong resource type, negative index, reserved or malformed event names panic on edges that dominate apply and publish; the name validator rejects the empty name, every rune below 33 or above 126 and '.', '*', '>', '?'", 8)
	r.Rule("O5", "Event fields: Name equals the subject suffix; OldValues/removed Value/deleted Data flow from the apply handler's result; NewValues/added Value/created Data/Payload/Idx from the method's own arguments; Resource is the receiver", 15)
	r.Rule("O6", "synchronous: no go statement in an event method before its publish, none in any function from which Conn.Publish is reachable, so one callback's messages reach the connection in program order", 5)

	r.Rule("O7", "listeners reach the resource: every resource value that is given a routed handler (its handler field stored from a Match's Handler) is given, in the same construction, the listeners of that same Match; a resource built without them applies and publishes its events but notifies no listener", 1)

	root := p.FuncsOfPkg("")
	c08ListenersWired(r, "O7", root)
	r.Rule("V1", "each listener registered is the one called (shared with C15.C1 / C16.V1): no closure created in a loop and handed on captures a variable the loop re-assigns (the module's go version gives loops one variable for all iterations) - wrappers built around the entries of Handler.Listeners would all call the listener of the last entry", 1)
	loopCaptureRule(r, "V1", "every wrapper registered from this loop calls the listener of the last iteration: the resource's own listener is never called and another pattern's listener receives its events")
	r.Rule("O9", "listeners are the ones registered now (shared with C06.R6): the handler lookup every event-sending resource comes from writes no shared state - in particular it does not memoise matches (Match.Listeners is a snapshot of the node's listener slice; a cached match never sees a listener added later)", 1)
	c06PureLookup(r, "O9")
	r.Rule("O8", "an event that was applied is published: each event funnel (the functions handing their subject parameter to Conn.Publish) publishes, or hands the message to another funnel, on every path to its return - the only exit without a publish is the error edge of the payload's json.Marshal; a funnel that returns early on a state or configuration test makes apply and listeners run around a publish that never happens", 1)
	c08FunnelAlwaysPublishes(r, "O8")
	mp := mayPublish(p)
	// helpers that (transitively) call listeners / apply handlers
	mayNotify := mayExec(root, func(in ssa.Instruction) bool {
		c, ok := in.(ssa.CallInstruction)
		return ok && isListenerCall(c)
	})
	var mayApply map[*ssa.Function]bool
	isApplyCall := func(in ssa.Instruction) bool {
		c, ok := in.(ssa.CallInstruction)
		if !ok || !core.IsDynamic(c) {
			return false
		}
		f, ok := core.LoadedField(c.Common().Value)
		return ok && f.Struct == "Handler" && strings.HasPrefix(f.Name, "Apply")
	}
	mayApply = mayExec(root, isApplyCall)
	hT := p.NamedType("", "Handler")
	if hT == nil {
		r.Unres("O1", "Handler", "type not found")
		return
	}
	hst := hT.Underlying().(*types.Struct)
	applyFields := map[string]bool{}
	for i := 0; i < hst.NumFields(); i++ {
		if strings.HasPrefix(hst.Field(i).Name(), "Apply") {
			applyFields[strings.TrimPrefix(hst.Field(i).Name(), "Apply")] = true
		}
	}
	var methods []*evMethod
	for _, fn := range methodsOf(p, "", "resource") {
		if !strings.HasSuffix(fn.Name(), "Event") || fn.Object() == nil || !fn.Object().Exported() {
			continue
		}
		stem := strings.TrimSuffix(fn.Name(), "Event")
		m := &evMethod{fn: fn, stem: stem}
		if applyFields[stem] {
			m.hasAppl = true
			m.applyF = core.Field{Struct: "Handler", Name: "Apply" + stem}
		}
		// the method and the private helpers that hold its apply call (analysed in place)
		scope := []*ssa.Function{fn}
		for _, h := range p.Helpers(fn) {
			if h != fn && mayApply[h] && !mp[h] {
				scope = append(scope, h)
			}
		}
		m.scope = scope
		for _, f2 := range scope {
			for _, c := range core.Calls(f2) {
				if core.IsDynamic(c) {
					if isApplyCall(c) {
						m.A = append(m.A, c)
					}
					if isListenerCall(c) {
						m.L = append(m.L, c)
					}
				}
				if cal := c.Common().StaticCallee(); cal != nil && !core.IsGo(c) {
					switch {
					case mp[cal]:
						m.P = append(m.P, c)
					case mayNotify[cal] && cal.Pkg == fn.Pkg:
						// a helper that runs the listeners (e.g. notifyListeners(ev))
						m.L = append(m.L, c)
					}
				}
			}
		}
		methods = append(methods, m)
	}
	sort.Slice(methods, func(i, j int) bool { return methods[i].fn.Name() < methods[j].fn.Name() })
	r.Analysed["event_methods"] = len(methods)
	seenStem := map[string]bool{}
	for _, m := range methods {
		seenStem[m.stem] = true
	}
	for stem := range applyFields {
		if !seenStem[stem] {
			r.Bad("O1", "Handler.Apply"+stem, "paired-event-method", "-", "Handler.Apply"+stem+" has no "+stem+"Event method on the resource")
		}
	}

	lstF, okLst := fieldByType(p, "", "resource", func(t types.Type) bool {
		sl, ok := t.Underlying().(*types.Slice)
		if !ok {
			return false
		}
		sig, ok := sl.Elem().Underlying().(*types.Signature)
		return ok && sig.Params().Len() == 1 && core.TypeName(sig.Params().At(0).Type()) == "Event"
	})
	for _, m := range methods {
		fn := m.fn
		fname := core.FuncName(fn)
		if len(m.P) == 0 {
			r.Bad("O1", fname, "publishes", p.Pos(fn.Pos()), "event method contains no call that reaches Conn.Publish")
			continue
		}
		// ---- O1 ----
		if m.hasAppl {
			okA := len(m.A) == 1
			if okA {
				f, _ := core.LoadedField(m.A[0].Common().Value)
				okA = f == m.applyF
			}
			r.Check(okA, "O1", fname, "calls-paired-apply("+m.applyF.Name+")", p.Pos(fn.Pos()), "exactly one call of the paired apply handler", fmt.Sprintf("%d apply-handler calls, or the wrong Apply field is called", len(m.A)))
		} else if len(m.A) > 0 {
			r.Bad("O1", fname, "no-foreign-apply", p.InstrPos(m.A[0]), "an apply handler is called by an event method that has no paired Apply field")
		}
		const (
			bApplied = 1
			bNoH     = 2
			bPub     = 4
			bPub2    = 8
			bLst     = 16 // the resource's listener list was read (the notification step was reached)
		)
		isA := map[ssa.Instruction]bool{}
		for _, c := range m.A {
			isA[c] = true
		}
		isP := map[ssa.Instruction]bool{}
		for _, c := range m.P {
			isP[c] = true
		}
		inScope := map[*ssa.Function]bool{}
		for _, f2 := range m.scope {
			inScope[f2] = true
		}
		fl := &core.Flow{Fn: fn, Entry: core.StateSet(0).Add(0), Tags: true, Inline: func(cal *ssa.Function) bool { return inScope[cal] && cal != fn }}
		fl.Transfer = func(in ssa.Instruction, s int) core.StateSet {
			if isA[in] {
				return core.StateSet(0).Add(s | bApplied)
			}
			if isP[in] {
				if s&bPub != 0 {
					return core.StateSet(0).Add(s | bPub2)
				}
				return core.StateSet(0).Add(s | bPub)
			}
			if c, ok := in.(ssa.CallInstruction); ok && !core.IsGo(c) {
				if cal := c.Common().StaticCallee(); cal != nil && mayNotify[cal] && cal.Pkg == fn.Pkg {
					return core.StateSet(0).Add(s | bLst) // the notification helper reads the list itself
				}
			}
			if u, ok := in.(*ssa.UnOp); ok && u.Op == token.MUL && okLst {
				if f, ok := core.FieldOf(u.X); ok && f == lstF {
					return core.StateSet(0).Add(s | bLst)
				}
			}
			return core.StateSet(0).Add(s)
		}
		fl.BranchOn = func(cond ssa.Value, succ int, s int) (int, bool) {
			ci := core.Cond(cond)
			if m.hasAppl && ci.Kind == "nilcmp" && ci.HasFld && ci.Field == m.applyF {
				truth := succ == 0
				if ci.Negate {
					truth = !truth
				}
				isNil := (ci.Op == token.EQL && truth) || (ci.Op == token.NEQ && !truth)
				if isNil {
					return s | bNoH, true
				}
			}
			return s, true
		}
		fl.Branch = func(iff *ssa.If, succ int, s int) (int, bool) { return fl.BranchOn(iff.Cond, succ, s) }
		res := fl.Run()
		for _, c := range m.P {
			st := res.Before[c]
			good := !st.Empty()
			twice := false
			for _, s := range st.List() {
				if m.hasAppl && s&(bApplied|bNoH) == 0 {
					good = false
				}
				if s&bPub != 0 {
					twice = true
				}
			}
			r.Check(good, "O1", fname, "publish-after-apply-or-no-handler:"+core.FuncName(c.Common().StaticCallee()), p.InstrPos(c),
				"every path to the publish ran the apply handler or took the no-handler edge", "a path reaches the publish before the apply handler ran (publish-before-apply: a failing apply could no longer suppress the event)")
			r.Check(!twice, "O1", fname, "at-most-one-publish:"+core.FuncName(c.Common().StaticCallee()), p.InstrPos(c), "no earlier publish on any path", "two publishes on one path")
			for _, a := range m.A {
				r.Check(!p.ReachesIn(fn, c, a), "O1", fname, "no-path-publish->apply", p.InstrPos(c), "apply is never reached after the publish", "the apply handler can run after the publish")
			}
		}
		// ---- O2 ----
		for _, c := range m.L {
			st := res.Before[c]
			good := !st.Empty()
			for _, s := range st.List() {
				if s&bPub == 0 {
					good = false
				}
			}
			r.Check(good && !core.IsGo(c), "O2", fname, "listener-after-publish", p.InstrPos(c), "listeners are only called after the event was published, synchronously", "a listener can be called before the publish (or on its own goroutine)")
		}
		// every publish is followed by the notification step: in a method that notifies listeners at
		// all, no path returns after a publish without having read the listener list
		if len(m.L) > 0 && okLst {
			for _, ret := range core.Returns(fn) {
				if fn.Recover != nil && ret.Block() == fn.Recover {
					continue
				}
				skipped := false
				for _, s := range res.Before[ret].List() {
					if s&bPub != 0 && s&bLst == 0 {
						skipped = true
					}
				}
				var conds []string
				for _, ed := range dominatingEdges(ret) {
					conds = append(conds, describeCond(ed))
				}
				r.Check(!skipped, "O2", fname, "published-event-reaches-listeners:"+returnDesc(ret, conds), p.InstrPos(ret), "every path that published went on to the listener notification", "a path publishes the event and returns without reaching the listener notification: the event is on the wire but no listener of the resource is told (for instance a payload-less custom event sent through a shortcut)")
			}
		}
		// ---- O3 ----
		isL := map[ssa.Instruction]bool{}
		for _, c := range m.L {
			isL[c] = true
		}
		isPL := func(in ssa.Instruction) bool {
			if c, ok := in.(ssa.CallInstruction); ok {
				return isP[in] || isL[in] || isListenerCall(c)
			}
			return false
		}
		for _, a := range m.A {
			av := a.Value()
			sig := a.Common().Value.Type().Underlying().(*types.Signature)
			nres := sig.Results().Len()
			// find the error value
			var errVal ssa.Value
			if nres == 1 {
				errVal = av
			} else if av.Referrers() != nil {
				for _, rf := range *av.Referrers() {
					if ex, ok := rf.(*ssa.Extract); ok && ex.Index == nres-1 {
						errVal = ex
					}
				}
			}
			tested := false
			if errVal != nil && errVal.Referrers() != nil {
				for _, rf := range *errVal.Referrers() {
					bo, ok := rf.(*ssa.BinOp)
					if !ok || bo.Referrers() == nil {
						continue
					}
					for _, rr := range *bo.Referrers() {
						iff, ok := rr.(*ssa.If)
						if !ok {
							continue
						}
						ci := core.Cond(iff.Cond)
						if ci.Kind != "nilcmp" {
							continue
						}
						tested = true
						errSucc := 0
						if (ci.Op == token.EQL) != ci.Negate {
							errSucc = 1
						}
						blk := iff.Block().Succs[errSucc]
						onlyPanic, why := edgeReachesOnlyPanic(blk, isPL)
						r.Check(onlyPanic, "O3", fname, "apply-error-edge->panic-only", p.InstrPos(iff),
							"every path from the apply-error edge ends in panic with no publish, listener or return", "a failed apply does not always panic before publishing: "+why)
					}
				}
			}
			// the test may sit in a helper that is handed the error and panics unless it is nil
			if !tested && errVal != nil && errVal.Referrers() != nil {
				for _, rf := range *errVal.Referrers() {
					hc, ok := rf.(*ssa.Call)
					if !ok {
						continue
					}
					cal := hc.Common().StaticCallee()
					if cal == nil || len(cal.Blocks) == 0 || cal.Pkg != fn.Pkg {
						continue
					}
					pi := -1
					for i, arg := range hc.Common().Args {
						if arg == errVal {
							pi = i
						}
					}
					if pi < 0 || pi >= len(cal.Params) {
						continue
					}
					for _, hb := range cal.Blocks {
						iff, ok := hb.Instrs[len(hb.Instrs)-1].(*ssa.If)
						if !ok {
							continue
						}
						ci := core.Cond(iff.Cond)
						if ci.Kind != "nilcmp" || ci.X != ssa.Value(cal.Params[pi]) {
							continue
						}
						tested = true
						errSucc := 0
						if (ci.Op == token.EQL) != ci.Negate {
							errSucc = 1
						}
						onlyPanic, why := edgeReachesOnlyPanic(hb.Succs[errSucc], func(ssa.Instruction) bool { return false })
						r.Check(onlyPanic, "O3", fname, "apply-error-edge->panic-only", p.InstrPos(hc),
							"the error is handed to a helper whose non-nil edge ends in panic", "a failed apply does not always panic before publishing: "+why)
					}
				}
			}
			if !tested {
				r.Bad("O3", fname, "apply-error-tested", p.InstrPos(a), "the apply handler's error result is never tested: a failed apply is published")
			}
		}
		if m.stem == "Change" {
			// empty argument and empty revert map: a typestate "on a nothing-changed path", set on the
			// len==0 edge of the argument / of the apply handler's revert map, must never reach a
			// publish or a listener (helpers holding the apply call are analysed in place)
			var param ssa.Value
			for _, prm := range fn.Params[1:] {
				if _, ok := prm.Type().Underlying().(*types.Map); ok {
					param = prm
				}
			}
			// a condition value that tests the emptiness of the argument / of the revert map: kind and
			// the outcome (0 = condition true, 1 = false) that means "empty"
			kindOf := func(cond ssa.Value) (string, int) {
				ci := core.Cond(cond)
				if ci.Kind != "lencmp" || ci.Const == nil {
					return "", 0
				}
				// which outcome means "empty": len == 0, len < 1, len <= 0 (true) / len != 0, len >= 1, len > 0 (false)
				emptyWhenTrue := false
				switch k := ci.Const.ExactString(); {
				case k == "0" && ci.Op == token.EQL, k == "1" && ci.Op == token.LSS, k == "0" && ci.Op == token.LEQ:
					emptyWhenTrue = true
				case k == "0" && ci.Op == token.NEQ, k == "1" && ci.Op == token.GEQ, k == "0" && ci.Op == token.GTR:
					emptyWhenTrue = false
				default:
					return "", 0
				}
				succ := 0
				if ci.Negate != !emptyWhenTrue {
					succ = 1
				}
				if ci.X == param {
					return "empty-argument", succ
				}
				// the revert map: the apply handler's first result, also when a helper of the method
				// made the call and handed it back
				if len(m.A) == 1 {
					for _, lf := range valueLeaves(ci.X, nil, 0) {
						if ex, ok := core.Strip(lf.V).(*ssa.Extract); ok && ex.Index == 0 && ex.Tuple == m.A[0].Value() {
							return "empty-revert-map", succ
						}
					}
				}
				return "", 0
			}
			nEmptyArg, nEmptyRev := 0, 0
			for _, f2 := range m.scope {
				for _, b := range f2.Blocks {
					for _, cin := range b.Instrs {
						bo, ok := cin.(*ssa.BinOp)
						if !ok {
							continue
						}
						if bt, ok := bo.Type().Underlying().(*types.Basic); !ok || bt.Kind() != types.Bool {
							continue
						}
						what, succ := kindOf(bo)
						if what == "" {
							continue
						}
						if what == "empty-argument" {
							nEmptyArg++
						} else {
							nEmptyRev++
						}
						// flow: state 1 = the condition was decided as "empty" on this path (by an If on it, or by
						// an If on a flag that holds its value)
						fl2 := &core.Flow{Fn: fn, Entry: core.StateSet(0).Add(0), Tags: true, Inline: func(cal *ssa.Function) bool { return inScope[cal] && cal != fn }}
						theCond, theSucc := ssa.Value(bo), succ
						fl2.BranchOn = func(c2 ssa.Value, sc int, st int) (int, bool) {
							for {
								u, ok := c2.(*ssa.UnOp)
								if !ok || u.Op != token.NOT {
									break
								}
								c2, sc = u.X, 1-sc
							}
							if c2 == theCond && sc == theSucc {
								return 1, true
							}
							return st, true
						}
						fl2.Branch = func(i2 *ssa.If, sc int, st int) (int, bool) { return fl2.BranchOn(i2.Cond, sc, st) }
						res2 := fl2.Run()
						noPL, why := true, ""
						for _, f3 := range m.scope {
							for _, bb := range f3.Blocks {
								for _, in := range bb.Instrs {
									if isPL(in) && res2.Before[in].Has(1) {
										noPL, why = false, "reaches the publish/listener call at "+p.InstrPos(in)
									}
								}
							}
						}
						r.Check(noPL, "O3", fname, what+"-edge->no-publish", p.InstrPos(bo), "the nothing-changed edge reaches no publish and no listener", "the nothing-changed edge still publishes or notifies: "+why)
					}
				}
			}
			r.Check(nEmptyArg > 0, "O3", fname, "tests-empty-argument", p.Pos(fn.Pos()), "an empty change map is detected", "an empty change map is not detected: an empty change event is published")
			r.Check(nEmptyRev > 0, "O3", fname, "tests-empty-revert-map", p.Pos(fn.Pos()), "an apply handler reporting 'nothing changed' (empty revert map) is detected", "an apply handler reporting that nothing changed is ignored: an event is published for a change that changes nothing")
			// ... and those are the only ways to leave without an event: every return of the method that
			// no publish can precede lies behind the empty-argument or the empty-revert-map edge. A further
			// "nothing really changed" shortcut (revert map equal to the change, values compared) drops
			// events the apply handler did not declare void - and comparing interface values can panic
			// between the apply and the publish
			{
				afterP := map[*ssa.BasicBlock]bool{}
				var mark func(b *ssa.BasicBlock)
				mark = func(b *ssa.BasicBlock) {
					if afterP[b] {
						return
					}
					afterP[b] = true
					for _, sc := range b.Succs {
						mark(sc)
					}
				}
				hasP := map[*ssa.BasicBlock]bool{}
				for _, bb := range fn.Blocks {
					for _, in := range bb.Instrs {
						pl := isPL(in)
						if c, ok := in.(ssa.CallInstruction); ok && !pl {
							if cal := c.Common().StaticCallee(); cal != nil && inScope[cal] && cal != fn {
								for _, b2 := range cal.Blocks {
									for _, i2 := range b2.Instrs {
										if isPL(i2) {
											pl = true
										}
									}
								}
							}
						}
						if pl {
							hasP[bb] = true
							for _, sc := range bb.Succs {
								mark(sc)
							}
						}
					}
				}
				bad := ""
				for _, ret := range core.Returns(fn) {
					if afterP[ret.Block()] || hasP[ret.Block()] {
						continue
					}
					documented := false
					// docd: the bool value having this truth value means "empty change map" or "empty revert
					// map" - directly, or as a flag every compatible input of which does (publish :=
					// len(changed) > 0; ...; publish = old == nil || len(old) > 0; if !publish { return })
					var docd func(v ssa.Value, truth bool, d int) bool
					docd = func(v ssa.Value, truth bool, d int) bool {
						if d > 4 {
							return false
						}
						if what, succ := kindOf(v); what != "" {
							return (succ == 0) == truth
						}
						switch x := v.(type) {
						case *ssa.UnOp:
							if x.Op == token.NOT {
								return docd(x.X, !truth, d+1)
							}
						case *ssa.Phi:
							n := 0
							for _, src := range phiSources(x) {
								if isConstBool(src.V, !truth) {
									continue
								}
								n++
								if isConstBool(src.V, truth) {
									okEdge := false
									for _, e2 := range srcEdges(x, src) {
										c2, s2 := e2.Norm()
										if docd(c2, s2 == 0, d+1) {
											okEdge = true
										}
									}
									if !okEdge {
										return false
									}
									continue
								}
								if !docd(src.V, truth, d+1) {
									return false
								}
							}
							return n > 0
						}
						return false
					}
					for _, ed := range dominatingEdges(ret) {
						for _, ft := range edgeFacts(ed) {
							what, succ := kindOf(ft.V)
							if what != "" && (succ == 0) == ft.True {
								documented = true
							}
						}
						if cnd, succ := ed.Norm(); docd(cnd, succ == 0, 0) {
							documented = true
						}
					}
					if !documented {
						bad = p.InstrPos(ret)
					}
				}
				r.Check(bad == "", "O3", fname, "silent-return-only-for-an-empty-change-or-revert-map", p.Pos(fn.Pos()), "every return that no publish precedes lies behind the empty-argument or the empty-revert-map edge", "the method can return without publishing (return at "+bad+") on an edge that is neither the empty change map nor the empty revert map: an applied change is not announced (and a comparison of the handler's values on the way there can panic after the apply)")
			}
		}
		// an apply handler that panics has failed: the panic leaves the event method (and is turned
		// into an error reply by the request's own recover); a recover inside the event method or its
		// helpers can turn a failed apply into "no error" and the event is published
		{
			rec := ""
			seenF := map[*ssa.Function]bool{}
			for _, h := range p.Helpers(fn) {
				for _, f2 := range withAnon(h) {
					if seenF[f2] {
						continue
					}
					seenF[f2] = true
					for _, c := range core.Calls(f2) {
						if core.CalleeName(c) == "builtin:recover" {
							rec = p.InstrPos(c)
						}
					}
				}
			}
			r.Check(rec == "", "O3", fname, "apply-panic-is-not-recovered-here", p.Pos(fn.Pos()), "no recover in the event method or its helpers", "the event method (or a helper / deferred closure of it) calls recover() at "+rec+": a panicking apply handler - a failed apply - can be swallowed, after which the event is published and the listeners run")
		}
		// the listeners are called by the event method itself, on the calling goroutine: a listener
		// call inside a closure of the method (handed to a queue, a go statement, a deferred function)
		// runs at another time - after the method returned, after the callback's later messages
		for _, f2 := range m.scope {
			for _, a := range f2.AnonFuncs {
				for _, f3 := range withAnon(a) {
					for _, c := range core.Calls(f3) {
						if core.IsDynamic(c) && isListenerCall(c) {
							r.Bad("O2", fname, "listeners-called-synchronously", p.InstrPos(c), "the listeners are called from a closure of the event method, not by the method itself: they run when that closure is run (queued on a worker, in a goroutine), i.e. not before the method returns and not in program order with the callback's other messages - or never, when the service is stopping")
						}
					}
				}
			}
		}
		// what the apply handler returned is handed to the listeners as it is: the event method does
		// not write into the returned map / slice (filling in "missing" old values invents properties
		// the handler never reported, and changes the handler's own value behind its back)
		if len(m.A) == 1 && m.A[0].Value() != nil {
			fromApply := func(v ssa.Value) bool {
				for _, src := range phiSources(v) {
					if ex, ok := core.Strip(src.V).(*ssa.Extract); ok && ex.Tuple == m.A[0].Value() {
						return true
					}
					if src.V == m.A[0].Value() {
						return true
					}
				}
				return false
			}
			modified := ""
			for _, f2 := range m.scope {
				for _, f3 := range withAnon(f2) {
					for _, in := range instrsOf(f3) {
						switch x := in.(type) {
						case *ssa.MapUpdate:
							if fromApply(x.Map) {
								modified = p.InstrPos(x)
							}
						case *ssa.Store:
							if ia, ok := x.Addr.(*ssa.IndexAddr); ok && fromApply(ia.X) {
								modified = p.InstrPos(x)
							}
						case *ssa.Call:
							if core.CalleeName(x) == "builtin:delete" && len(x.Call.Args) > 0 && fromApply(x.Call.Args[0]) {
								modified = p.InstrPos(x)
							}
						}
					}
				}
			}
			r.Check(modified == "", "O5", fname, "apply-result-handed-on-unmodified", p.Pos(fn.Pos()), "the value the apply handler returned is not written to", "the event method writes into the value its apply handler returned (at "+modified+"): the listeners are told old values the handler did not report - a property that existed and was not touched is presented as new -, and the handler's own map is changed under it")
		}
		// ---- O4 ----
		c08Validity(r, "O4", m)
		// ---- O5 ----
		c08EventFields(r, m)
		// ---- O6 (per method) ----
		for _, c := range core.Calls(fn) {
			if !core.IsGo(c) {
				continue
			}
			after := true
			for _, pc := range m.P {
				if !core.Dominates(pc, c) {
					after = false
				}
			}
			cal := c.Common().StaticCallee()
			if after && cal != nil && !mp[cal] {
				r.ExemptObl("O6", fname, "go:"+core.FuncName(cal), p.InstrPos(c), "goroutine started after the publish and it cannot reach Conn.Publish except through the per-group queue")
			} else {
				r.Bad("O6", fname, "go:"+core.CalleeName(c), p.InstrPos(c), "go statement before the publish of an event method, or starting a function that publishes: messages of one callback could be reordered")
			}
		}
		r.OKTrivial("O6", fname, "publish-is-plain-call", p.InstrPos(m.P[0]), "publish reached by plain calls")
	}
	// ---- O6 (global): no go in any may-publish function; Publish itself is a plain invoke
	var fns []*ssa.Function
	for fn := range mp {
		fns = append(fns, fn)
	}
	sort.Slice(fns, func(i, j int) bool { return core.FuncName(fns[i]) < core.FuncName(fns[j]) })
	for _, fn := range fns {
		for _, c := range core.Calls(fn) {
			if !core.IsGo(c) {
				continue
			}
			cal := c.Common().StaticCallee()
			if cal != nil && mp[cal] {
				// the only sanctioned one: serve starting Shutdown on subscribe failure (publishes nothing of a callback)
				if fn.Name() == "serve" && cal.Name() == "Shutdown" {
					continue
				}
				r.Bad("O6", core.FuncName(fn), "go-reaching-publish:"+core.FuncName(cal), p.InstrPos(c), "a function that can reach Conn.Publish is started with go on a publishing path")
			}
		}
	}
	for _, c := range invokes(root, "Conn", "Publish") {
		r.Check(!core.IsGo(c) && !core.IsDefer(c), "O6", core.FuncName(c.Parent()), "Conn.Publish-is-synchronous", p.InstrPos(c), "plain invoke", "Conn.Publish is deferred or started with go")
	}
}

// edgeReachesOnlyPanic: every path from blk ends in a Panic instruction and
// passes no instruction satisfying bad.
func edgeReachesOnlyPanic(blk *ssa.BasicBlock, bad func(ssa.Instruction) bool) (bool, string) {
	seen := map[*ssa.BasicBlock]bool{}
	st := []*ssa.BasicBlock{blk}
	sawPanic := false
	for len(st) > 0 {
		b := st[len(st)-1]
		st = st[:len(st)-1]
		if seen[b] {
			continue
		}
		seen[b] = true
		for _, in := range b.Instrs {
			if bad(in) {
				return false, "reaches a publish/listener call"
			}
			switch in.(type) {
			case *ssa.Return:
				return false, "reaches a return (the event method completes normally)"
			case *ssa.Panic:
				sawPanic = true
			}
		}
		st = append(st, b.Succs...)
	}
	if !sawPanic {
		return false, "no panic on the edge"
	}
	return true, ""
}

// edgeAvoids: no path from blk passes an instruction satisfying bad.
func edgeAvoids(blk *ssa.BasicBlock, bad func(ssa.Instruction) bool) (bool, string) {
	seen := map[*ssa.BasicBlock]bool{}
	st := []*ssa.BasicBlock{blk}
	for len(st) > 0 {
		b := st[len(st)-1]
		st = st[:len(st)-1]
		if seen[b] {
			continue
		}
		seen[b] = true
		for _, in := range b.Instrs {
			if bad(in) {
				return false, "reaches a publish/listener call"
			}
		}
		st = append(st, b.Succs...)
	}
	return true, ""
}

// panicEdges returns the descriptions of If edges whose target block (alone)
// ends in a panic, together with the If.
func panicGuards(fn *ssa.Function) map[string]*ssa.If {
	out := map[string]*ssa.If{}
	for _, b := range fn.Blocks {
		if len(b.Instrs) == 0 {
			continue
		}
		iff, ok := b.Instrs[len(b.Instrs)-1].(*ssa.If)
		if !ok {
			continue
		}
		for i, s := range b.Succs {
			if len(s.Instrs) > 0 {
				if _, ok := s.Instrs[len(s.Instrs)-1].(*ssa.Panic); ok && len(s.Preds) == 1 {
					out[describeCond(edgeCond{iff, i})] = iff
				}
			}
		}
	}
	return out
}

func c08Validity(r *core.Run, rule string, m *evMethod) {
	p := r.P
	fn := m.fn
	fname := core.FuncName(fn)
	guards := guardMap(fn)
	domAll := func(at ssa.Instruction) bool {
		for _, c := range append(append([]ssa.CallInstruction{}, m.A...), m.P...) {
			if !p.DominatesIn(fn, at, c) {
				return false
			}
		}
		return true
	}
	need := func(key, what string) {
		iff, ok := guards[key]
		switch {
		case !ok:
			r.Bad(rule, fname, "panics-on:"+what, p.Pos(fn.Pos()), "no panic guard for "+what+" ("+key+"): an invalid call would apply and publish")
		case !domAll(iff):
			r.Bad(rule, fname, "panics-on:"+what, p.InstrPos(iff), "the "+what+" check does not dominate the apply and the publish")
		default:
			r.OK(rule, fname, "panics-on:"+what, p.InstrPos(iff), "guard "+key+" -> panic dominates apply and publish")
		}
	}
	typeConst := func(name string) string {
		o := r.P.Pkgs[""].Types.Scope().Lookup(name)
		if c, ok := o.(*types.Const); ok {
			return c.Val().ExactString()
		}
		return "?"
	}
	switch m.stem {
	case "Change":
		need("Handler.Type=="+typeConst("TypeCollection"), "wrong-resource-type(collection)")
	case "Add", "Remove":
		need("Handler.Type=="+typeConst("TypeModel"), "wrong-resource-type(model)")
		need("param:idx<0", "negative-index")
	case "":
		// custom Event: reserved names and malformed names
		var evParam string
		for _, prm := range fn.Params[1:] {
			if b, ok := prm.Type().Underlying().(*types.Basic); ok && b.Kind() == types.String {
				evParam = prm.Name()
				break
			}
		}
		tbl, tblAt := reservedNameTable(p, fn)
		for _, n := range reservedEventNames {
			key := fmt.Sprintf("param:%s==%q", evParam, n)
			if _, direct := guards[key]; !direct && tbl[n] && tblAt != nil {
				if domAll(tblAt) {
					r.OK(rule, fname, "panics-on:reserved-name("+n+")", p.InstrPos(tblAt), "the name is a key of the reserved-name table whose hit edge only panics, before apply and publish")
				} else {
					r.Bad(rule, fname, "panics-on:reserved-name("+n+")", p.InstrPos(tblAt), "the reserved-name table lookup does not dominate the apply and the publish")
				}
				continue
			}
			if _, direct := guards[key]; !direct {
				// the check may live in a helper (validateName(event), a message table): evaluate the
				// method under event == n
				var evPrm *ssa.Parameter
				for _, prm := range fn.Params[1:] {
					if prm.Name() == evParam {
						evPrm = prm
					}
				}
				targets := append(append([]ssa.CallInstruction{}, m.A...), m.P...)
				if evPrm != nil && len(targets) > 0 && neverReachesUnder(p, fn, evPrm, n, targets) {
					r.OK(rule, fname, "panics-on:reserved-name("+n+")", p.Pos(fn.Pos()), "with the event name equal to "+n+" every path of the method (through its helpers) panics before apply and publish")
					continue
				}
			}
			need(key, "reserved-name("+n+")")
		}
		if at, ok := panicsUnlessCall(fn, "isValidPart"); ok && domAll(at) {
			r.OK(rule, fname, "panics-on:malformed-name", p.InstrPos(at), "a name rejected by the token validator panics before apply and publish")
			// what "malformed" means: the validator's own rune facts (shared with C07.P2)
			c07Validator(r, rule, "", "isValidPart", true)
		} else {
			r.Bad(rule, fname, "panics-on:malformed-name", p.Pos(fn.Pos()), "the custom event name is not validated by the token validator on a panicking edge that dominates the publish")
		}
	}
}

func c08EventFields(r *core.Run, m *evMethod) {
	p := r.P
	fn := m.fn
	fname := core.FuncName(fn)
	if len(m.L) == 0 {
		return
	}
	// the Event allocation passed to listeners (directly or through a helper)
	var ev *ssa.Alloc
	var byValue ssa.CallInstruction
	for _, c := range m.L {
		for _, arg := range c.Common().Args {
			if a, ok := arg.(*ssa.Alloc); ok && core.TypeName(a.Type()) == "Event" {
				ev = a
			}
			// the literal handed to a notification helper by value
			if u, ok := arg.(*ssa.UnOp); ok && u.Op == token.MUL {
				if a, ok := u.X.(*ssa.Alloc); ok && core.TypeName(a.Type()) == "Event" {
					ev = a
					byValue = c
				}
			}
		}
	}
	// the Event may come from a constructor helper of the package (ev := r.newEvent(name)): the
	// allocation it returns, with the helper's parameters read as this call's arguments, plus the
	// members the method fills in afterwards
	var ctor *ssa.Call
	var ctorRs *core.Resolver
	if ev == nil {
		for _, c := range m.L {
			for _, arg := range c.Common().Args {
				call, ok := arg.(*ssa.Call)
				if !ok || core.TypeName(call.Type()) != "Event" {
					continue
				}
				cal := call.Common().StaticCallee()
				if cal == nil || len(cal.Blocks) == 0 || cal.Pkg != fn.Pkg {
					continue
				}
				var made *ssa.Alloc
				okCtor := true
				for _, ret := range core.Returns(cal) {
					a, isA := ret.Results[0].(*ssa.Alloc)
					if !isA || (made != nil && made != a) {
						okCtor = false
					}
					made = a
				}
				if okCtor && made != nil {
					ev, ctor = made, call
					ctorRs = core.NewResolver()
					ctorRs.Bind(call)
				}
			}
		}
	}
	if ev == nil {
		r.Bad("O5", fname, "event-literal", p.Pos(fn.Pos()), "listeners are not passed a freshly built Event")
		return
	}
	stores := map[string]ssa.Value{}
	collect := func(base ssa.Value, rs *core.Resolver) {
		if base.Referrers() == nil {
			return
		}
		for _, rf := range *base.Referrers() {
			fa, ok := rf.(*ssa.FieldAddr)
			if !ok || fa.Referrers() == nil {
				continue
			}
			f, _ := core.FieldOf(fa)
			for _, rr := range *fa.Referrers() {
				if st, ok := rr.(*ssa.Store); ok && st.Addr == fa {
					v := st.Val
					if rs != nil {
						if w := rs.R(core.Strip(v)); w != core.Strip(v) {
							v = w // a parameter of the constructor: what this call passes for it
						}
					}
					stores[f.Name] = v
				}
			}
		}
	}
	collect(ev, ctorRs)
	if ctor != nil {
		collect(ctor, nil)
	}
	// subject suffix of the publish: everything after the resource name
	suffix := ""
	if len(m.P) > 0 && len(m.P[0].Common().Args) >= 2 {
		parts := subjectParts(m.P[0].Common().Args[1])
		seenName := false
		for _, pt := range parts {
			if !pt.IsC {
				if f, ok := core.LoadedField(pt.V); ok && f.Struct == "resource" && !seenName {
					seenName = true
					continue
				}
			}
			if !seenName {
				continue
			}
			if pt.IsC {
				suffix += pt.Const
			} else if prm, ok := pt.V.(*ssa.Parameter); ok {
				suffix += "param:" + prm.Name()
			} else {
				suffix += "?"
			}
		}
	}
	name := ""
	if v, ok := stores["Name"]; ok {
		if s, ok := core.ConstString(v); ok {
			name = s
		} else if prm, ok := v.(*ssa.Parameter); ok {
			name = "param:" + prm.Name()
		}
	}
	r.Check(name != "" && suffix == "."+name, "O5", fname, "Event.Name==subject-suffix", p.Pos(fn.Pos()), "Event.Name "+name+" equals the published subject's last token", fmt.Sprintf("Event.Name %q does not equal the published subject suffix %q", name, suffix))
	recv := fn.Params[0]
	if _, ok := stores["Resource"]; !ok && byValue != nil {
		// the helper that got the event by value fills in the resource: its own receiver, which
		// is the emitting resource at this call
		if cal := byValue.Common().StaticCallee(); cal != nil && len(cal.Params) > 0 && len(byValue.Common().Args) > 0 && core.Strip(byValue.Common().Args[0]) == ssa.Value(recv) {
			for _, b := range cal.Blocks {
				for _, in := range b.Instrs {
					if st, ok := in.(*ssa.Store); ok {
						if f, ok := core.FieldOf(st.Addr); ok && f.Struct == "Event" && f.Name == "Resource" && core.Strip(st.Val) == ssa.Value(cal.Params[0]) && unconditionalOrGuardedByListeners(st) {
							stores["Resource"] = recv
						}
					}
				}
			}
		}
	}
	if v, ok := stores["Resource"]; ok {
		r.Check(core.Strip(v) == ssa.Value(recv), "O5", fname, "Event.Resource==receiver", p.Pos(fn.Pos()), "listeners get the emitting resource", "Event.Resource is not the emitting resource")
	} else {
		r.Bad("O5", fname, "Event.Resource==receiver", p.Pos(fn.Pos()), "Event.Resource not set")
	}
	fromApply := func(v ssa.Value, idx int) bool {
		if len(m.A) != 1 {
			return false
		}
		// through phis and the results of private helpers: every non-nil source is result idx of the apply call
		any := false
		for _, lf := range valueLeaves(v, nil, 0) {
			if c, ok := lf.V.(*ssa.Const); ok && c.IsNil() {
				continue
			}
			ex, ok := lf.V.(*ssa.Extract)
			if !ok || ex.Tuple != m.A[0].Value() || ex.Index != idx {
				return false
			}
			any = true
		}
		return any
	}
	isParam := func(v ssa.Value) bool {
		_, ok := core.Strip(v).(*ssa.Parameter)
		return ok && core.Strip(v) != ssa.Value(recv)
	}
	type req struct {
		field string
		apply bool
	}
	want := map[string][]req{
		"Change": {{"NewValues", false}, {"OldValues", true}},
		"Add":    {{"Value", false}, {"Idx", false}},
		"Remove": {{"Value", true}, {"Idx", false}},
		"Create": {{"Data", false}},
		"Delete": {{"Data", true}},
		"":       {{"Payload", false}},
	}
	for _, q := range want[m.stem] {
		v, ok := stores[q.field]
		if !ok {
			r.Bad("O5", fname, "Event."+q.field, p.Pos(fn.Pos()), "Event."+q.field+" is not set")
			continue
		}
		if q.apply {
			r.Check(fromApply(v, 0), "O5", fname, "Event."+q.field+"<-apply-result", p.Pos(fn.Pos()), "flows from result 0 of the apply handler (nil when there is none)", "Event."+q.field+" does not flow from the apply handler's result: "+valDesc(v))
		} else {
			r.Check(isParam(v), "O5", fname, "Event."+q.field+"<-argument", p.Pos(fn.Pos()), "flows from the method's own argument", "Event."+q.field+" is not the method's argument: "+valDesc(v))
		}
	}
}

// reservedNameTable recognises the table form of the reserved-name guard: in
// fn or a helper it calls, a comma-ok lookup of the event-name argument in a
// package-level map whose found edge only panics. It returns the table's
// constant keys (read from the package initialiser) and the instruction in fn
// that represents the guard.
func reservedNameTable(p *core.Prog, fn *ssa.Function) (map[string]bool, ssa.Instruction) {
	keys := map[string]bool{}
	for _, f2 := range p.Helpers(fn) {
		for _, b := range f2.Blocks {
			iff, ok := b.Instrs[len(b.Instrs)-1].(*ssa.If)
			if !ok {
				continue
			}
			ex, ok := iff.Cond.(*ssa.Extract)
			if !ok || ex.Index != 1 {
				continue
			}
			lk, ok := ex.Tuple.(*ssa.Lookup)
			if !ok || !lk.CommaOk {
				continue
			}
			gname, isG := loadedGlobal(lk.X)
			if !isG {
				continue
			}
			// the key is the event-name argument
			isArg := false
			for _, kv := range paramArgs(p, lk.Index, 0) {
				if prm, ok := kv.(*ssa.Parameter); ok && prm.Parent() == fn {
					isArg = true
				}
			}
			if !isArg {
				continue
			}
			if okp, _ := edgeReachesOnlyPanic(b.Succs[0], func(ssa.Instruction) bool { return false }); !okp {
				continue
			}
			// keys of the table from the package initialiser
			ini := fn.Pkg.Func("init")
			if ini == nil {
				continue
			}
			for _, ib := range ini.Blocks {
				for _, in := range ib.Instrs {
					st, ok := in.(*ssa.Store)
					if !ok {
						continue
					}
					g, ok := st.Addr.(*ssa.Global)
					if !ok || g.Name() != gname {
						continue
					}
					mm := st.Val
					for _, ib2 := range ini.Blocks {
						for _, in2 := range ib2.Instrs {
							if mu, ok := in2.(*ssa.MapUpdate); ok && mu.Map == mm {
								if k, ok := core.ConstString(mu.Key); ok {
									keys[k] = true
								}
							}
						}
					}
				}
			}
			var at ssa.Instruction = iff
			if f2 != fn {
				if l := p.Lift(iff, fn); len(l) > 0 {
					at = l[0]
				}
			}
			return keys, at
		}
	}
	return keys, nil
}

// c08ListenersWired: the constructions of a resource with a routed handler also
// store that match's listeners.
func c08ListenersWired(r *core.Run, rule string, root []*ssa.Function) {
	p := r.P
	isLst := func(t types.Type) bool {
		sl, ok := t.Underlying().(*types.Slice)
		if !ok {
			return false
		}
		sig, ok := sl.Elem().Underlying().(*types.Signature)
		return ok && sig.Params().Len() == 1 && core.TypeName(sig.Params().At(0).Type()) == "Event"
	}
	rH, ok1 := fieldByType(p, "", "resource", typeIs("Handler"))
	rL, ok2 := fieldByType(p, "", "resource", isLst)
	mH, ok3 := fieldByType(p, "", "Match", typeIs("Handler"))
	mL, ok4 := fieldByType(p, "", "Match", isLst)
	if !ok1 || !ok2 || !ok3 || !ok4 {
		r.Unres(rule, "resource/Match fields", fmt.Sprintf("resource.handler=%v resource.listeners=%v Match.Handler=%v Match.Listeners=%v", ok1, ok2, ok3, ok4))
		return
	}
	// the match a stored value was read from
	fromMatch := func(v ssa.Value, f core.Field) (ssa.Value, bool) {
		id := func(m ssa.Value) ssa.Value {
			m = core.Strip(m)
			if u, ok := m.(*ssa.UnOp); ok && u.Op == token.MUL {
				switch u.X.(type) {
				case *ssa.FreeVar, *ssa.Alloc:
					return u.X // a captured / spilled variable: identified by its cell
				}
			}
			return m
		}
		switch x := core.Strip(v).(type) {
		case *ssa.UnOp:
			if fa, ok := x.X.(*ssa.FieldAddr); ok {
				if g, ok := core.FieldOf(fa); ok && g == f {
					return id(fa.X), true
				}
			}
		case *ssa.Field:
			if g, ok := core.FieldOf(x); ok && g == f {
				return id(x.X), true
			}
		}
		return nil, false
	}
	base := func(addr ssa.Value) ssa.Value {
		if fa, ok := addr.(*ssa.FieldAddr); ok {
			return fa.X
		}
		return nil
	}
	lst := core.FieldAccesses(root, func(f core.Field) bool { return f == rL })
	for _, ac := range core.FieldAccesses(root, func(f core.Field) bool { return f == rH }) {
		st, ok := ac.Instr.(*ssa.Store)
		if !ok || ac.Kind != "store" {
			continue
		}
		m, ok := fromMatch(st.Val, mH)
		if !ok {
			continue // not a routed handler (zero value, copy)
		}
		good, why := false, "the construction stores no listeners"
		for _, lc := range lst {
			ls, ok := lc.Instr.(*ssa.Store)
			if !ok || lc.Fn != ac.Fn || base(lc.Addr) == nil || base(lc.Addr) != base(ac.Addr) {
				continue
			}
			if m2, ok := fromMatch(ls.Val, mL); ok && m2 == m {
				good = true
			} else {
				why = "the listeners stored are not those of the match the handler was taken from: " + valDesc(ls.Val)
			}
		}
		r.Check(good, rule, core.FuncName(ac.Fn), "resource-with-routed-handler-gets-its-listeners", p.InstrPos(st), "handler and listeners are stored from the same Match", "a resource is constructed with a routed handler but without that match's listeners ("+why+"): events emitted on it run the apply handler and are published, but no listener is called")
	}
}

// unconditionalOrGuardedByListeners: the store is executed on every path of
// its function that goes on to call a listener (it dominates every dynamic
// call of the function).
func unconditionalOrGuardedByListeners(st *ssa.Store) bool {
	fn := st.Parent()
	n := 0
	for _, c := range core.Calls(fn) {
		if core.IsDynamic(c) && !c.Common().IsInvoke() {
			n++
			if !core.Dominates(st, c) {
				return false
			}
		}
	}
	return n > 0
}

// c08CustomEventValidity: the validity guards of the custom event method alone
// (C08.O4; shared with C07.P9): reserved and malformed names panic before the
// publish.
func c08CustomEventValidity(r *core.Run, rule string) {
	p := r.P
	mp := mayPublish(p)
	for _, fn := range methodsOf(p, "", "resource") {
		if fn.Name() != "Event" || fn.Object() == nil || !fn.Object().Exported() {
			continue
		}
		m := &evMethod{fn: fn, stem: "", scope: []*ssa.Function{fn}}
		for _, c := range core.Calls(fn) {
			if cal := c.Common().StaticCallee(); cal != nil && !core.IsGo(c) && mp[cal] {
				m.P = append(m.P, c)
			}
		}
		if len(m.P) == 0 {
			r.Bad(rule, core.FuncName(fn), "publishes", p.Pos(fn.Pos()), "the custom event method contains no call that reaches Conn.Publish")
			return
		}
		c08Validity(r, rule, m)
		return
	}
	r.Unres(rule, "resource.Event", "method missing")
}

// c08FunnelAlwaysPublishes: an event funnel (a function that hands its own
// subject parameter to Conn.Publish) publishes on every path to its return,
// or passes the message to another funnel; the only way out without a publish
// is the error edge of the payload's json.Marshal. A funnel that returns early
// for another reason drops the publish in the middle of apply - publish -
// listeners: the listeners run for an event nobody was sent, and the reply that
// follows appears on the connection without the events before it.
func c08FunnelAlwaysPublishes(r *core.Run, rule string) {
	p := r.P
	root := p.FuncsOfPkg("")
	replyF := replyFunnels(p)
	funnels := map[*ssa.Function]bool{}
	for _, c := range invokes(root, "Conn", "Publish") {
		fn := c.Parent()
		if replyF[fn] {
			continue
		}
		if _, ok := core.Strip(c.Common().Args[0]).(*ssa.Parameter); ok {
			funnels[fn] = true
		}
	}
	if len(funnels) == 0 {
		r.Unres(rule, "event-funnel", "no function hands its subject parameter to Conn.Publish")
		return
	}
	// ... and the functions that hand their own subject parameter on to a funnel (event -> rawEvent)
	subjIdx := map[*ssa.Function]int{}
	for _, c := range invokes(root, "Conn", "Publish") {
		if prm, ok := core.Strip(c.Common().Args[0]).(*ssa.Parameter); ok && funnels[c.Parent()] {
			for i, q := range c.Parent().Params {
				if q == prm {
					subjIdx[c.Parent()] = i
				}
			}
		}
	}
	for changed := true; changed; {
		changed = false
		for _, fn := range root {
			if funnels[fn] || replyF[fn] || fn.Parent() != nil {
				continue
			}
			for _, c := range core.Calls(fn) {
				cal := c.Common().StaticCallee()
				if cal == nil || !funnels[cal] {
					continue
				}
				si, ok := subjIdx[cal]
				if !ok || si >= len(c.Common().Args) {
					continue
				}
				if prm, ok := core.Strip(c.Common().Args[si]).(*ssa.Parameter); ok && prm.Parent() == fn && isStringType(prm.Type()) {
					for i, q := range fn.Params {
						if q == prm {
							subjIdx[fn] = i
						}
					}
					funnels[fn] = true
					changed = true
				}
			}
		}
	}
	var fs []*ssa.Function
	for fn := range funnels {
		fs = append(fs, fn)
	}
	sort.Slice(fs, func(i, j int) bool { return core.FuncName(fs[i]) < core.FuncName(fs[j]) })
	for _, fn := range fs {
		fl := &core.Flow{Fn: fn, Entry: core.StateSet(0).Add(0), Inline: func(cal *ssa.Function) bool { return p.IsPrivateHelper(cal) && !funnels[cal] }}
		fl.Transfer = func(in ssa.Instruction, st int) core.StateSet {
			if c, ok := in.(ssa.CallInstruction); ok && !core.IsGo(c) && !core.IsDefer(c) {
				if c.Common().IsInvoke() && c.Common().Method.Name() == "Publish" {
					return core.StateSet(0).Add(1)
				}
				if cal := c.Common().StaticCallee(); cal != nil && funnels[cal] {
					return core.StateSet(0).Add(1)
				}
			}
			return core.StateSet(0).Add(st)
		}
		fl.BranchOn = func(cond ssa.Value, succ int, st int) (int, bool) {
			ci := core.Cond(cond)
			if ci.Kind == "nilcmp" && st == 0 {
				if ex, ok := ci.X.(*ssa.Extract); ok {
					if mc, ok := ex.Tuple.(*ssa.Call); ok && core.CalleeName(mc) == "encoding/json.Marshal" {
						truth := succ == 0
						if ci.Negate {
							truth = !truth
						}
						if (ci.Op == token.NEQ) == truth {
							return 2, true // the payload could not be encoded: nothing to publish
						}
					}
				}
			}
			return st, true
		}
		fl.Branch = func(iff *ssa.If, succ int, st int) (int, bool) { return fl.BranchOn(iff.Cond, succ, st) }
		res := fl.Run()
		for _, ret := range core.Returns(fn) {
			if fn.Recover != nil && ret.Block() == fn.Recover {
				continue
			}
			st := res.Before[ret]
			var conds []string
			for _, e := range dominatingEdges(ret) {
				conds = append(conds, describeCond(e))
			}
			r.Check(!st.Has(0), rule, core.FuncName(fn), "return-after-publish:"+returnDesc(ret, conds), p.InstrPos(ret), "every path to this return published (or could not encode the payload)", "the event funnel can return without publishing ("+strings.Join(conds, " && ")+"): the event is dropped between the apply handler and the listeners, which still run, and later messages of the same callback appear without it")
		}
	}
}
