package props

import (
	"encoding/json"
	"fmt"
	"go/token"
	"go/types"
	"sort"
	"strings"

	"golang.org/x/tools/go/ssa"

	"resverif/core"
)

func init() { register("C05", c05) }

// subscribeFacts extracts from the subscribe function: the request types
// iterated for resource patterns, the access prefix, and the types that get a
// method wildcard appended.
type subFacts struct {
	fn        *ssa.Function
	resTypes  []string // e.g. get, call, auth
	accessPfx string   // "access"
	methodFor []string // types for which ".*" is appended
}

// subscribeFn resolves the subscribing function by role: the Service method
// that contains a loop and, itself or through private helpers, subscribes on
// the connection - the innermost such function (its callers qualify too).
func subscribeFn(p *core.Prog) *ssa.Function {
	var cands []*ssa.Function
	for _, fn := range methodsOf(p, "", "Service") {
		if len(rangeLoopHead(fn)) > 0 && hasSubscribeInvoke(p, fn) {
			cands = append(cands, fn)
		}
	}
	var inner []*ssa.Function
	for _, fn := range cands {
		lower := false
		for _, h := range p.Helpers(fn) {
			if h == fn {
				continue
			}
			for _, o := range cands {
				if o == h {
					lower = true
				}
			}
		}
		if !lower {
			inner = append(inner, fn)
		}
	}
	if len(inner) == 1 {
		return inner[0]
	}
	for _, fn := range methodsOf(p, "", "Service") {
		if fn.Name() == "subscribe" {
			return fn
		}
	}
	return nil
}

func extractSubFacts(p *core.Prog) (*subFacts, string) {
	fn := subscribeFn(p)
	if fn == nil {
		return nil, "subscribe not found"
	}
	sf := &subFacts{fn: fn}
	var blocks []*ssa.BasicBlock
	for _, h := range p.Helpers(fn) {
		blocks = append(blocks, h.Blocks...)
	}
	// array literal of string constants that is ranged over, in the function that builds
	// "<type>." + <owned pattern>
	buildsSubject := map[*ssa.Function]bool{}
	for _, b := range blocks {
		for _, in := range b.Instrs {
			if bo, ok := in.(*ssa.BinOp); ok && bo.Op == token.ADD {
				if sv, ok := core.ConstString(bo.Y); ok && sv == "." {
					buildsSubject[b.Parent()] = true
				}
			}
		}
	}
	// (the list of types may be ranged over in the function that calls the subject builder)
	usesBuilder := map[*ssa.Function]bool{}
	for fn2 := range buildsSubject {
		usesBuilder[fn2] = true
	}
	for _, b := range blocks {
		for _, in := range b.Instrs {
			if c, ok := in.(ssa.CallInstruction); ok {
				if cal := c.Common().StaticCallee(); cal != nil && buildsSubject[cal] {
					usesBuilder[b.Parent()] = true
				}
			}
		}
	}
	for _, b := range blocks {
		if !usesBuilder[b.Parent()] {
			continue
		}
		for _, in := range b.Instrs {
			st, ok := in.(*ssa.Store)
			if !ok {
				continue
			}
			ia, ok := st.Addr.(*ssa.IndexAddr)
			if !ok {
				continue
			}
			al, ok := ia.X.(*ssa.Alloc)
			if !ok || !strings.Contains(al.Comment, "slicelit") {
				continue
			}
			if !buildsSubject[b.Parent()] {
				// a list in a caller of the subject builder counts only if its elements are what
				// the builder is handed
				feeds := false
				for _, c := range core.Calls(b.Parent()) {
					if cal := c.Common().StaticCallee(); cal == nil || !buildsSubject[cal] {
						continue
					}
					for _, a := range c.Common().Args {
						if u, ok := core.Strip(a).(*ssa.UnOp); ok {
							if ia2, ok := u.X.(*ssa.IndexAddr); ok {
								base := ia2.X
								if sl, ok := base.(*ssa.Slice); ok {
									base = sl.X
								}
								if base == ssa.Value(al) {
									feeds = true
								}
							}
						}
					}
				}
				if !feeds {
					continue
				}
			}
			if s, ok := core.ConstString(st.Val); ok {
				sf.resTypes = append(sf.resTypes, s)
			}
		}
	}
	// the request types may come from a package-level list that is ranged over
	if len(sf.resTypes) == 0 {
		for _, b := range blocks {
			for _, in := range b.Instrs {
				var g *ssa.Global
				switch x := in.(type) {
				case *ssa.IndexAddr:
					g, _ = x.X.(*ssa.Global)
					if u, ok := x.X.(*ssa.UnOp); ok && g == nil {
						g, _ = u.X.(*ssa.Global)
					}
				case *ssa.Index: // range over an array value
					if u, ok := x.X.(*ssa.UnOp); ok {
						g, _ = u.X.(*ssa.Global)
					}
				}
				if g == nil {
					continue
				}
				for _, sv := range globalStrings(g) {
					dup := false
					for _, t := range sf.resTypes {
						if t == sv {
							dup = true
						}
					}
					if !dup {
						sf.resTypes = append(sf.resTypes, sv)
					}
				}
			}
		}
	}
	sort.Strings(sf.resTypes)
	// "access." prefix and ".*" append
	excluded := map[string]bool{}
	for _, b := range blocks {
		for _, in := range b.Instrs {
			bo, ok := in.(*ssa.BinOp)
			if !ok {
				continue
			}
			if bo.Op == token.ADD {
				if s, ok := core.ConstString(bo.X); ok && strings.HasSuffix(s, ".") && len(s) > 1 {
					sf.accessPfx = strings.TrimSuffix(s, ".")
				}
				if s, ok := core.ConstString(bo.Y); ok && s == ".*" {
					for _, ed := range dominatingEdges(bo) {
						c2, ok := ed.If.Cond.(*ssa.BinOp)
						if !ok {
							continue
						}
						if cs, ok := core.ConstString(c2.Y); ok {
							// edge requires t != cs
							if (c2.Op == token.NEQ && ed.Succ == 0) || (c2.Op == token.EQL && ed.Succ == 1) {
								excluded[cs] = true
							}
						}
					}
				}
			}
		}
	}
	// the access prefix may be a constant handed to the subject-building helper
	if sf.accessPfx == "" {
		for _, b := range blocks {
			for _, in := range b.Instrs {
				c, ok := in.(*ssa.Call)
				if !ok {
					continue
				}
				cal := c.Common().StaticCallee()
				if cal == nil || !buildsSubject[cal] {
					continue
				}
				// the parameter the helper puts in front of the separator
				typeIdx := -1
				for _, hb := range cal.Blocks {
					for _, hin := range hb.Instrs {
						if bo, ok := hin.(*ssa.BinOp); ok && bo.Op == token.ADD {
							if sv, ok := core.ConstString(bo.Y); ok && sv == "." {
								for i, prm := range cal.Params {
									if bo.X == ssa.Value(prm) {
										typeIdx = i
									}
								}
							}
						}
					}
				}
				for i, a := range c.Common().Args {
					if i != typeIdx {
						continue
					}
					if sv, ok := core.ConstString(a); ok && sv != "" {
						known := false
						for _, t := range sf.resTypes {
							if t == sv {
								known = true
							}
						}
						if !known {
							sf.accessPfx = sv
						}
					}
				}
			}
		}
	}
	// the method wildcard may be conditioned on a package-level set of types (map[string]bool)
	included := map[string]bool{}
	viaSet := false
	for _, b := range blocks {
		for _, in := range b.Instrs {
			bo, ok := in.(*ssa.BinOp)
			if !ok || bo.Op != token.ADD {
				continue
			}
			if sfx, ok := core.ConstString(bo.Y); !ok || sfx != ".*" {
				// the suffix may be a named constant: same value
				continue
			}
			for _, ed := range dominatingEdges(bo) {
				cnd, succ := ed.Norm()
				for _, k := range globalSetKeys(cnd) {
					if succ == 0 {
						viaSet = true
						included[k] = true
					}
				}
			}
		}
	}
	for _, t := range sf.resTypes {
		if viaSet {
			if included[t] {
				sf.methodFor = append(sf.methodFor, t)
			}
			continue
		}
		if !excluded[t] {
			sf.methodFor = append(sf.methodFor, t)
		}
	}
	return sf, ""
}

// globalStrings: the constant strings a package-level array / slice of strings
// is initialised with (read from the package initialiser).
func globalStrings(g *ssa.Global) []string {
	var out []string
	ini := g.Pkg.Func("init")
	if ini == nil {
		return nil
	}
	for _, b := range ini.Blocks {
		for _, in := range b.Instrs {
			st, ok := in.(*ssa.Store)
			if !ok {
				continue
			}
			ia, ok := st.Addr.(*ssa.IndexAddr)
			if !ok {
				continue
			}
			base := ia.X
			if al, ok := base.(*ssa.Alloc); ok {
				// slice literal: the backing array is sliced and stored to the global
				if al.Referrers() != nil {
					for _, rf := range *al.Referrers() {
						if sl, ok := rf.(*ssa.Slice); ok && sl.Referrers() != nil {
							for _, r2 := range *sl.Referrers() {
								if s2, ok := r2.(*ssa.Store); ok && s2.Addr == ssa.Value(g) {
									base = g
								}
							}
						}
					}
				}
			}
			if base != ssa.Value(g) {
				continue
			}
			if sv, ok := core.ConstString(st.Val); ok {
				out = append(out, sv)
			}
		}
	}
	return out
}

// globalSetKeys: cond is a lookup `set[x]` in a package-level map[string]bool;
// returns the keys the map literal sets to true.
func globalSetKeys(cond ssa.Value) []string {
	lk, ok := cond.(*ssa.Lookup)
	if !ok {
		if ex, isEx := cond.(*ssa.Extract); isEx {
			lk, ok = ex.Tuple.(*ssa.Lookup)
		}
		if !ok {
			return nil
		}
	}
	u, ok := lk.X.(*ssa.UnOp)
	if !ok {
		return nil
	}
	g, ok := u.X.(*ssa.Global)
	if !ok {
		return nil
	}
	ini := g.Pkg.Func("init")
	if ini == nil {
		return nil
	}
	var mm ssa.Value
	for _, b := range ini.Blocks {
		for _, in := range b.Instrs {
			if st, ok := in.(*ssa.Store); ok && st.Addr == ssa.Value(g) {
				mm = st.Val
			}
		}
	}
	var out []string
	for _, b := range ini.Blocks {
		for _, in := range b.Instrs {
			if mu, ok := in.(*ssa.MapUpdate); ok && mu.Map == mm && isConstBool(mu.Value, true) {
				if k, ok := core.ConstString(mu.Key); ok {
					out = append(out, k)
				}
			}
		}
	}
	return out
}

func c05(r *core.Run) {
	p := r.P
	r.Explanation = "Table and sibling agreement: (M1) the decoded payload struct, the request's fields and the exported accessors form an injective map f -> g -> accessor, and the routed Match feeds name/params/group/handler/listeners; (D1) the dispatcher's request-type constants equal the types subscribe() uses; (D2) call and auth share the lookup shape [method] then [\"*\"] then methodNotFound, with new preferring the New handler; (D3) the types whose subject loses a method token equal the types that get a method wildcard subscription; (E1) recover arms pass *Error verbatim and everything else through the internal-error constructor whose code is the constant; (E2) not-found / method-not-found / missing-reply replies use literals carrying the right code, and every handler return reaches the missing-reply fallback. Decides dispatch and data-copy structure for all inputs; subject splitting arithmetic and JSON decoding fidelity are not decided."
	r.NotDecided = []string{"index arithmetic of the two subject splits for every subject string", "encoding/json decoding fidelity", "which pattern routing selects (C06)"}
	r.Assumptions = []string{"encoding/json decodes member k into the field tagged k"}

	r.Rule("M1", "field table: every field of the decoded payload struct is copied exactly once into one request field, each such field is returned by exactly one exported accessor, the map is injective; resource name/params/group/handler/listeners come from the routed Match and the subject; payload JSON keys agree with the client package's Request", 15)
	r.Rule("M2", "payload decoding: the payload struct is filled by encoding/json.Unmarshal - which validates the whole input, unlike a streaming Decoder that stops after the first value - applied to the message's Data bytes, and its error edge replies with an error before dispatch ('payload not JSON' -> system.internalError)", 2)
	r.Rule("M6", "a request is never parked on a dead work item (shared with C01.H1): the group registry is re-created for every run before the workers start and the service is declared stopped only after they exited; a registry that survives Shutdown keeps the entry of work that never started, and after the restart every request for that resource is appended to it - no handler is invoked and nothing is answered", 2)
	r.Rule("M5", "only the service's own names are routed (shared with C06.R7): the remainder of a name after the mux path is taken only where the byte following the path was compared with the token separator; with a bare prefix test a request for 'testmodel' or 'testing.info' invokes the handlers of 'test.model' / 'test.$kind.info' - with a path parameter that is not a token of the requested name - instead of being answered system.notFound", 1)
	r.Rule("M4", "the handler of the selected pattern (shared with C06.R1): the trie matcher tries literal, placeholder, wildcard in that order and a failed recursive match falls through to the next candidate - its result is branched on, never returned unconditionally; otherwise a name that follows a more specific branch and dead-ends there gets system.notFound although a registered pattern matches it, and no handler is invoked", 4)
	r.Rule("M3", "path parameters as sent (shared with C06.R4): the match record's node, mount index and params are written together at each accept site and rebased with that same mount index, and the Match handed to request processing takes its params from that record; a mount index that survives backtracking shifts every path parameter", 6)
	r.Rule("M4", "routing input is private to a lookup (shared with C06.R6): no function reachable from Mux.GetHandler writes Mux / node / handler state or appends into a slice held there; lookups run concurrently (listener, With, Resource), so a shared scratch buffer would route a request with another name's tokens and hand the handler foreign path parameters", 1)
	r.Rule("D1", "exhaustive dispatch: the request-type constants the dispatcher switches on = the request types subscribe() subscribes to", 1)
	r.Rule("D2", "method lookup: call and auth alike index the method map by the request's method, fall back to \"*\" on the nil edge, reply methodNotFound when still nil and call exactly that value; call.new prefers the New handler when set", 4)
	r.Rule("D3", "method split agreement: the request types for which the message handler strips a trailing method token = the types for which subscribe appends a method wildcard", 1)
	r.Rule("E1", "error mapping: in every recover closure the *Error arm passes the asserted value itself to the error reply, all other arms pass ToError/InternalError results; InternalError builds an Error with the internal-error code constant; ToError returns its argument when it already is an *Error", 5)
	r.Rule("E3", "verbatim error replies: in every error-reply funnel (a function taking an *Error and handing a payload to the reply path) each payload is the json.Marshal output of a value holding that very *Error, or - only on the marshal-failure edge - a static literal; a static literal chosen by the error's code would replace a custom message or data with the generic text", 2)
	r.Rule("E2", "static outcomes: no-resource and get-without-handler reply with the notFound literal, unknown call/auth method with the methodNotFound literal, a handler that returned without replying reaches the fallback that replies with an internalError literal; literals carry the matching Code* constant", 6)

	r.Rule("M11", "the handler's path parameters carry its own placeholder names (shared with C06.R3): a registration on a node that already has placeholders must present the same names on the same tokens or panic - otherwise whoever registered first (a listener pattern spelling the placeholder differently) decides under which name the handler finds its parameter", 2)
	if ro := resolveMuxRolesFor(r, "M11"); ro != nil {
		c06ParamsCompared(r, "M11", ro)
	}
	r.Rule("M10", "method requests reach the service (shared with C09.S2): the method wildcard is appended to the call / auth subject of every owned pattern that does not end in the full wildcard - a pattern ending in '*' still needs it (the '*' stands for the last token of the resource name, not for the method), otherwise call.<rid>.<method> matches no subscription and the handler is never invoked", 2)
	if sub := subscribeFn(p); sub != nil {
		var blocks []*ssa.BasicBlock
		for _, h := range p.Helpers(sub) {
			blocks = append(blocks, h.Blocks...)
		}
		c09MethodWildcard(r, "M10", sub, blocks)
	} else {
		r.Unres("M10", "subscribe", "not resolved")
	}
	r.Rule("M9", "the pattern selected is one that has a handler (shared with C06.R12): every exact-match accept site of the matcher lies behind the non-nil test of the node's handler - a handler-less node on the way to a longer pattern never ends the backtracking, so the less specific pattern that does match still gets the request", 1)
	r.Rule("M8", "the handler gets the payload that arrived (shared with C07.P10 / C18.V11): no function appends onto a truncated prefix of a slice it was handed - a trace helper shortening a large request payload that way overwrites the message's bytes before they are parsed, so a large request is answered with an error (or decoded params differ) instead of reaching its handler with what the client sent", 1)
	c07NoAppendIntoForeignPrefix(r, "M8", []string{"", "resprot"})
	root := p.FuncsOfPkg("")
	if sa := resolveSvc(r, "M6"); sa.ok {
		c01Restart(r, "M6", sa, root)
		r.Rule("M7", "exactly the handler, once (shared with C09.S3 / C04.R8): the loop that subscribes to get/call/auth subjects skips a subject covered by any other subject of the whole list; two overlapping subscriptions deliver one request twice and its handler is invoked twice", 2)
		coveringRule(r, "M7")
	}
	if ro := resolveMuxRolesFor(r, "M3"); ro != nil {
		c06Specificity(r, "M4", ro)
		c06PrefixBoundary(r, "M5")
		c06MatchAssembly(r, "M3", root, ro)
		c06AcceptHasHandler(r, "M9", root, ro)
	}
	c06PureLookup(r, "M4")
	models := c04Models(r, "M1")
	mReq := models["Request"]
	if mReq == nil {
		return
	}
	disp := dispatcherOf(p, mReq)
	if len(disp) != 1 {
		r.Unres("D1", "dispatcher", fmt.Sprintf("%d candidates", len(disp)))
		return
	}
	d := disp[0]
	var proc *ssa.Function
	for _, c := range callsTo(root, d) {
		proc = c.Parent()
	}
	if proc == nil {
		r.Unres("M1", "processRequest", "dispatcher has no caller")
		return
	}

	// the dispatch body: the function of the dispatcher unit (the dispatcher or one of its private
	// helpers) that holds the handler calls
	body := d
	{
		best := -1
		for _, f2 := range p.Helpers(d) {
			n := 0
			for _, c := range core.Calls(f2) {
				if core.IsDynamic(c) && mReq.takesT(c) {
					n++
				}
			}
			if n > best {
				best, body = n, f2
			}
		}
	}

	// ---- M1 --------------------------------------------------------------
	// decoded payload struct: the local passed to json.Unmarshal in proc
	// (any encoding/json entry point counts as the anchor; M2 then demands that it is Unmarshal)
	var payT types.Type
	var decode ssa.CallInstruction
	for _, f2 := range p.Helpers(proc) {
		for _, c := range core.Calls(f2) {
			cal := c.Common().StaticCallee()
			if cal == nil || cal.Pkg == nil || cal.Pkg.Pkg.Path() != "encoding/json" {
				continue
			}
			for _, a := range c.Common().Args {
				v := core.Strip(a)
				pt, isPtr := v.Type().(*types.Pointer)
				if !isPtr {
					continue
				}
				if _, isStruct := pt.Elem().Underlying().(*types.Struct); !isStruct {
					continue
				}
				switch v.(type) {
				case *ssa.Alloc, *ssa.Parameter:
					payT = pt.Elem()
					decode = c
				}
			}
		}
	}
	if payT == nil {
		r.Unres("M1", "payload-struct", "no encoding/json decode into a local struct in "+core.FuncName(proc))
		return
	}
	// ---- M2 --------------------------------------------------------------
	{
		cal := decode.Common().StaticCallee()
		isUnm := cal.String() == "encoding/json.Unmarshal"
		r.Check(isUnm, "M2", core.FuncName(decode.Parent()), "payload-decoded-by-json.Unmarshal", p.InstrPos(decode), "whole-input decode: trailing bytes or a second value make the payload invalid", "the payload is decoded with "+cal.String()+": a payload consisting of a valid JSON value followed by anything else is accepted and dispatched instead of being answered with system.internalError")
		if isUnm {
			src := decode.Common().Args[0]
			if prm, ok := src.(*ssa.Parameter); ok {
				// helper: take the argument at the call site(s)
				for i, q := range prm.Parent().Params {
					if q == prm {
						for _, cs := range p.CallersOf(prm.Parent()) {
							src = cs.Common().Args[i]
						}
					}
				}
			}
			f, ok := core.LoadedField(src)
			r.Check(ok && f.Name == "Data" && strings.HasSuffix(f.Struct, "Msg"), "M2", core.FuncName(decode.Parent()), "decodes-the-message-Data", p.InstrPos(decode), "the bytes decoded are the message's Data", "the payload struct is decoded from "+valDesc(src)+", not from the message's Data")
			// the decode's error edge never reaches the dispatcher (an empty payload skips decoding)
			okEdge := false
			var site ssa.Instruction = decode
			if decode.Parent() != proc {
				if l := p.Lift(decode, proc); len(l) == 1 {
					site = l[0]
				}
			}
			sv, _ := site.(ssa.Value)
			for _, blk := range proc.Blocks {
				iff, ok := blk.Instrs[len(blk.Instrs)-1].(*ssa.If)
				if !ok || sv == nil {
					continue
				}
				ci := core.Cond(iff.Cond)
				viaHelper := false
				if ex, isEx := ci.X.(*ssa.Extract); isEx && ex.Tuple == sv && site != ssa.Instruction(decode) && types.TypeString(ex.Type(), nil) == "error" {
					// a decoding helper returning (payload, error): its error result is the decoder's, or nil
					viaHelper = true
					h := decode.Parent()
					for _, ret := range core.Returns(h) {
						if ex.Index >= len(ret.Results) {
							viaHelper = false
							continue
						}
						for _, src := range phiSources(ret.Results[ex.Index]) {
							if c, isC := src.V.(*ssa.Const); isC && c.IsNil() {
								continue
							}
							if src.V != decode.Value() {
								viaHelper = false
							}
						}
					}
				}
				if ci.Kind != "nilcmp" || !(ci.X == sv || viaHelper || sameCellLoadOfCall(ci.X, site.(ssa.CallInstruction))) {
					continue
				}
				errSucc := 0
				if (ci.Op == token.EQL) != ci.Negate {
					errSucc = 1
				}
				okEdge = true
				for _, dc := range callsTo([]*ssa.Function{proc}, d) {
					seen := map[*ssa.BasicBlock]bool{}
					st := []*ssa.BasicBlock{blk.Succs[errSucc]}
					for len(st) > 0 {
						x := st[len(st)-1]
						st = st[:len(st)-1]
						if seen[x] {
							continue
						}
						seen[x] = true
						if x == dc.Block() {
							okEdge = false
						}
						st = append(st, x.Succs...)
					}
				}
			}
			r.Check(okEdge, "M2", core.FuncName(proc), "dispatch-only-on-decode-success", p.InstrPos(site), "a payload that is not JSON never reaches a handler", "the dispatcher can be reached although decoding the payload failed")
		}
	}
	payName := core.TypeName(payT)
	pst := payT.Underlying().(*types.Struct)
	copies := map[string][]core.Field{} // payload field -> request fields
	// (the request / its resource part may be assembled by private helpers of processing: a value that
	// is a helper's parameter stands for what the single call site passes)
	procUnit := p.Helpers(proc)
	upVal := func(v ssa.Value) ssa.Value {
		for d := 0; d < 3; d++ {
			prm, ok := core.Strip(v).(*ssa.Parameter)
			if !ok || prm.Parent() == proc || !p.IsPrivateHelper(prm.Parent()) {
				return v
			}
			var cs []ssa.CallInstruction
			for _, c := range p.CallersOf(prm.Parent()) {
				for _, u := range procUnit {
					if core.Outermost(c.Parent()) == u {
						cs = append(cs, c) // a helper shared with other entry points: only processing's own call
					}
				}
			}
			if len(cs) != 1 {
				return v
			}
			for i, q := range prm.Parent().Params {
				if q == prm && i < len(cs[0].Common().Args) {
					v = cs[0].Common().Args[i]
				}
			}
		}
		return v
	}
	var procStores []*ssa.Store
	for _, f2 := range procUnit {
		if f2 != proc && p.Within(f2, d) {
			continue // the dispatcher unit is not part of assembling the request
		}
		for _, b := range f2.Blocks {
			for _, in := range b.Instrs {
				if st, ok := in.(*ssa.Store); ok {
					procStores = append(procStores, st)
				}
			}
		}
	}
	{
		for _, st := range procStores {
			src, ok := core.LoadedField(upVal(st.Val))
			if !ok || src.Struct != payName {
				continue
			}
			dst, ok := core.FieldOf(st.Addr)
			if !ok {
				continue
			}
			copies[src.Name] = append(copies[src.Name], dst)
		}
	}
	usedDst := map[core.Field]string{}
	for i := 0; i < pst.NumFields(); i++ {
		fname := pst.Field(i).Name()
		dsts := copies[fname]
		if len(dsts) != 1 {
			r.Bad("M1", core.FuncName(proc), "copy("+payName+"."+fname+")", p.Pos(proc.Pos()), fmt.Sprintf("payload field copied to %d request fields", len(dsts)))
			continue
		}
		dst := dsts[0]
		if prev, dup := usedDst[dst]; dup {
			r.Bad("M1", core.FuncName(proc), "copy("+payName+"."+fname+")", p.Pos(proc.Pos()), "request field "+dst.String()+" is also fed from payload field "+prev)
			continue
		}
		usedDst[dst] = fname
		// accessor
		var acc []string
		for _, tn := range []string{"Request", "resource"} {
			for _, m := range methodsOf(p, "", tn) {
				if m.Object() == nil || !m.Object().Exported() || len(m.Params) != 1 || m.Signature.Results().Len() != 1 {
					continue
				}
				rets := core.Returns(m)
				if len(rets) != 1 {
					continue
				}
				if f, ok := core.LoadedField(rets[0].Results[0]); ok && f == dst {
					acc = append(acc, core.FuncName(m))
				}
			}
		}
		// type identity of source and destination
		sameType := false
		if dT := p.NamedType("", dst.Struct); dT != nil {
			dst2 := dT.Underlying().(*types.Struct)
			for j := 0; j < dst2.NumFields(); j++ {
				if dst2.Field(j).Name() == dst.Name && types.Identical(dst2.Field(j).Type(), pst.Field(i).Type()) {
					sameType = true
				}
			}
		}
		nameOK := len(acc) == 1 && strings.Contains(strings.ToLower(acc[0]), strings.ToLower(fname))
		if len(acc) == 1 && !nameOK {
			acc[0] += " (accessor name does not name the payload member " + fname + ")"
		}
		r.Check(len(acc) == 1 && sameType && nameOK, "M1", core.FuncName(proc), "copy("+payName+"."+fname+")->"+dst.String()+"->accessor", p.Pos(proc.Pos()),
			"copied unconverted and exposed by "+strings.Join(acc, ","), fmt.Sprintf("field is exposed by %d accessors %v (sameType=%v): the handler would see altered or ambiguous data", len(acc), acc, sameType))
	}
	// routed data
	wantSrc := map[string]string{"resource.pathParams": "Match.Params", "resource.group": "Match.Group", "resource.h": "Match.Handler", "resource.listeners": "Match.Listeners"}
	gotSrc := map[string]string{}
	paramSrc := map[string]string{}
	{
		for _, st := range procStores {
			dst, ok := core.FieldOf(st.Addr)
			if !ok {
				continue
			}
			if src, ok := core.LoadedField(st.Val); ok && src.Struct == "Match" {
				gotSrc[dst.String()] = src.String()
			}
			if prm, ok := core.Strip(upVal(st.Val)).(*ssa.Parameter); ok && prm.Parent() == proc {
				paramSrc[dst.String()] = prm.Name()
			}
		}
	}
	for _, k := range core.SortedKeys(wantSrc) {
		r.Check(gotSrc[k] == wantSrc[k], "M1", core.FuncName(proc), "routed("+k+")<-"+wantSrc[k], p.Pos(proc.Pos()), "taken from the routed match", "request's "+k+" is fed from "+gotSrc[k]+", not the routed match")
	}
	for _, k := range []string{"resource.rname", "Request.rtype", "Request.method", "Request.msg"} {
		r.Check(paramSrc[k] != "", "M1", core.FuncName(proc), "subject-part("+k+")<-parameter", p.Pos(proc.Pos()), "taken from the parsed subject / message ("+paramSrc[k]+")", k+" is not fed from the parsed subject")
	}
	// the Match passed to processing is the result of routing the same name (handleRequest)
	for _, c := range callsTo(root, proc) {
		h := messageHandlerOf(p, c)
		var get ssa.CallInstruction
		for _, cc := range helperCalls(p, h) {
			if cal := cc.Common().StaticCallee(); cal != nil && cal.Name() == "GetHandler" {
				get = cc
			}
		}
		r.Check(get != nil, "M1", core.FuncName(h), "routes-before-processing", p.InstrPos(c), "the message handler routes the parsed resource name with GetHandler", "the message handler does not route the resource name")
		if get != nil {
			// ... on every path: no request reaches the processing step without its name having been
			// looked up (a lookup skipped for names that fail some test answers notFound for resources
			// a registered pattern matches)
			var site ssa.Instruction = c
			if c.Parent() != h {
				inl := map[*ssa.Function]bool{}
				for _, hh := range p.Helpers(h) {
					inl[hh] = true
				}
				cl := c.Parent()
				for cl.Parent() != nil && !inl[cl.Parent()] {
					cl = cl.Parent()
				}
				site = nil
				if ss := core.ClosureSites(cl); len(ss) == 1 {
					site = ss[0]
				}
			}
			if site == nil {
				r.Unres("M1", core.FuncName(h)+".<processing-closure>", "cannot find where the processing closure is created")
			} else {
				inl := map[*ssa.Function]bool{}
				for _, hh := range p.Helpers(h) {
					inl[hh] = true
				}
				fl := &core.Flow{Fn: h, Entry: core.StateSet(0).Add(0), Inline: func(cal *ssa.Function) bool { return inl[cal] && cal != h }}
				fl.Transfer = func(in ssa.Instruction, st int) core.StateSet {
					if ci, ok := in.(ssa.CallInstruction); ok {
						if cal := ci.Common().StaticCallee(); cal != nil && cal.Name() == "GetHandler" {
							return core.StateSet(0).Add(1)
						}
					}
					return core.StateSet(0).Add(st)
				}
				res := fl.Run()
				bs := res.Before[site]
				r.Check(!bs.Empty() && bs.Only(1), "M1", core.FuncName(h), "routes-on-every-path-to-processing", p.InstrPos(site), "every path to the processing step has looked the name up", "some path reaches the processing step without the resource name having been looked up: a request whose name fails the test that guards the lookup is answered notFound although a registered pattern matches it")
			}
		}
	}
	// JSON keys vs client package
	if cl := p.NamedType("resprot", "Request"); cl != nil {
		ta, tb := jsonTags(payT), jsonTags(cl)
		diff := ""
		shared := 0
		for fn, ti := range ta {
			if tj, ok := tb[fn]; ok {
				shared++
				if ti.Key != tj.Key {
					diff += fmt.Sprintf(" %s: %q vs %q;", fn, ti.Key, tj.Key)
				}
			}
		}
		r.Check(diff == "" && shared >= 5, "M1", payName, "json-keys-agree-with-resprot.Request", "-", fmt.Sprintf("%d shared fields use the same JSON keys", shared), "service decoder and client encoder disagree:"+diff)
	}

	// ---- D1 / D3 ---------------------------------------------------------
	sf, why := extractSubFacts(p)
	if sf == nil {
		r.Unres("D1", "subscribe", why)
		return
	}
	dispTypes := map[string]bool{}
	rtype := core.Field{Struct: "Request", Name: "rtype"}
	for _, b := range body.Blocks {
		for _, in := range b.Instrs {
			if bo, ok := in.(*ssa.BinOp); ok && bo.Op == token.EQL {
				if f, ok := core.LoadedField(bo.X); ok && f == rtype {
					if s, ok := core.ConstString(bo.Y); ok {
						dispTypes[s] = true
					}
				}
			}
		}
	}
	subTypes := map[string]bool{sf.accessPfx: true}
	for _, t := range sf.resTypes {
		subTypes[t] = true
	}
	a1, a2 := strings.Join(core.SortedKeys(dispTypes), ","), strings.Join(core.SortedKeys(subTypes), ",")
	r.Check(a1 == a2 && len(dispTypes) >= 4, "D1", core.FuncName(body), "dispatch-types==subscribed-types", p.Pos(body.Pos()), "both are {"+a1+"}", "dispatcher handles {"+a1+"} but subscribe() subscribes {"+a2+"}: a subscribed type would fall into the unanswered default arm (or a dispatched type is never delivered)")
	// D3: handleRequest method stripping
	for _, c := range callsTo(root, proc) {
		h := messageHandlerOf(p, c)
		strip := map[string]bool{}
		for _, cc := range helperCalls(p, h) {
			if cal := cc.Common().StaticCallee(); cal != nil && cal.String() == "strings.LastIndexByte" {
				// the types on edges leading here: conditions rtype == const in predecessor chain
				for _, b := range cc.Parent().Blocks {
					iff, ok := b.Instrs[len(b.Instrs)-1].(*ssa.If)
					if !ok {
						continue
					}
					bo, ok := iff.Cond.(*ssa.BinOp)
					if !ok || bo.Op != token.EQL {
						continue
					}
					if s, ok := core.ConstString(bo.Y); ok && b.Succs[0] == cc.Block() {
						strip[s] = true
					}
				}
			}
		}
		// (the condition may be membership in a package-level set of types)
		for _, cc := range helperCalls(p, h) {
			if cal := cc.Common().StaticCallee(); cal != nil && cal.String() == "strings.LastIndexByte" {
				for _, ed := range dominatingEdges(cc) {
					cnd, succ := ed.Norm()
					if succ == 0 {
						for _, k := range globalSetKeys(cnd) {
							strip[k] = true
						}
						// ... or the answer of a classifier helper: the constants whose comparison leads
						// straight to its `return true`
						if call, ok := cnd.(*ssa.Call); ok {
							if cal := call.Common().StaticCallee(); cal != nil && len(cal.Blocks) > 0 && cal.Pkg == cc.Parent().Pkg {
								for _, ret := range core.Returns(cal) {
									if len(ret.Results) != 1 || !isConstBool(ret.Results[0], true) {
										continue
									}
									rb := ret.Block()
									for _, pb := range rb.Preds {
										iff, ok := pb.Instrs[len(pb.Instrs)-1].(*ssa.If)
										if !ok || pb.Succs[0] != rb {
											continue
										}
										if bo, ok := iff.Cond.(*ssa.BinOp); ok && bo.Op == token.EQL {
											if s, ok := core.ConstString(bo.Y); ok {
												strip[s] = true
											}
										}
									}
								}
							}
						}
					}
				}
			}
		}
		s1, s2 := strings.Join(core.SortedKeys(strip), ","), strings.Join(sf.methodFor, ",")
		r.Check(s1 == s2 && s1 != "", "D3", core.FuncName(h), "method-stripped-for==method-wildcard-for", p.Pos(h.Pos()), "both are {"+s1+"}", "the message handler strips a method token for {"+s1+"} but subscribe appends a method wildcard for {"+s2+"}")
	}

	// ---- D2 --------------------------------------------------------------
	method := core.Field{Struct: "Request", Name: "method"}
	// the method field by role: the field the exported Method() accessor returns
	for _, m := range methodsOf(p, "", "Request") {
		if m.Name() == "Method" {
			for _, ret := range core.Returns(m) {
				if f, ok := core.LoadedField(ret.Results[0]); ok {
					method = f
				}
			}
		}
	}
	shapes := map[string]string{}
	for _, c := range core.Calls(body) {
		if !core.IsDynamic(c) {
			continue
		}
		hv := c.Common().Value
		if _, direct := core.LoadedField(hv); direct {
			continue // Access / Get / New: called straight from the Handler field
		}
		var mapField core.Field
		var byMethod, byStar, nilLeaf bool
		var starLookup, methLookup *ssa.Lookup
		for _, lf := range valueLeaves(hv, nil, 0) {
			switch x := lf.V.(type) {
			case *ssa.Const:
				nilLeaf = nilLeaf || x.IsNil()
			case *ssa.Lookup:
				if mf, ok := core.LoadedField(lf.Rs.R(x.X)); ok {
					mapField = mf
				}
				idx := lf.Rs.R(x.Index)
				if f, ok := core.LoadedField(idx); ok && f == method {
					byMethod = true
					methLookup = x
				}
				if s, ok := core.ConstString(idx); ok && s == "*" {
					byStar = true
					starLookup = x
				}
			}
		}
		if mapField.Name == "" {
			continue
		}
		// "*" lookup only on the nil edge of the method lookup (both live in the same function)
		starAfter := false
		if starLookup != nil && methLookup != nil {
			for _, ed := range dominatingEdges(starLookup) {
				ci := core.Cond(ed.If.Cond)
				if ci.Kind == "nilcmp" && ci.X == ssa.Value(methLookup) {
					truth := ed.Succ == 0
					if ci.Negate {
						truth = !truth
					}
					if (ci.Op == token.EQL) == truth {
						starAfter = true
					}
				}
			}
		}
		// the call is on the handler != nil edge; the nil edge replies methodNotFound
		callGuard := false
		for _, ed := range dominatingEdges(c) {
			ci := core.CondWith(ed.If.Cond, &core.Resolver{Env: map[*ssa.Parameter]ssa.Value{}})
			x := ed.If.Cond
			if bo, ok := x.(*ssa.BinOp); ok && (bo.X == hv || bo.Y == hv) {
				isNilCmp := false
				if cst, ok := bo.Y.(*ssa.Const); ok && cst.IsNil() {
					isNilCmp = true
				}
				if cst, ok := bo.X.(*ssa.Const); ok && cst.IsNil() {
					isNilCmp = true
				}
				if !isNilCmp {
					continue
				}
				truth := ed.Succ == 0
				if (bo.Op == token.NEQ) == truth {
					callGuard = true
					nilBlk := ed.If.Block().Succs[1-ed.Succ]
					lit := ""
					for _, in := range nilBlk.Instrs {
						if cc, ok := in.(*ssa.Call); ok && len(cc.Common().Args) == 2 {
							if g, ok := loadedGlobal(cc.Common().Args[1]); ok {
								lit = g
							}
						}
					}
					code := ""
					if lit != "" {
						code = literalErrorCode(p, lit)
					}
					shapes[mapField.Name] = fmt.Sprintf("method=%v star=%v starOnNil=%v nilLeaf=%v nilReplyCode=%s", byMethod, byStar, starAfter, nilLeaf, code)
					r.Check(code == stringConsts(p, "")["CodeMethodNotFound"], "E2", core.FuncName(body), "unknown-method("+mapField.Name+")->CodeMethodNotFound", p.InstrPos(ed.If), "no handler for the method: replies with a literal carrying "+code, "the unknown-method edge replies with code "+code)
				}
			}
			_ = ci
		}
		good := byMethod && byStar && starAfter && callGuard
		r.Check(good, "D2", core.FuncName(body), "lookup("+mapField.String()+"):[method]->[*]->notFound", p.InstrPos(c), "handler = map[method], else map[\"*\"], called only when non-nil", fmt.Sprintf("method lookup shape broken: byMethod=%v byStar=%v starOnlyAfterMiss=%v guardedCall=%v", byMethod, byStar, starAfter, callGuard))
	}
	r.Check(shapes["Call"] != "" && shapes["Call"] == shapes["Auth"], "D2", core.FuncName(body), "call-and-auth-lookups-agree", p.Pos(body.Pos()), "both: "+shapes["Call"], "call and auth lookups differ: Call{"+shapes["Call"]+"} Auth{"+shapes["Auth"]+"}")
	// new special case
	for _, c := range core.Calls(body) {
		if !core.IsDynamic(c) {
			continue
		}
		if f, ok := core.LoadedField(c.Common().Value); ok && f.Struct == "Handler" && f.Name == "New" {
			var conds []string
			for _, ed := range dominatingEdges(c) {
				conds = append(conds, describeCond(ed))
			}
			cs := strings.Join(conds, "&")
			good := strings.Contains(cs, method.String()+`=="new"`) && strings.Contains(cs, "Handler.New!=nil") && strings.Contains(cs, `Request.rtype=="call"`)
			// it precedes the generic lookup: no Lookup on Handler.Call dominates it
			for _, b := range body.Blocks {
				for _, in := range b.Instrs {
					if lk, ok := in.(*ssa.Lookup); ok {
						if mf, ok := core.LoadedField(lk.X); ok && mf.Name == "Call" && core.Dominates(lk, c) {
							good = false
						}
					}
				}
			}
			r.Check(good, "D2", core.FuncName(body), "new-prefers-New-handler", p.InstrPos(c), "call.<rid>.new goes to the New handler when one is set, before the Call map is consulted", "the New handler is not selected exactly for call requests with method new and a non-nil New handler: "+cs)
		}
	}

	// ---- E1 --------------------------------------------------------------
	for _, tn := range requestTypes {
		m := models[tn]
		if m == nil {
			continue
		}
		for _, dd := range dispatcherOf(p, m) {
			cl, _ := deferredRecover(dd)
			if cl == nil {
				continue
			}
			var unit []ssa.CallInstruction // the recover function, its private helpers and their local closures
			for _, h := range p.Helpers(cl) {
				for _, f2 := range withAnon(h) {
					unit = append(unit, core.Calls(f2)...)
				}
			}
			savedRoot := m.root
			m.root = cl
			for _, c := range unit {
				cal := c.Common().StaticCallee()
				isReply := cal != nil && m.may[cal] && m.takesT(c)
				if cal == nil {
					// the reply method handed to a shared mapping helper as a function value
					for _, bc := range m.boundCallees(c.Common().Value) {
						if _, may := m.literalMustMay(bc); may {
							isReply = true
						}
					}
				}
				if !isReply {
					continue
				}
				// the *Error argument of the reply call
				var errArg ssa.Value
				for _, a := range c.Common().Args {
					if core.TypeName(core.Strip(a).Type()) == "Error" {
						errArg = core.Strip(a)
					}
				}
				if errArg == nil {
					continue
				}
				// a func literal that only forwards its own *Error parameter to the reply method and is
				// handed to a helper as the "send this error" callback: what it is called with is judged
				// at the helper's calls of that callback
				if prm, isPrm := errArg.(*ssa.Parameter); isPrm && prm.Parent().Parent() != nil {
					handedOn := false
					for _, h := range p.Helpers(cl) {
						for _, f2 := range withAnon(h) {
							for _, c2 := range core.Calls(f2) {
								for _, a := range c2.Common().Args {
									if mc, ok := a.(*ssa.MakeClosure); ok && mc.Fn == ssa.Value(prm.Parent()) {
										handedOn = true
									}
								}
							}
						}
					}
					if handedOn {
						continue
					}
				}
				judge := func(ea ssa.Value, at ssa.CallInstruction) {
					desc, good := "", false
					switch x := ea.(type) {
					case *ssa.Extract:
						if ta, ok := x.Tuple.(*ssa.TypeAssert); ok && core.TypeName(ta.AssertedType) == "Error" {
							desc, good = "asserted-*Error-verbatim", true
						}
					case *ssa.TypeAssert:
						desc, good = "asserted-*Error-verbatim", core.TypeName(x.AssertedType) == "Error"
					case *ssa.Call:
						if cc := x.Common().StaticCallee(); cc != nil && (cc.Name() == "ToError" || cc.Name() == "InternalError") {
							desc, good = cc.Name()+"(...)", true
						}
					}
					if desc == "" {
						desc = valDesc(ea)
					}
					// arm sensitivity: inside the arm where the panic value was asserted to *Error, only the value itself is allowed
					for _, ed := range dominatingEdges(at) {
						if ex, ok := ed.If.Cond.(*ssa.Extract); ok && ex.Index == 1 && ed.Succ == 0 {
							if ta, ok := ex.Tuple.(*ssa.TypeAssert); ok && core.TypeName(ta.AssertedType) == "Error" {
								if _, isPtr := ta.AssertedType.(*types.Pointer); isPtr && desc != "asserted-*Error-verbatim" {
									good = false
									desc = "*Error-arm:" + desc
								}
							}
						}
					}
					r.Check(good, "E1", core.FuncName(cl), "recover-arm-error:"+desc, p.InstrPos(at), "panic value mapped by the documented rule", "a recovered panic is answered with "+desc+": neither the *Error itself nor an internal error")
				}
				// the reply call may sit in a small helper of the recover closure that is handed the
				// error (replyPanic(rerr)): what it replies with is judged at the helper's call sites
				if prm, isPrm := errArg.(*ssa.Parameter); isPrm && prm.Parent().Parent() == nil && p.IsPrivateHelper(prm.Parent()) && prm.Parent() != cl {
					idx := -1
					for k, q := range prm.Parent().Params {
						if q == prm {
							idx = k
						}
					}
					sites := 0
					for _, c2 := range p.CallersOf(prm.Parent()) {
						if idx >= 0 && idx < len(c2.Common().Args) {
							sites++
							judge(core.Strip(c2.Common().Args[idx]), c2)
						}
					}
					if sites > 0 {
						continue
					}
				}
				judge(errArg, c)
			}
			m.root = savedRoot
		}
	}
	// InternalError / ToError
	if fn := p.Func("InternalError"); fn != nil {
		good := false
		// (the Error may be built by a constructor helper that is handed the code: newError(code, msg))
		for _, h := range p.Helpers(fn) {
			for _, b := range h.Blocks {
				for _, in := range b.Instrs {
					if st, ok := in.(*ssa.Store); ok {
						if f, ok := core.FieldOf(st.Addr); ok && f.Struct == "Error" && f.Name == "Code" {
							vals := []ssa.Value{st.Val}
							if h != fn {
								vals = nil
								// what InternalError's own calls of the helper pass for the stored parameter
								if prm, isP := st.Val.(*ssa.Parameter); isP {
									for _, c := range core.Calls(fn) {
										if c.Common().StaticCallee() == h {
											for i, q := range h.Params {
												if q == prm && i < len(c.Common().Args) {
													vals = append(vals, c.Common().Args[i])
												}
											}
										}
									}
								}
							}
							for _, v := range vals {
								if s, ok := core.ConstString(v); ok && s == stringConsts(p, "")["CodeInternalError"] {
									good = true
								}
							}
						}
					}
				}
			}
		}
		r.Check(good, "E1", "InternalError", "code==CodeInternalError", p.Pos(fn.Pos()), "built with the internal-error code constant", "InternalError does not set Code to the internal-error constant")
	} else {
		r.Unres("E1", "InternalError", "not found")
	}
	toErrorRule(r, "E1")
	c05Verbatim(r, root)

	// ---- E2 --------------------------------------------------------------
	globals := byteGlobals(p, "")
	consts := stringConsts(p, "")
	codeOf := func(gname string) string {
		var obj struct {
			Error *struct {
				Code string `json:"code"`
			} `json:"error"`
		}
		if json.Unmarshal([]byte(globals[gname]), &obj) != nil || obj.Error == nil {
			return ""
		}
		return obj.Error.Code
	}
	literalReplies := func(fn *ssa.Function) [][2]string { // (dominating conds, global)
		var out [][2]string
		for _, c := range core.Calls(fn) {
			if len(c.Common().Args) != 2 {
				continue
			}
			u, ok := c.Common().Args[1].(*ssa.UnOp)
			if !ok {
				continue
			}
			g, ok := u.X.(*ssa.Global)
			if !ok {
				continue
			}
			var conds []string
			for _, ed := range dominatingEdges(c) {
				conds = append(conds, describeCond(ed))
			}
			sort.Strings(conds)
			out = append(out, [2]string{strings.Join(conds, "&"), g.Name()})
		}
		return out
	}
	expect := func(fn *ssa.Function, condSub, codeConst, what string) {
		found := false
		for _, lr := range literalReplies(fn) {
			if strings.Contains(lr[0], condSub) {
				found = true
				r.Check(codeOf(lr[1]) == consts[codeConst] && consts[codeConst] != "", "E2", core.FuncName(fn), what+"->"+codeConst, p.Pos(fn.Pos()), "replies with literal "+lr[1]+" carrying "+consts[codeConst], "the "+what+" outcome replies with code "+codeOf(lr[1])+" instead of "+consts[codeConst])
			}
		}
		if !found {
			r.Bad("E2", core.FuncName(fn), what+"->"+codeConst, p.Pos(fn.Pos()), "no static reply on the "+what+" edge ("+condSub+")")
		}
	}
	matchParam := "mh"
	for _, prm := range proc.Params {
		if isPtrTo(prm.Type(), "Match") {
			matchParam = prm.Name()
		}
	}
	expect(proc, "param:"+matchParam+"==nil", "CodeNotFound", "no-resource")
	expect(body, "Handler.Get==nil", "CodeNotFound", "get-without-handler")
	expect(d, "!"+mReq.flag.String(), "CodeInternalError", "missing-reply")
	// every handler return reaches the missing-reply fallback: with the handler calls as havoc, the
	// dispatcher unit (private helpers analysed in place) ends in state "replied" on every return
	// that is not a documented unanswered case
	{
		mReq.exemptRet = func(ret *ssa.Return) string {
			for _, e := range dominatingEdges(ret) {
				if describeCond(e) == "Handler.Access==nil" {
					return "no access handler"
				}
			}
			var conds []string
			for _, e := range dominatingEdges(ret) {
				conds = append(conds, describeCond(e))
			}
			if isUnknownTypeReturn(conds) {
				return "unknown type"
			}
			return ""
		}
		mReq.exemptEdge = dispatchExemptEdge("Request")
		res := mReq.flow(d, core.StateSet(0).Add(stNo))
		exempt := mReq.exemptRet
		mReq.exemptRet = nil
		mReq.exemptEdge = nil
		allYes, where := true, ""
		for _, ret := range core.Returns(d) {
			if d.Recover != nil && ret.Block() == d.Recover {
				continue
			}
			st := res.Before[ret]
			if st.Empty() || st.Only(stYes) || exempt(ret) != "" {
				continue
			}
			allYes, where = false, p.InstrPos(ret)
		}
		for _, c := range helperCalls(p, d) {
			if !(core.IsDynamic(c) && mReq.takesT(c)) {
				continue
			}
			r.Check(allYes, "E2", core.FuncName(d), "handler-return-reaches-missing-reply-fallback:"+valDesc(c.Common().Value), p.InstrPos(c), "after the handler returns, control always reaches the 'not replied -> internal error' fallback", "a handler that returns without replying can leave the dispatcher (return at "+where+") without passing the missing-reply fallback: the outcome is no response instead of system.internalError")
		}
	}
}

func instrIdx(in ssa.Instruction) int {
	for i, x := range in.Block().Instrs {
		if x == in {
			return i
		}
	}
	return 0
}

// literalErrorCode parses the static payload global and returns its error code.
func literalErrorCode(p *core.Prog, gname string) string {
	var obj struct {
		Error *struct {
			Code string `json:"code"`
		} `json:"error"`
	}
	if json.Unmarshal([]byte(byteGlobals(p, "")[gname]), &obj) != nil || obj.Error == nil {
		return ""
	}
	return obj.Error.Code
}

// toErrorRule: ToError returns its argument when a plain type assertion says
// it already is an *Error and InternalError(err) otherwise. Unwrapping
// (errors.As) would dig an *Error out of a *json.MarshalerError or any %w
// chain and send it verbatim.
func toErrorRule(r *core.Run, rule string) {
	p := r.P
	fn := p.Func("ToError")
	if fn == nil {
		r.Unres(rule, "ToError", "not found")
		return
	}
	hasAssert, hasInternal, other := false, false, ""
	for _, ret := range core.Returns(fn) {
		for _, lf := range valueLeaves(ret.Results[0], nil, 0) {
			switch x := lf.V.(type) {
			case *ssa.Extract:
				if ta, ok := x.Tuple.(*ssa.TypeAssert); ok && x.Index == 0 && core.TypeName(ta.AssertedType) == "Error" && core.Strip(ta.X) == ssa.Value(fn.Params[0]) {
					hasAssert = true
				} else {
					other = valDesc(x)
				}
			case *ssa.Alloc:
				// InternalError's result when expanded: a fresh *Error
				hasInternal = true
			case *ssa.Call:
				if c := x.Common().StaticCallee(); c != nil && c.Name() == "InternalError" {
					hasInternal = true
				} else {
					other = "call:" + core.CalleeName(x)
				}
			default:
				other = valDesc(lf.V)
			}
		}
	}
	r.Check(hasAssert && hasInternal && other == "", rule, "ToError", "identity-on-*Error-else-InternalError", p.Pos(fn.Pos()), "returns the argument itself when its dynamic type is *Error (plain type assertion), InternalError(err) otherwise", "ToError does not map by a plain type assertion on its argument: "+other)
}

// c05Verbatim is rule E3.
func c05Verbatim(r *core.Run, root []*ssa.Function) {
	p := r.P
	c05ErrorMethodVerbatim(r, "E3")
	mayPub := mayExec(root, func(in ssa.Instruction) bool {
		c, ok := in.(ssa.CallInstruction)
		return ok && c.Common().IsInvoke() && c.Common().Method.Name() == "Publish"
	})
	isErrPtr := func(t types.Type) bool { return isPtrTo(t, "Error") }
	for _, fn := range root {
		if fn.Parent() != nil || len(fn.Blocks) == 0 {
			continue
		}
		var eprm *ssa.Parameter
		for i, prm := range fn.Params {
			if fn.Signature.Recv() != nil && i == 0 {
				continue
			}
			if isErrPtr(prm.Type()) {
				eprm = prm
			}
		}
		if eprm == nil {
			continue
		}
		// the marshal call(s) encoding a value that holds the parameter
		var holdsOf func(eprm *ssa.Parameter, arg ssa.Value) bool
		holds := func(arg ssa.Value) bool { return holdsOf(eprm, arg) }
		holdsOf = func(eprm *ssa.Parameter, arg ssa.Value) bool {
			v := core.Strip(arg)
			if v == ssa.Value(eprm) {
				return true
			}
			var cell ssa.Value
			if u, ok := v.(*ssa.UnOp); ok && u.Op == token.MUL {
				cell = u.X
			} else {
				cell = v
			}
			if eprm.Referrers() == nil {
				return false
			}
			for _, rf := range *eprm.Referrers() {
				if st, ok := rf.(*ssa.Store); ok && st.Val == ssa.Value(eprm) {
					if fa, ok := st.Addr.(*ssa.FieldAddr); ok && fa.X == cell {
						return true
					}
				}
			}
			return false
		}
		marshalOf := func(v ssa.Value) *ssa.Call {
			ex, ok := core.Strip(v).(*ssa.Extract)
			if !ok || ex.Index != 0 {
				return nil
			}
			c, ok := ex.Tuple.(*ssa.Call)
			if !ok || core.CalleeName(c) != "encoding/json.Marshal" {
				return nil
			}
			return c
		}
		var marshals []*ssa.Call
		for _, c := range core.Calls(fn) {
			if call, ok := c.(*ssa.Call); ok && core.CalleeName(call) == "encoding/json.Marshal" && holds(call.Call.Args[0]) {
				marshals = append(marshals, call)
			}
		}
		onMarshalFailure := func(e edgeCond) bool {
			ci := core.Cond(e.If.Cond)
			if ci.Kind != "nilcmp" {
				return false
			}
			ex, ok := core.Strip(ci.X).(*ssa.Extract)
			if !ok || ex.Index != 1 {
				return false
			}
			isM := false
			for _, m := range marshals {
				if ex.Tuple == ssa.Value(m) {
					isM = true
				}
			}
			truth := e.Succ == 0
			if ci.Negate {
				truth = !truth
			}
			return isM && ((ci.Op == token.NEQ && truth) || (ci.Op == token.EQL && !truth))
		}
		type src struct {
			v    ssa.Value
			pred *ssa.BasicBlock // block the value comes in from (phi edge), nil = the use itself
			to   *ssa.BasicBlock
		}
		var sources func(v ssa.Value, pred, to *ssa.BasicBlock, d int) []src
		sources = func(v ssa.Value, pred, to *ssa.BasicBlock, d int) []src {
			if phi, ok := v.(*ssa.Phi); ok && d < 5 {
				var out []src
				for i, e := range phi.Edges {
					out = append(out, sources(e, phi.Block().Preds[i], phi.Block(), d+1)...)
				}
				return out
			}
			return []src{{v, pred, to}}
		}
		for _, c := range core.Calls(fn) {
			cal := c.Common().StaticCallee()
			if cal == nil || !mayPub[cal] || core.IsGo(c) {
				continue
			}
			for _, a := range c.Common().Args {
				if !isByteSlice(a.Type()) {
					continue
				}
				// a helper that answers with the static bytes of a predefined error: every caller hands
				// in a package-level error value (then the literal's code is judged by E2)
				predefined := len(p.CallersOf(fn)) > 0
				eidx := -1
				for i, prm := range fn.Params {
					if prm == eprm {
						eidx = i
					}
				}
				for _, cs := range p.CallersOf(fn) {
					if eidx < 0 || eidx >= len(cs.Common().Args) {
						predefined = false
						continue
					}
					if _, isG := loadedGlobal(cs.Common().Args[eidx]); !isG {
						predefined = false
					}
				}
				for k, s := range sources(a, nil, nil, 0) {
					key := fmt.Sprintf("payload#%d:%s", k, valDesc(s.v))
					if _, isPrm := core.Strip(s.v).(*ssa.Parameter); isPrm || func() bool { _, g := loadedGlobal(s.v); return g }() {
						if predefined {
							r.OK("E3", core.FuncName(fn), key, p.InstrPos(c), "static bytes sent for a predefined package-level error only (every caller passes a package-level error value)")
							continue
						}
					}
					// the payload comes out of a private helper ("marshal or fall back"): judge the helper's
					// returns with its parameters bound to this call
					hv := core.Strip(s.v)
					if ex, ok := hv.(*ssa.Extract); ok && ex.Index == 0 {
						hv = ex.Tuple // payload, err := encode(...)
					}
					if hc, ok := hv.(*ssa.Call); ok {
						if cal := hc.Common().StaticCallee(); cal != nil && cal.Pkg == fn.Pkg && len(cal.Blocks) > 0 && (cal.Signature.Results().Len() == 1 || (cal.Signature.Results().Len() == 2 && types.TypeString(cal.Signature.Results().At(1).Type(), nil) == "error")) && cal.String() != "encoding/json.Marshal" {
							rs := core.NewResolver()
							rs.Bind(hc)
							var hm []*ssa.Call
							// the helper's own parameter that receives the *Error
							var hprm *ssa.Parameter
							for i, ha := range hc.Common().Args {
								if core.Strip(ha) == ssa.Value(eprm) && i < len(cal.Params) {
									hprm = cal.Params[i]
								}
							}
							for _, c2 := range core.Calls(cal) {
								if call, ok := c2.(*ssa.Call); ok && core.CalleeName(call) == "encoding/json.Marshal" && (holds(rs.R(call.Call.Args[0])) || (hprm != nil && holdsOf(hprm, call.Call.Args[0]))) {
									hm = append(hm, call)
								}
							}
							good, why := len(hm) > 0, "the helper marshals nothing that holds the *Error"
							for _, ret := range core.Returns(cal) {
								for _, s2 := range phiSources(ret.Results[0]) {
									if ex, ok := core.Strip(s2.V).(*ssa.Extract); ok && ex.Index == 0 {
										isHM := false
										for _, m := range hm {
											if ex.Tuple == ssa.Value(m) {
												isHM = true
											}
										}
										if isHM {
											continue
										}
									}
									if g, ok := loadedGlobal(s2.V); ok {
										under := false
										for _, e := range srcEdges(ret, s2) {
											ci := core.Cond(e.If.Cond)
											if ci.Kind != "nilcmp" {
												continue
											}
											if ex, ok := core.Strip(ci.X).(*ssa.Extract); ok && ex.Index == 1 {
												for _, m := range hm {
													truth := e.Succ == 0
													if ci.Negate {
														truth = !truth
													}
													if ex.Tuple == ssa.Value(m) && ((ci.Op == token.NEQ && truth) || (ci.Op == token.EQL && !truth)) {
														under = true
													}
												}
											}
										}
										if !under {
											good, why = false, "the helper returns the static literal "+g+" on a path that is not the marshal-failure edge"
										}
										continue
									}
									good, why = false, "the helper returns "+valDesc(s2.V)
								}
							}
							r.Check(good, "E3", core.FuncName(fn), key, p.InstrPos(c), "the payload is what "+core.FuncName(cal)+" marshals from the *Error handed in (static literal only on its marshal-failure edge)", "the error payload does not encode the *Error handed in: "+why)
							continue
						}
					}
					if m := marshalOf(s.v); m != nil {
						r.Check(holds(m.Call.Args[0]), "E3", core.FuncName(fn), key, p.InstrPos(c), "the payload encodes the *Error handed in", "the error payload is marshalled from a value that does not hold the *Error handed in")
						continue
					}
					if g, ok := loadedGlobal(s.v); ok {
						under := false
						var at ssa.Instruction = c
						if s.pred != nil {
							at = s.pred.Instrs[len(s.pred.Instrs)-1]
							if iff, ok := at.(*ssa.If); ok {
								for i, sc := range s.pred.Succs {
									if sc == s.to && onMarshalFailure(edgeCond{iff, i}) {
										under = true
									}
								}
							}
						}
						for _, e := range dominatingEdges(at) {
							if onMarshalFailure(e) {
								under = true
							}
						}
						r.Check(under, "E3", core.FuncName(fn), key, p.InstrPos(c), "static literal "+g+" only on the marshal-failure edge", "the static literal "+g+" is sent in place of the *Error handed in on a path that is not the marshal-failure edge: a custom message or data carried by the error is replaced by the generic text")
						continue
					}
					r.Bad("E3", core.FuncName(fn), key, p.InstrPos(c), "error payload of unknown origin: "+valDesc(s.v))
				}
			}
		}
	}
}

// c05ErrorMethodVerbatim (C18.V8, also run under C05.E3): the exported
// Error(err error) method of a request type answers with ToError(err) through the
// error funnel on every path - no other reply is chosen by a test on the error
// value (by its code, by errors.Is ...). A handler's *Error then reaches the
// client with its own message and data.
func c05ErrorMethodVerbatim(r *core.Run, rule string) {
	p := r.P
	mp := mayPublish(p)
	n := 0
	for _, tn := range []string{"Request", "queryRequest"} {
		fn := methodNamed(p, "", tn, "Error")
		if fn == nil || len(fn.Params) != 2 || types.TypeString(fn.Params[1].Type(), nil) != "error" {
			continue
		}
		eprm := fn.Params[1]
		n++
		bad := ""
		replies := 0
		for _, c := range core.Calls(fn) {
			cal := c.Common().StaticCallee()
			if cal == nil || !mp[cal] || core.IsGo(c) {
				continue
			}
			replies++
			ok := false
			for _, a := range c.Common().Args {
				if tc, isCall := core.Strip(a).(*ssa.Call); isCall {
					if cc := tc.Common().StaticCallee(); cc != nil && cc.Name() == "ToError" && len(tc.Common().Args) == 1 && tc.Common().Args[0] == ssa.Value(eprm) {
						ok = true
					}
				}
			}
			if !ok {
				bad = "the reply at " + p.InstrPos(c) + " (" + core.CalleeName(c) + ") is not the error funnel called with ToError of the error handed in"
			}
			// and it is not guarded by a test that looks at the error
			for _, ed := range dominatingEdges(c) {
				if dependsOn(ed.If.Cond, eprm, 0) {
					bad = "the reply at " + p.InstrPos(c) + " is chosen by a test on the error value (" + describeCond(ed) + ")"
				}
			}
		}
		if replies == 0 {
			bad = "no reply is sent"
		}
		r.Check(bad == "", rule, core.FuncName(fn), "error-reply=ToError(err)-on-every-path", p.Pos(fn.Pos()), "the one reply of the method is the error funnel with ToError(err), unconditionally", "the Error method does not always answer with the error it was handed: "+bad+" - an *Error with a predefined code but its own message or data reaches the client as the static predefined error")
	}
	if n == 0 {
		r.Bad(rule, "Request", "Error-method-found", "-", "no request type has an Error(err error) method (rule went vacuous)")
	}
}

// dependsOn: v is computed from root (through calls, comparisons, type
// assertions, extracts and phis).
func dependsOn(v, root ssa.Value, depth int) bool {
	if v == root {
		return true
	}
	if depth > 6 || v == nil {
		return false
	}
	switch x := v.(type) {
	case *ssa.BinOp:
		return dependsOn(x.X, root, depth+1) || dependsOn(x.Y, root, depth+1)
	case *ssa.UnOp:
		return dependsOn(x.X, root, depth+1)
	case *ssa.Extract:
		return dependsOn(x.Tuple, root, depth+1)
	case *ssa.TypeAssert:
		return dependsOn(x.X, root, depth+1)
	case *ssa.ChangeInterface:
		return dependsOn(x.X, root, depth+1)
	case *ssa.MakeInterface:
		return dependsOn(x.X, root, depth+1)
	case *ssa.Phi:
		for _, e := range x.Edges {
			if e != v && dependsOn(e, root, depth+1) {
				return true
			}
		}
	case *ssa.Call:
		for _, a := range x.Common().Args {
			if dependsOn(a, root, depth+1) {
				return true
			}
		}
		if x.Common().IsInvoke() {
			return dependsOn(x.Common().Value, root, depth+1)
		}
	}
	return false
}
