package props

import (
	"go/token"

	"golang.org/x/tools/go/ssa"

	"resverif/core"
)

// A small evaluator for "what happens when this string parameter has this
// value": it walks a function's control-flow graph from the entry, deciding
// the branches that compare the parameter (or the constant result of a helper
// that was handed the parameter) with constants, following both ways where it
// cannot decide, and descending into functions of the module that are handed
// the parameter. It answers two questions: can a target instruction be
// reached, and which constant strings can the function return.

type strEval struct {
	p       *core.Prog
	val     string
	targets map[ssa.Instruction]bool
	depth   int
}

type strOutcome struct {
	hitTarget bool     // some feasible path executes a target instruction
	mayReturn bool     // some feasible path returns normally
	results   []string // constant string results of the feasible returns (single-result functions)
	resultsOK bool     // every feasible return yields a constant string
	// bool results per result index: 1 = some feasible return yields true, 2 = false, 4 = a non-constant
	boolRes map[int]int
}

// paramIs: which parameters of fn are known to hold the value.
type strEnv map[*ssa.Parameter]bool

func (e *strEval) run(fn *ssa.Function, env strEnv) strOutcome {
	out := strOutcome{resultsOK: true, boolRes: map[int]int{}}
	if e.depth > 5 || len(fn.Blocks) == 0 {
		return strOutcome{mayReturn: true}
	}
	e.depth++
	defer func() { e.depth-- }()
	seen := map[*ssa.BasicBlock]bool{}
	var walk func(b *ssa.BasicBlock)
	walk = func(b *ssa.BasicBlock) {
		if seen[b] {
			return
		}
		seen[b] = true
		for _, in := range b.Instrs {
			if e.targets[in] {
				out.hitTarget = true
				return
			}
			switch x := in.(type) {
			case *ssa.Panic:
				return
			case *ssa.Return:
				out.mayReturn = true
				for i, rv := range x.Results {
					for _, src := range phiSources(rv) {
						switch {
						case isConstBool(src.V, true):
							out.boolRes[i] |= 1
						case isConstBool(src.V, false):
							out.boolRes[i] |= 2
						default:
							out.boolRes[i] |= 4
						}
					}
				}
				if len(x.Results) == 1 {
					for _, src := range phiSources(x.Results[0]) {
						if s, ok := core.ConstString(src.V); ok {
							out.results = append(out.results, s)
						} else {
							out.resultsOK = false
						}
					}
				} else {
					out.resultsOK = false
				}
				return
			case *ssa.Call:
				cal := x.Common().StaticCallee()
				if cal == nil || len(cal.Blocks) == 0 || cal.Pkg != fn.Pkg {
					continue
				}
				env2 := e.bind(x, cal, env)
				if len(env2) == 0 && !e.reachesTargetStatically(cal) {
					continue
				}
				sub := e.run(cal, env2)
				if sub.hitTarget {
					out.hitTarget = true
					return
				}
				if !sub.mayReturn {
					return // the callee panics on every feasible path
				}
			case *ssa.If:
				known, truth := e.decide(x.Cond, fn, env)
				if known {
					if truth {
						walk(b.Succs[0])
					} else {
						walk(b.Succs[1])
					}
				} else {
					walk(b.Succs[0])
					walk(b.Succs[1])
				}
				return
			case *ssa.Jump:
				walk(b.Succs[0])
				return
			}
		}
	}
	walk(fn.Blocks[0])
	return out
}

// reachesTargetStatically: a target lies in cal (or below it): the callee has
// to be walked even if it is not handed the parameter.
func (e *strEval) reachesTargetStatically(cal *ssa.Function) bool {
	for t := range e.targets {
		if e.p.Within(t.Parent(), cal) || t.Parent() == cal {
			return true
		}
	}
	return false
}

func (e *strEval) bind(c ssa.CallInstruction, cal *ssa.Function, env strEnv) strEnv {
	out := strEnv{}
	for i, a := range c.Common().Args {
		if prm, ok := core.Strip(a).(*ssa.Parameter); ok && env[prm] && i < len(cal.Params) {
			out[cal.Params[i]] = true
		}
	}
	return out
}

// decide evaluates a branch condition under the assumption.
func (e *strEval) decide(cond ssa.Value, fn *ssa.Function, env strEnv) (known, truth bool) {
	switch x := cond.(type) {
	case *ssa.UnOp:
		if x.Op == token.NOT {
			k, t := e.decide(x.X, fn, env)
			return k, !t
		}
	case *ssa.Extract:
		// the bool a helper that was handed the parameter returns next to its other results
		// (msg, reserved := reservedEventMessage(event))
		if call, ok := x.Tuple.(*ssa.Call); ok {
			cal := call.Common().StaticCallee()
			if cal != nil && len(cal.Blocks) > 0 && cal.Pkg == fn.Pkg {
				env2 := e.bind(call, cal, env)
				if len(env2) == 0 {
					return false, false
				}
				saved := e.targets
				e.targets = nil
				sub := e.run(cal, env2)
				e.targets = saved
				switch sub.boolRes[x.Index] {
				case 1:
					return true, true
				case 2:
					return true, false
				}
			}
		}
	case *ssa.BinOp:
		if x.Op != token.EQL && x.Op != token.NEQ {
			return false, false
		}
		lhs, rhs := x.X, x.Y
		if _, isC := core.ConstString(lhs); isC {
			lhs, rhs = rhs, lhs
		}
		c, isC := core.ConstString(rhs)
		if !isC {
			return false, false
		}
		// the parameter itself
		if prm, ok := core.Strip(lhs).(*ssa.Parameter); ok && env[prm] {
			return true, (e.val == c) == (x.Op == token.EQL)
		}
		// the constant result of a helper that was handed the parameter
		if call, ok := lhs.(*ssa.Call); ok {
			cal := call.Common().StaticCallee()
			if cal != nil && len(cal.Blocks) > 0 && cal.Pkg == fn.Pkg && cal.Signature.Results().Len() == 1 {
				env2 := e.bind(call, cal, env)
				if len(env2) == 0 {
					return false, false
				}
				saved := e.targets
				e.targets = nil
				sub := e.run(cal, env2)
				e.targets = saved
				if !sub.resultsOK || len(sub.results) == 0 {
					return false, false
				}
				all := true
				first := (sub.results[0] == c) == (x.Op == token.EQL)
				for _, s := range sub.results {
					if ((s == c) == (x.Op == token.EQL)) != first {
						all = false
					}
				}
				if all {
					return true, first
				}
			}
		}
	}
	return false, false
}

// neverReachesUnder: with the idx-th parameter of fn equal to val, no feasible
// path of fn (descending into the module functions it hands the parameter to)
// executes one of the target instructions or returns normally - every one
// panics first.
func neverReachesUnder(p *core.Prog, fn *ssa.Function, prm *ssa.Parameter, val string, targets []ssa.CallInstruction) bool {
	e := &strEval{p: p, val: val, targets: map[ssa.Instruction]bool{}}
	for _, t := range targets {
		e.targets[t] = true
	}
	out := e.run(fn, strEnv{prm: true})
	return !out.hitTarget && !out.mayReturn
}
