package props

import (
	"fmt"
	"go/token"
	"go/types"
	"strings"

	"golang.org/x/tools/go/ssa"

	"resverif/core"
)

func init() { register("C01", c01) }

// queueEngine builds the anchors and the solved lock engine shared by C01/C02/C03/C16.
func queueEngine(r *core.Run, rule string) (*svcAnchors, *lockEngine) {
	a := resolveSvc(r, rule)
	if !a.ok {
		return a, nil
	}
	root := r.P.FuncsOfPkg("")
	e := newLockEngine(r.P, root, a.Mu, a.Cond)
	guarded := func(f core.Field) bool { return f == a.RWork || f == a.WorkQueue || f == a.WQueue }
	set := map[*ssa.Function]bool{}
	for fn := range e.touches {
		set[fn] = true
	}
	for _, ac := range core.FieldAccesses(root, guarded) {
		set[ac.Fn] = true
	}
	var analysed []*ssa.Function
	for _, fn := range root {
		if set[fn] {
			analysed = append(analysed, fn)
		}
	}
	e.solve(analysed)
	return a, e
}

// freshBase: the access goes through an object allocated in this function
// that has not been published (stored / passed on) on any path before it.
func freshBase(addr ssa.Value, at ssa.Instruction) bool {
	fa, ok := addr.(*ssa.FieldAddr)
	if !ok {
		return false
	}
	al, ok := fa.X.(*ssa.Alloc)
	if !ok {
		return false
	}
	refs := al.Referrers()
	if refs == nil {
		return true
	}
	for _, ref := range *refs {
		pub := false
		switch x := ref.(type) {
		case *ssa.Store:
			pub = x.Val == al
		case *ssa.MapUpdate:
			pub = x.Value == al
		case ssa.CallInstruction:
			pub = true
		case *ssa.MakeClosure, *ssa.MakeInterface, *ssa.Phi:
			pub = true
		}
		if pub && (ref == at || core.Reaches(ref, at)) {
			return false
		}
	}
	return true
}

func c01(r *core.Run) {
	p := r.P
	r.Explanation = "Lock-state dataflow ({Free,Held} for the service's queue mutex, inter-procedural with entry states inferred from call sites) plus three small typestate flows (retire: emptiness re-check -> unregister without a release in between; enqueue: lookup -> register/append in one critical section and the create-vs-append decision controlled by the lookup; pop: non-empty -> read head -> drop head -> drain) and a who-may-call census of every callback kind. Decides: queue state is only touched under the queue lock, the critical sections that give per-group exclusion are not split, callbacks run with the lock released, and every callback kind enters through the per-group enqueue function with the routed group id. Under a correct mutex these facts hold for every interleaving."
	r.NotDecided = []string{"which group id a resource name / template evaluates to (C06)", "fairness / progress", "user code calling handler functions directly"}
	r.Assumptions = []string{"sync.Mutex/sync.Cond semantics", "a Resource value is used from its own group's callbacks as the API documents (nested Value() runs on the caller's callback)"}

	r.Rule("L1", "guarded-by: every load/store of S.rwork, S.workqueue, W.queue (incl. len, index, append, map lookup/update/delete) happens with the queue lock Held; exempt only initialisation in serve before the first go and fields of a work item not yet published", 15)
	r.Rule("L2", "callbacks run outside the lock: every call of a function value inside lock-touching functions is made in state Free", 1)
	r.Rule("A1", "retire atomically: every unregistering delete(S.rwork, ..) is reached only with 'queue observed exhausted (len(W.queue) <= consumed index)' established after the last lock acquire, with no release point in between", 1)
	r.Rule("A2", "lookup-then-register atomically: in enqueue the append-to-existing-item and the register+push are in the same critical section as the map lookup, the existing item is the lookup's result, the decision is controlled by the lookup's ok, and a grouped (id != \"\") new item is registered before it is pushed", 4)
	r.Rule("A3", "pop atomically: in the worker loop 'non-empty observed' -> read of element 0 -> store dropping the head -> call of drain(on that element) happen without a release point, and drain is entered and left with the lock Held", 3)
	r.Rule("H1", "restart safety (start/stop/start histories): Shutdown declares the service stopped only after a synchronous, unconditional WaitGroup.Wait for all workers, and serve re-creates the group registry before any worker of the new run starts - so a callback of the previous run cannot overlap one of the next", 2)
	r.Rule("F1", "funnel: every callback-kind dynamic call (handlers, With*/query callbacks, queue elements) is reachable only through the closure handed to enqueue / the drain loop; documented exceptions are named", 6)
	r.Rule("F3", "group value: the routed Match.Group is toString(the matched node's group template, name tokens re-sliced at the match record's mount index), and the record's node, mount index and params are written together at each accept site (the obligations of C06.R4): a stale or early-written mount index evaluates ${tags} on the wrong tokens, so resources meant to share a worker group get different ids and run concurrently", 6)
	r.Rule("F5", "the group id is computed from the request's own tokens (shared with C06.R6): the lookup that evaluates the group template writes no shared state - with a token buffer kept in the Mux two overlapping lookups (listener and With / Resource on another goroutine) mix their tokens and a callback is queued under another resource's group, where it runs beside the callbacks of its own group", 1)
	r.Rule("F4", "group template evaluation (the group-tag obligations of C06.R2): in the function that turns a group template into the worker id the index of a ${tag} part is used for nothing but indexing the mount-rebased tokens - never compared with a constant or used in arithmetic; whether a part is a tag is decided by its string (index 0 is a valid tag position), so a test on the index would give a handler whose tag sits on the first token the empty group, i.e. no serialisation at all", 1)
	r.Rule("F2", "group argument: at every call site of enqueue the group id is the routed Match.Group (resource name when no match), a Resource's Group(), or WithGroup's own parameter; resource.group is only written from Match.Group and Match.Group only from the registered group's toString", 8)

	a, e := queueEngine(r, "L1")
	if e == nil {
		return
	}
	root := p.FuncsOfPkg("")
	r.Extra["anchors"] = map[string]string{"S": a.S, "mu": a.Mu.String(), "cond": a.Cond.String(), "rwork": a.RWork.String(), "workqueue": a.WorkQueue.String(), "workbuf": a.WorkBuf.String(),
		"W.queue": a.WQueue.String(), "enqueue": core.FuncName(a.Enqueue), "workerLoop": core.FuncName(a.Worker), "drain": core.FuncName(a.Drain), "closeFn": core.FuncName(a.Close), "serve": core.FuncName(a.Serve)}

	// ---- L1 ----------------------------------------------------------------
	guarded := func(f core.Field) bool { return f == a.RWork || f == a.WorkQueue || f == a.WQueue }
	firstGo := firstWorkerStart(p, a)
	for _, ac := range core.FieldAccesses(root, guarded) {
		fn := core.FuncName(ac.Fn)
		construct := ac.Kind + "(" + ac.F.String() + ")"
		st := e.stateAt(ac.Instr)
		switch {
		case beforeWorkers(p, a, ac.Instr, firstGo):
			r.ExemptObl("L1", fn, construct, p.InstrPos(ac.Instr), "initialisation before the first worker goroutine is started (no other thread can hold a reference)")
		case freshBase(ac.Addr, ac.Instr):
			r.ExemptObl("L1", fn, construct, p.InstrPos(ac.Instr), "field of a work item allocated in this function and not yet published")
		case st.Only(lkHeld):
			r.OK("L1", fn, construct, p.InstrPos(ac.Instr), "lock state Held on every path")
		default:
			r.Bad("L1", fn, construct, p.InstrPos(ac.Instr), "queue state accessed with lock state "+lkStr(st))
		}
	}

	// ---- L2 ----------------------------------------------------------------
	for _, fn := range root {
		if e.res[fn] == nil {
			continue
		}
		for _, c := range core.Calls(fn) {
			if !core.IsDynamic(c) || core.IsGo(c) {
				continue
			}
			st := e.stateAt(c)
			r.Check(st.Only(lkFree), "L2", core.FuncName(fn), "dynamic-call:"+valDescQ(c.Common().Value, a), p.InstrPos(c),
				"callback invoked with the queue lock released", "callback invoked with lock state "+lkStr(st)+" (would serialise all groups / deadlock on re-entry)")
		}
	}

	// ---- A1 ----------------------------------------------------------------
	c01Retire(r, a, e, root)
	// ---- A2 ----------------------------------------------------------------
	c01Enqueue(r, a, e)
	// ---- A3 ----------------------------------------------------------------
	c01Pop(r, a, e)
	// ---- H1 ----------------------------------------------------------------
	c01Restart(r, "H1", a, root)
	// ---- F1/F2 -------------------------------------------------------------
	c01Funnel(r, "F1", a, root)
	// ---- F3 (shared with C06.R4) --------------------------------------------
	if ro := resolveMuxRolesFor(r, "F3"); ro != nil {
		c06MatchAssembly(r, "F3", root, ro)
		c06Units(r, "F4", root, ro, true)
		c06PureLookup(r, "F5")
		c06DefaultGroupOnlyWithoutGroup(r, "F4", ro)
	}
	c01GroupArg(r, "F2", a, root)
	r.Rule("A4", "a work item is handed to one worker (shared with C02.Q3): the service work queue is only ever tail-appended, head-dropped ([1:] of itself, or reset to the empty buffer prefix when exactly one item is queued), initialised and closed; after any other store (a copy back to the start of the buffer that keeps the popped head) the item just popped is still queued, a second worker pops it and runs the group's callbacks while the first is still inside one", 5)
	c02WorkQueueShape(r, "A4", a, root)
	c01EnqueueNeverRunsCallback(r, "F1", a)
}

func valDescQ(v ssa.Value, a *svcAnchors) string {
	if isQueueElem(v, a.WQueue) {
		return "element-of-" + a.WQueue.String()
	}
	return valDesc(v)
}

// lenOfField: v is len(load of field f)
func lenOfField(v ssa.Value, f core.Field) bool {
	c, ok := v.(*ssa.Call)
	if !ok || core.CalleeName(c) != "builtin:len" {
		return false
	}
	g, ok := core.LoadedField(c.Call.Args[0])
	return ok && g == f
}

// exhaustedEdge: on edge succ of iff, is "len(field) <= other" established?
// Returns the other operand.
func exhaustedEdge(iff *ssa.If, succ int, f core.Field) (ssa.Value, bool) {
	b, ok := iff.Cond.(*ssa.BinOp)
	if !ok {
		return nil, false
	}
	truth := succ == 0
	var other ssa.Value
	op := b.Op
	switch {
	case lenOfField(b.X, f):
		other = b.Y
	case lenOfField(b.Y, f):
		other = b.X
		switch op { // normalise to len OP other
		case token.LSS:
			op = token.GTR
		case token.GTR:
			op = token.LSS
		case token.LEQ:
			op = token.GEQ
		case token.GEQ:
			op = token.LEQ
		}
	default:
		return nil, false
	}
	switch op {
	case token.GTR: // len > other : false edge means len <= other
		return other, !truth
	case token.LEQ:
		return other, truth
	case token.EQL: // len == other: exhausted on true edge (index never exceeds len)
		return other, truth
	case token.NEQ:
		return other, !truth
	}
	return nil, false
}

func c01Retire(r *core.Run, a *svcAnchors, e *lockEngine, root []*ssa.Function) {
	p := r.P
	const (
		stale   = 0
		emptyOK = 1
	)
	n := 0
	for _, ac := range core.FieldAccesses(root, func(f core.Field) bool { return f == a.RWork }) {
		if ac.Kind != "delete" {
			continue
		}
		n++
		fn := ac.Fn
		// the unregistering may sit in a private helper of the drain function (w.retire()): it is
		// judged in place, from the helper's only caller
		top := fn
		if cs := p.CallersOf(fn); p.IsPrivateHelper(fn) && len(cs) == 1 && cs[0].Parent() != fn {
			top = cs[0].Parent()
		}
		// index values used on the queue in this function
		idxVals := map[ssa.Value]bool{}
		for _, f2 := range []*ssa.Function{top, fn} {
			for _, b := range f2.Blocks {
				for _, in := range b.Instrs {
					if ia, ok := in.(*ssa.IndexAddr); ok {
						if f, ok := core.LoadedField(ia.X); ok && f == a.WQueue {
							idxVals[ia.Index] = true
						}
					}
				}
			}
		}
		fl := &core.Flow{Fn: top, Entry: core.StateSet(0).Add(stale), Inline: func(cal *ssa.Function) bool { return cal == fn && top != fn }}
		fl.Transfer = func(in ssa.Instruction, s int) core.StateSet {
			if e.isRelease(in) {
				return core.StateSet(0).Add(stale)
			}
			if c, ok := in.(*ssa.Call); ok && e.lockOp(c) == "lock" {
				return core.StateSet(0).Add(stale)
			}
			return core.StateSet(0).Add(s)
		}
		fl.Branch = func(iff *ssa.If, succ int, s int) (int, bool) {
			if other, ok := exhaustedEdge(iff, succ, a.WQueue); ok {
				if ok && (idxVals[other] || len(idxVals) == 0) {
					return emptyOK, true
				}
			}
			if _, isLen := exhaustedEdge(iff, 1-succ, a.WQueue); isLen {
				return stale, true
			}
			return s, true
		}
		res := fl.Run()
		st := res.Before[ac.Instr]
		r.Check(st.Only(emptyOK), "A1", core.FuncName(fn), "delete("+a.RWork.String()+")", p.InstrPos(ac.Instr),
			"every path to the unregistering has 'len("+a.WQueue.String()+") <= consumed index' established after the last acquire with no release in between",
			"a path reaches the unregistering without a fresh emptiness check in the same critical section: a callback appended in the window would be lost or run concurrently with a new work item of the same group")
		// the delete key is the item's own id
		ci := ac.Instr.(ssa.CallInstruction)
		kf, ok := core.LoadedField(ci.Common().Args[1])
		r.Check(ok && kf == a.WID, "A1", core.FuncName(fn), "delete-key-is-item-id", p.InstrPos(ac.Instr), "key = "+a.WID.String(), "delete key is not the work item's own id: "+valDesc(ci.Common().Args[1]))
	}
	if n == 0 {
		r.Bad("A1", "anchor", "no-unregister-site", "-", "no delete on "+a.RWork.String()+": finished groups are never unregistered")
	}
}

func c01Enqueue(r *core.Run, a *svcAnchors, e *lockEngine) {
	p := r.P
	fn := a.Enqueue
	fname := core.FuncName(fn)
	// group parameter: the string parameter of enqueue
	var gparam *ssa.Parameter
	for _, prm := range fn.Params[1:] {
		if b, ok := prm.Type().Underlying().(*types.Basic); ok && b.Kind() == types.String {
			gparam = prm
		}
	}
	if gparam == nil {
		r.Unres("A2", "enqueue.group-param", "no string parameter")
		return
	}
	// the lookup
	var lookup *ssa.Lookup
	for _, b := range fn.Blocks {
		for _, in := range b.Instrs {
			if lk, ok := in.(*ssa.Lookup); ok {
				if f, ok := core.LoadedField(lk.X); ok && f == a.RWork {
					if lookup != nil {
						r.Bad("A2", fname, "single-lookup", p.InstrPos(lk), "more than one lookup on "+a.RWork.String())
					}
					lookup = lk
				}
			}
		}
	}
	if lookup != nil {
		// the lookup is here but the registration / push sits in a private helper: judge the unit
		pushHere, pushInHelper := false, false
		for _, ac := range core.FieldAccesses(p.Helpers(fn), func(f core.Field) bool { return f == a.WorkQueue }) {
			if ac.Kind != "store" {
				continue
			}
			if c, ok := ac.Instr.(*ssa.Store).Val.(*ssa.Call); ok && core.CalleeName(c) == "builtin:append" {
				if ac.Fn == fn {
					pushHere = true
				} else {
					pushInHelper = true
				}
			}
		}
		if !pushHere && pushInHelper {
			c01EnqueueUnit(r, a, e, gparam)
			return
		}
	}
	if lookup == nil {
		// the steps of the critical section may be spread over private helpers (look up, create,
		// register): judge the unit as a whole
		for _, h := range p.Helpers(fn) {
			if h == fn {
				continue
			}
			for _, b := range h.Blocks {
				for _, in := range b.Instrs {
					if lk, ok := in.(*ssa.Lookup); ok {
						if f, ok := core.LoadedField(lk.X); ok && f == a.RWork {
							c01EnqueueUnit(r, a, e, gparam)
							return
						}
					}
				}
			}
		}
		r.Bad("A2", fname, "lookup("+a.RWork.String()+")", p.Pos(fn.Pos()), "enqueue does not look the group up in the registry: the create-vs-append decision cannot depend on a pending work item")
		return
	}
	r.Check(lookup.CommaOk && core.Strip(lookup.Index) == ssa.Value(gparam), "A2", fname, "lookup-keyed-by-group-param", p.InstrPos(lookup),
		"lookup key is the group parameter", "lookup on the registry is not keyed by the group parameter (or ignores presence)")

	// state bits: b0 lookedUp, b1 registered, grouped: b2 yes, b3 no
	const (
		bLooked   = 1
		bReg      = 2
		bGYes     = 4
		bGNo      = 8
		bEver     = 16 // the lookup was executed at some point on this path
		bNotFound = 32 // the path took the not-found edge of the lookup's presence result
	)
	isGroupCmp := func(iff *ssa.If) (bool, bool) { // (isCmp, trueMeansNonEmpty)
		ci := core.Cond(iff.Cond)
		if ci.Kind != "constcmp" || core.Strip(ci.X) != ssa.Value(gparam) || ci.Const == nil || ci.Const.ExactString() != `""` {
			return false, false
		}
		nonEmptyOnTrue := ci.Op == token.NEQ
		if ci.Negate {
			nonEmptyOnTrue = !nonEmptyOnTrue
		}
		return ci.Op == token.NEQ || ci.Op == token.EQL, nonEmptyOnTrue
	}
	fl := &core.Flow{Fn: fn, Entry: core.StateSet(0).Add(0)}
	fl.Transfer = func(in ssa.Instruction, s int) core.StateSet {
		if e.isRelease(in) {
			return core.StateSet(0).Add(s &^ (bLooked | bReg))
		}
		switch x := in.(type) {
		case *ssa.Call:
			if e.lockOp(x) == "lock" {
				return core.StateSet(0).Add(s &^ (bLooked | bReg))
			}
		case *ssa.Lookup:
			if x == lookup {
				return core.StateSet(0).Add((s | bLooked | bEver) &^ bReg &^ bNotFound)
			}
		case *ssa.MapUpdate:
			if f, ok := core.LoadedField(x.Map); ok && f == a.RWork && core.Strip(x.Key) == ssa.Value(gparam) {
				return core.StateSet(0).Add(s | bReg)
			}
		}
		return core.StateSet(0).Add(s)
	}
	var okVal func(v ssa.Value, d int) bool
	okVal = func(v ssa.Value, d int) bool {
		if d > 6 {
			return false
		}
		switch x := v.(type) {
		case *ssa.Extract:
			return x.Tuple == ssa.Value(lookup) && x.Index == 1
		case *ssa.Phi:
			for _, ed := range x.Edges {
				if okVal(ed, d+1) {
					return true
				}
			}
		case *ssa.UnOp:
			if x.Op == token.NOT {
				return okVal(x.X, d+1)
			}
		}
		return false
	}
	fl.Branch = func(iff *ssa.If, succ int, s int) (int, bool) {
		if is, neOnTrue := isGroupCmp(iff); is {
			nonEmpty := (succ == 0) == neOnTrue
			if nonEmpty {
				if s&bGNo != 0 {
					return s, false
				}
				return s | bGYes, true
			}
			if s&bGYes != 0 {
				return s, false
			}
			return s | bGNo, true
		}
		// the presence flag can only be true on a path that executed the lookup
		// (its other phi inputs are the constant false)
		if okPhiOnlyFromLookup(iff.Cond, lookup) && succ == 0 && s&bEver == 0 {
			return s, false
		}
		// the presence result of the lookup (or the flag that carries it): remember the not-found edge
		{
			c, neg := iff.Cond, false
			for {
				u, ok := c.(*ssa.UnOp)
				if !ok || u.Op != token.NOT {
					break
				}
				c, neg = u.X, !neg
			}
			if okVal(c, 0) {
				present := (succ == 0) != neg
				if present {
					return s &^ bNotFound, true
				}
				return s | bNotFound, true
			}
		}
		return s, true
	}
	res := fl.Run()
	stDesc := func(ss core.StateSet) string {
		var parts []string
		for _, s := range ss.List() {
			d := []string{}
			if s&bGYes != 0 {
				d = append(d, "grouped")
			}
			if s&bGNo != 0 {
				d = append(d, "parallel")
			}
			if s&bLooked != 0 {
				d = append(d, "lookedUp")
			}
			if s&bReg != 0 {
				d = append(d, "registered")
			}
			parts = append(parts, "["+strings.Join(d, ",")+"]")
		}
		return strings.Join(parts, "|")
	}

	// derivesFromLookup: value is (phi/extract of) the lookup result #0
	var fromLookup func(v ssa.Value, d int) bool
	fromLookup = func(v ssa.Value, d int) bool {
		if d > 6 {
			return false
		}
		switch x := v.(type) {
		case *ssa.Extract:
			return x.Tuple == ssa.Value(lookup) && x.Index == 0
		case *ssa.Phi:
			for _, ed := range x.Edges {
				if fromLookup(ed, d+1) {
					return true
				}
			}
		}
		return false
	}
	okEdge := func(in ssa.Instruction) (found bool, onTrue bool) {
		for _, ed := range dominatingEdges(in) {
			c := ed.If.Cond
			neg := false
			for {
				if u, ok := c.(*ssa.UnOp); ok && u.Op == token.NOT {
					neg = !neg
					c = u.X
					continue
				}
				break
			}
			if okVal(c, 0) {
				t := ed.Succ == 0
				if neg {
					t = !t
				}
				return true, t
			}
		}
		return false, false
	}

	nAppendExisting, nPush := 0, 0
	for _, b := range fn.Blocks {
		for _, in := range b.Instrs {
			st, ok := in.(*ssa.Store)
			if !ok {
				continue
			}
			f, ok := core.FieldOf(st.Addr)
			if !ok {
				continue
			}
			call, isAppend := st.Val.(*ssa.Call)
			if isAppend && core.CalleeName(call) != "builtin:append" {
				isAppend = false
			}
			switch {
			case f == a.WQueue && !freshBase(st.Addr, st):
				nAppendExisting++
				s := res.Before[st]
				allLooked := !s.Empty()
				for _, x := range s.List() {
					if x&bLooked == 0 {
						allLooked = false
					}
				}
				base := st.Addr.(*ssa.FieldAddr).X
				found, onTrue := okEdge(st)
				ok1 := allLooked && fromLookup(base, 0) && found && onTrue && isAppend
				r.Check(ok1, "A2", fname, "append-to-existing-item", p.InstrPos(st),
					"callback appended to the looked-up item in the lookup's critical section, on the found edge",
					fmt.Sprintf("append to a pending item is not tied to the lookup: state=%s itemFromLookup=%v onFoundEdge=%v append=%v", stDesc(s), fromLookup(base, 0), found && onTrue, isAppend))
				if isAppend {
					lf, ok := core.LoadedField(call.Call.Args[0])
					r.Check(ok && lf == a.WQueue, "A2", fname, "append-extends-same-queue", p.InstrPos(st), "append(load "+a.WQueue.String()+", cb)", "the stored slice is not an extension of the item's own queue")
				}
			case f == a.WorkQueue && isAppend:
				nPush++
				s := res.Before[st]
				good := !s.Empty()
				notFoundPath := true
				for _, x := range s.List() {
					switch {
					case x&bGNo != 0: // parallel: no registration required
					case x&bLooked != 0 && x&bReg != 0:
						if x&bNotFound == 0 {
							notFoundPath = false
						}
					default:
						good = false
					}
				}
				// on the not-found edge: by dominance, or - when the lookup is nested under the group
				// test and the push follows the merge - on every grouped path (typestate)
				found, onTrue := okEdge(st)
				found, onTrue = found || notFoundPath, onTrue && !notFoundPath
				r.Check(good && found && !onTrue, "A2", fname, "register-before-push", p.InstrPos(st),
					"new item pushed on the not-found edge; for a non-empty group id it was registered after the lookup in the same critical section",
					fmt.Sprintf("a new work item can be pushed for a group without being registered in the lookup's critical section (state=%s, onNotFoundEdge=%v): two workers could run the same group", stDesc(s), found && !onTrue))
				// the pushed element is the fresh item, and the registered value is the same item
				var pushed ssa.Value
				if len(call.Call.Args) == 2 {
					pushed = elemOfVarargs(call.Call.Args[1])
				}
				isNew := pushed != nil && isFreshObject(pushed, 0)
				sameAsReg := true
				for _, bb := range fn.Blocks {
					for _, i2 := range bb.Instrs {
						if mu, ok := i2.(*ssa.MapUpdate); ok {
							if mf, ok := core.LoadedField(mu.Map); ok && mf == a.RWork && mu.Value != pushed {
								sameAsReg = false
							}
						}
					}
				}
				r.Check(isNew && sameAsReg, "A2", fname, "pushed-item-is-the-registered-new-item", p.InstrPos(st), "pushed value is the freshly allocated item that was registered", "pushed value and registered value differ or the pushed item is not fresh")
			}
		}
	}
	if nAppendExisting == 0 {
		r.Bad("A2", fname, "append-to-existing-item", p.Pos(fn.Pos()), "no path appends the callback to a pending item of the group")
	}
	if nPush == 0 {
		r.Bad("A2", fname, "register-before-push", p.Pos(fn.Pos()), "no push of a new work item")
	}
	// the new item's queue holds exactly the callback: store to fresh W.queue derives from cb param
	// (checked by C02.N1)
}

// okPhiOnlyFromLookup: cond is the lookup's presence result, possibly merged
// by a phi whose other inputs are the constant false.
func okPhiOnlyFromLookup(c ssa.Value, lookup *ssa.Lookup) bool {
	switch x := c.(type) {
	case *ssa.Extract:
		return x.Tuple == ssa.Value(lookup) && x.Index == 1
	case *ssa.Phi:
		n := 0
		for _, ed := range x.Edges {
			if isConstBool(ed, false) {
				continue
			}
			if !okPhiOnlyFromLookup(ed, lookup) {
				return false
			}
			n++
		}
		return n > 0
	}
	return false
}

// sameCellLoad: a and b are the same value, or loads of the same local cell
// in one block with no store to the cell in between (go/ssa does no CSE and
// captured variables live in cells).
func sameCellLoad(a, b ssa.Value) bool {
	if a == b {
		return true
	}
	ua, ok1 := a.(*ssa.UnOp)
	ub, ok2 := b.(*ssa.UnOp)
	if !ok1 || !ok2 || ua.Op != token.MUL || ub.Op != token.MUL || ua.X != ub.X || ua.Block() != ub.Block() {
		return false
	}
	if _, ok := ua.X.(*ssa.Alloc); !ok {
		return false
	}
	in := false
	for _, x := range ua.Block().Instrs {
		if x == ssa.Instruction(ua) || x == ssa.Instruction(ub) {
			if in {
				return true
			}
			in = true
			continue
		}
		if in {
			if st, ok := x.(*ssa.Store); ok && st.Addr == ua.X {
				return false
			}
			if _, ok := x.(ssa.CallInstruction); ok {
				// a call could write the cell only if it escaped to a closure created earlier; the
				// closure capturing it here is created after both loads (checked by position)
			}
		}
	}
	return false
}

// elemOfVarargs: for append(x, s...) where s = slice of a 1-element array
// allocated for varargs, return the stored element.
func elemOfVarargs(v ssa.Value) ssa.Value {
	sl, ok := v.(*ssa.Slice)
	if !ok {
		return nil
	}
	al, ok := sl.X.(*ssa.Alloc)
	if !ok {
		return nil
	}
	if refs := al.Referrers(); refs != nil {
		for _, r := range *refs {
			if ia, ok := r.(*ssa.IndexAddr); ok {
				if rr := ia.Referrers(); rr != nil {
					for _, x := range *rr {
						if st, ok := x.(*ssa.Store); ok && st.Addr == ia {
							return st.Val
						}
					}
				}
			}
		}
	}
	return nil
}

func c01Pop(r *core.Run, a *svcAnchors, e *lockEngine) {
	p := r.P
	fn := a.Worker
	fname := core.FuncName(fn)
	const (
		unk      = 0
		nonEmpty = 1
		read0    = 2
		dropped  = 3
	)
	fl := &core.Flow{Fn: fn, Entry: core.StateSet(0).Add(unk), Inline: inlineHelpers(a, a.Drain), Tags: true}
	fl.Transfer = func(in ssa.Instruction, s int) core.StateSet {
		if e.isRelease(in) {
			if c, ok := in.(*ssa.Call); ok {
				if cal := c.Common().StaticCallee(); cal != nil && cal != a.Drain && cal.Pkg == fn.Pkg && e.lockOp(c) == "" {
					// a helper that may release is analysed in line (its own Unlock/Wait reset the state)
					return core.StateSet(0).Add(s)
				}
			}
			return core.StateSet(0).Add(unk)
		}
		switch x := in.(type) {
		case *ssa.IndexAddr:
			if f, ok := core.LoadedField(x.X); ok && f == a.WorkQueue {
				if i, ok := core.ConstInt(x.Index); ok && i == 0 && s == nonEmpty {
					return core.StateSet(0).Add(read0)
				}
			}
		case *ssa.Store:
			if f, ok := core.FieldOf(x.Addr); ok && f == a.WorkQueue && s == read0 {
				return core.StateSet(0).Add(dropped)
			}
		}
		return core.StateSet(0).Add(s)
	}
	fl.Branch = func(iff *ssa.If, succ int, s int) (int, bool) {
		ci := core.Cond(iff.Cond)
		if ci.Kind == "lencmp" && ci.HasFld && ci.Field == a.WorkQueue && ci.Const != nil && ci.Const.ExactString() == "0" {
			truth := succ == 0
			if ci.Negate {
				truth = !truth
			}
			// len == 0 false edge, len != 0 true edge, len > 0 true edge
			ne := (ci.Op == token.EQL && !truth) || (ci.Op == token.NEQ && truth) || (ci.Op == token.GTR && truth)
			if ne {
				return nonEmpty, true // a fresh observation inside the current critical section
			}
		}
		return s, true
	}
	res := fl.Run()
	isHeadLoad := func(v ssa.Value) bool {
		u, ok := v.(*ssa.UnOp)
		if !ok {
			return false
		}
		ia, ok := u.X.(*ssa.IndexAddr)
		if !ok {
			return false
		}
		f, ok := core.LoadedField(ia.X)
		i, isC := core.ConstInt(ia.Index)
		return ok && f == a.WorkQueue && isC && i == 0
	}
	for _, f2 := range p.Scope(fn) {
		if f2.Parent() != nil {
			continue
		}
		for _, b := range f2.Blocks {
			for _, in := range b.Instrs {
				if x, ok := in.(*ssa.IndexAddr); ok {
					if f, ok := core.LoadedField(x.X); ok && f == a.WorkQueue {
						st := res.Before[x]
						i, isC := core.ConstInt(x.Index)
						r.Check(isC && i == 0 && st.Only(nonEmpty), "A3", fname, "read-head("+a.WorkQueue.String()+"[0])", p.InstrPos(x),
							"head read right after 'non-empty' was observed, no release in between", "the work queue is indexed without a fresh non-empty check in the same critical section (state "+fmt.Sprint(st.List())+")")
					}
				}
				if x, ok := in.(*ssa.Store); ok {
					if f, ok := core.FieldOf(x.Addr); ok && f == a.WorkQueue {
						st := res.Before[x]
						r.Check(st.Only(read0), "A3", fname, "drop-head-after-read:"+storeShape(x.Val, a), p.InstrPos(x),
							"the store that drops the head follows the head read in the same critical section", "the work queue is rewritten without the head having been read in this critical section (state "+fmt.Sprint(st.List())+")")
					}
				}
				if c, ok := in.(*ssa.Call); ok && c.Common().StaticCallee() == a.Drain {
					st := res.Before[c]
					lk := e.stateAt(c)
					argIsHead := true
					lvs := valueLeaves(c.Common().Args[0], nil, 0)
					nHead := 0
					for _, lf := range lvs {
						if k, isK := lf.V.(*ssa.Const); isK && k.IsNil() {
							continue // the "nothing to take" result of a pop helper, returned with ok == false
						}
						if !isHeadLoad(lf.V) {
							argIsHead = false
						} else {
							nHead++
						}
					}
					argIsHead = argIsHead && nHead > 0
					r.Check(st.Only(dropped) && lk.Only(lkHeld) && len(lvs) > 0 && argIsHead, "A3", fname, "drain(popped-head)", p.InstrPos(c),
						"drain is called on the element read at [0], after it was dropped from the queue, lock Held", fmt.Sprintf("drain call not tied to an atomic pop: popState=%v lock=%s argIsHead=%v", st.List(), lkStr(lk), argIsHead))
				}
			}
		}
	}
	// drain entered and left Held
	if a.Drain == a.Worker {
		// the drain loop is written out in the worker: there is no separate function to enter or leave
		r.OK("A3", core.FuncName(a.Drain), "entry-and-exit-Held", p.Pos(a.Drain.Pos()), "the drain loop is part of the worker loop; its lock states are judged by L1/L2")
		return
	}
	r.Check(e.entry[a.Drain].Only(lkHeld) && e.exit[a.Drain].Only(lkHeld), "A3", core.FuncName(a.Drain), "entry-and-exit-Held", p.Pos(a.Drain.Pos()),
		"drain is entered and left with the lock Held (retire happens in the worker's critical section)", "drain entry="+lkStr(e.entry[a.Drain])+" exit="+lkStr(e.exit[a.Drain]))
}

func storeShape(v ssa.Value, a *svcAnchors) string {
	switch x := v.(type) {
	case *ssa.Slice:
		if f, ok := core.LoadedField(x.X); ok {
			lo, hi := "", ""
			if x.Low != nil {
				if i, ok := core.ConstInt(x.Low); ok {
					lo = fmt.Sprint(i)
				} else {
					lo = "?"
				}
			}
			if x.High != nil {
				if i, ok := core.ConstInt(x.High); ok {
					hi = fmt.Sprint(i)
				} else {
					hi = "?"
				}
			}
			return f.Name + "[" + lo + ":" + hi + "]"
		}
	case *ssa.Const:
		if x.IsNil() {
			return "nil"
		}
	case *ssa.Call:
		return core.CalleeName(x)
	}
	return "other"
}

// ---- F1 --------------------------------------------------------------------

var callbackParamTypes = map[string]bool{
	"AccessRequest": true, "GetRequest": true, "ModelRequest": true, "CollectionRequest": true,
	"CallRequest": true, "AuthRequest": true, "NewRequest": true, "QueryRequest": true,
}

// isCallbackKind classifies a dynamic call as one of the property's callback kinds.
func isCallbackKind(c ssa.CallInstruction, a *svcAnchors) (string, bool) {
	if !core.IsDynamic(c) {
		return "", false
	}
	sig, ok := c.Common().Value.Type().Underlying().(*types.Signature)
	if !ok {
		return "", false
	}
	if isQueueElem(c.Common().Value, a.WQueue) {
		return "queue-element", true
	}
	if sig.Params().Len() == 1 {
		tn := core.TypeName(sig.Params().At(0).Type())
		if callbackParamTypes[tn] {
			return "handler(" + tn + ")", true
		}
	}
	// With*/WithGroup callbacks: value is a parameter (possibly captured) of an exported method of S
	if v := callbackOrigin(c.Common().Value); v != nil {
		fn := v.Parent()
		if fn.Parent() == nil && fn.Object() != nil && fn.Object().Exported() && fn.Signature.Recv() != nil && core.TypeName(fn.Signature.Recv().Type()) == a.S {
			return "api-callback(" + fn.Name() + "." + v.Name() + ")", true
		}
	}
	return "", false
}

// callbackOrigin traces a function value to the parameter it came from
// (through capture cells), or nil.
func callbackOrigin(v ssa.Value) *ssa.Parameter {
	for d := 0; d < 6; d++ {
		switch x := v.(type) {
		case *ssa.Parameter:
			return x
		case *ssa.FreeVar:
			b := core.BindingOf(x)
			if b == nil {
				return nil
			}
			v = b
		case *ssa.UnOp:
			if x.Op != token.MUL {
				return nil
			}
			v = x.X
		case *ssa.Alloc:
			var src ssa.Value
			if refs := x.Referrers(); refs != nil {
				for _, r := range *refs {
					if st, ok := r.(*ssa.Store); ok && st.Addr == x {
						src = st.Val
					}
				}
			}
			if src == nil {
				return nil
			}
			v = src
		default:
			return nil
		}
	}
	return nil
}

// enqueuedClosure: fn is an anonymous function whose only use is as the
// callback argument of a (non-go, non-defer) static call to enqueue.
func enqueuedClosure(fn *ssa.Function, a *svcAnchors, root []*ssa.Function) bool {
	par := fn.Parent()
	if par == nil {
		return false
	}
	// handedOnToEnqueue: the closure is the result of its (unexported, never address-taken) maker, and
	// every call of the maker is used only as the callback argument of enqueue
	handedOnToEnqueue := func() bool {
		if par.Parent() != nil || par.Object() == nil || par.Object().Exported() {
			return false
		}
		cs := callsTo(root, par)
		if len(cs) == 0 {
			return false
		}
		for _, c := range cs {
			cv, ok := c.(*ssa.Call)
			if !ok || cv.Referrers() == nil {
				return false
			}
			n := 0
			for _, rf := range *cv.Referrers() {
				if _, ok := rf.(*ssa.DebugRef); ok {
					continue
				}
				ec, ok := rf.(*ssa.Call)
				if !ok || ec.Common().StaticCallee() != a.Enqueue {
					return false
				}
				n++
			}
			if n == 0 {
				return false
			}
		}
		return true
	}
	uses, enq := 0, 0
	for _, b := range par.Blocks {
		for _, in := range b.Instrs {
			var val ssa.Value
			if mc, ok := in.(*ssa.MakeClosure); ok && mc.Fn == fn {
				val = mc
			}
			if val != nil {
				if refs := val.(*ssa.MakeClosure).Referrers(); refs != nil {
					for _, rf := range *refs {
						if _, ok := rf.(*ssa.DebugRef); ok {
							continue
						}
						uses++
						if c, ok := rf.(*ssa.Call); ok && c.Common().StaticCallee() == a.Enqueue {
							enq++
						}
						if _, isRet := rf.(*ssa.Return); isRet && handedOnToEnqueue() {
							enq++
						}
					}
				}
			}
			// closure without free variables: the function itself is the operand
			if c, ok := in.(ssa.CallInstruction); ok {
				for _, arg := range c.Common().Args {
					if arg == ssa.Value(fn) {
						uses++
						if _, isCall := c.(*ssa.Call); isCall && c.Common().StaticCallee() == a.Enqueue {
							enq++
						}
					}
				}
			}
		}
	}
	return uses > 0 && uses == enq
}

// workerOnly: fn runs only on a worker as (part of) a queued callback.
func workerOnly(fn *ssa.Function, a *svcAnchors, root []*ssa.Function, seen map[*ssa.Function]bool) (bool, string) {
	if seen[fn] {
		return true, ""
	}
	seen[fn] = true
	if fn == a.Drain {
		return true, ""
	}
	if fn.Parent() != nil {
		if enqueuedClosure(fn, a, root) {
			return true, ""
		}
		return false, core.FuncName(fn) + " is a closure not handed (only) to enqueue"
	}
	if fn.Object() != nil && fn.Object().Exported() {
		return false, core.FuncName(fn) + " is exported API"
	}
	cs := callsTo(root, fn)
	if len(cs) == 0 {
		return false, core.FuncName(fn) + " has no static caller"
	}
	for _, c := range cs {
		if core.IsGo(c) {
			return false, core.FuncName(fn) + " is started with go in " + core.FuncName(c.Parent())
		}
		if ok, why := workerOnly(c.Parent(), a, root, seen); !ok {
			return false, why
		}
	}
	return true, ""
}

func c01Funnel(r *core.Run, rule string, a *svcAnchors, root []*ssa.Function) {
	p := r.P
	// drain <- workerLoop only
	for _, c := range callsTo(root, a.Drain) {
		if a.Drain == a.Worker {
			// the drain loop is written out in the worker loop; who starts workers is judged by C03.S4
			r.OK(rule, core.FuncName(c.Parent()), "calls-drain", p.InstrPos(c), "the drain loop is part of the worker loop")
			continue
		}
		r.Check(c.Parent() == a.Worker && !core.IsGo(c), rule, core.FuncName(c.Parent()), "calls-drain", p.InstrPos(c), "drain is called from the worker loop", "drain is called from outside the worker loop")
	}
	// closures stored into Handler fields are handler wrappers (GetModel/GetCollection)
	handlerWrapper := func(fn *ssa.Function) bool {
		var storedToHandler func(v ssa.Value, d int) bool
		storedToHandler = func(v ssa.Value, d int) bool {
			refs := v.Referrers()
			if refs == nil || d > 3 {
				return false
			}
			for _, rf := range *refs {
				switch x := rf.(type) {
				case *ssa.Store:
					if f, ok := core.FieldOf(x.Addr); ok && f.Struct == "Handler" && x.Val == v {
						return true
					}
				case *ssa.ChangeType:
					if storedToHandler(x, d+1) {
						return true
					}
				}
			}
			return false
		}
		for _, mc := range core.ClosureSites(fn) {
			if storedToHandler(mc, 0) {
				return true
			}
		}
		return false
	}
	for _, fn := range root {
		for _, c := range core.Calls(fn) {
			kind, ok := isCallbackKind(c, a)
			if !ok {
				continue
			}
			fname := core.FuncName(fn)
			construct := "callback-call:" + kind
			switch {
			case core.IsGo(c):
				r.Bad(rule, fname, construct, p.InstrPos(c), "callback started on its own goroutine: it escapes per-group serialisation")
			case handlerWrapper(fn):
				r.ExemptObl(rule, fname, construct, p.InstrPos(c), "typed-handler wrapper closure stored in Handler.Get: it is itself invoked as a handler by the dispatcher")
			case strings.Contains(kind, "QueryRequest") && (fn.Name() == "QueryEvent" || queryEventAbortHelper(p, fn) != nil):
				// failed-subscribe edge: must be on the subscription-error edge (the call may sit in a small
				// helper that QueryEvent calls on that edge: abortQueryEvent(cb, err))
				at := ssa.Instruction(c)
				if site := queryEventAbortHelper(p, fn); site != nil {
					at = site
				}
				onErr := false
				for _, ed := range dominatingEdges(at) {
					if strings.Contains(describeCond(ed), "!=nil") {
						onErr = true
					}
				}
				if onErr {
					r.ExemptObl(rule, fname, construct, p.InstrPos(c), "documented: on a failed subscribe the callback is invoked with nil directly, on the caller's goroutine (the caller is already inside the group's callback)")
				} else {
					r.Bad(rule, fname, construct, p.InstrPos(c), "query callback invoked directly outside the failed-subscribe edge")
				}
			case fn.Signature.Recv() != nil && core.TypeName(fn.Signature.Recv().Type()) == "getRequest":
				r.ExemptObl(rule, fname, construct, p.InstrPos(c), "nested Value(): the get handler runs synchronously inside the calling callback (documented: only call from the resource's group)")
			default:
				ok, why := workerOnly(fn, a, root, map[*ssa.Function]bool{})
				r.Check(ok, rule, fname, construct, p.InstrPos(c), "reachable only through a closure handed to enqueue / the drain loop", "callback can run outside the per-group queue: "+why)
			}
		}
	}
	// every use of a With*-style callback parameter: called inside an enqueued closure (above) or passed directly to enqueue
	for _, fn := range root {
		if fn.Parent() != nil || fn.Object() == nil || !fn.Object().Exported() || fn.Signature.Recv() == nil || core.TypeName(fn.Signature.Recv().Type()) != a.S {
			continue
		}
		if !strings.HasPrefix(fn.Name(), "With") {
			continue
		}
		reach := false
		for _, f2 := range withAnon(fn) {
			for _, c := range core.Calls(f2) {
				if c.Common().StaticCallee() == a.Enqueue {
					reach = true
				}
			}
		}
		r.Check(reach, rule, core.FuncName(fn), "reaches-enqueue", p.Pos(fn.Pos()), "the API entry point submits through enqueue", "the API entry point never calls enqueue")
	}
}

// ---- F2 --------------------------------------------------------------------

func c01GroupArg(r *core.Run, rule string, a *svcAnchors, root []*ssa.Function) {
	p := r.P
	matchGroup := core.Field{Struct: "Match", Name: "Group"}
	resGroup := core.Field{Struct: "resource", Name: "group"}
	var gidx int = -1
	for i, prm := range a.Enqueue.Params {
		if b, ok := prm.Type().Underlying().(*types.Basic); ok && b.Kind() == types.String {
			gidx = i
		}
	}
	for _, c := range callsTo(root, a.Enqueue) {
		arg := c.Common().Args[gidx]
		fname := core.FuncName(c.Parent())
		desc, ok := classifyGroupArg(arg, c, a, matchGroup)
		r.Check(ok, rule, fname, "enqueue-group-arg:"+desc, p.InstrPos(c), "group id is "+desc, "group id passed to enqueue is not the routed group: "+desc)
	}
	// (*resource).Group returns resource.group
	for _, fn := range methodsOf(p, "", "resource") {
		if fn.Name() != "Group" {
			continue
		}
		for _, ret := range core.Returns(fn) {
			f, ok := core.LoadedField(ret.Results[0])
			r.Check(ok && f == resGroup, rule, core.FuncName(fn), "returns-resource.group", p.InstrPos(ret), "Group() returns the stored routed group", "Group() returns something other than the stored group")
		}
	}
	// writers of resource.group
	for _, ac := range core.FieldAccesses(root, func(f core.Field) bool { return f == resGroup }) {
		if ac.Kind != "store" {
			continue
		}
		st := ac.Instr.(*ssa.Store)
		f, ok := core.LoadedField(st.Val)
		r.Check(ok && f == matchGroup, rule, core.FuncName(ac.Fn), "store(resource.group)<-Match.Group", p.InstrPos(st), "resource.group is the routed Match.Group", "resource.group written from "+valDesc(st.Val))
	}
	// ... and no resource is built from a routed handler without its group: wherever the handler
	// member of a resource is written, the group member of the same object is written too (a
	// resource without group reports "" - the parallel group - and everything a handler submits
	// through its own request runs beside the group's callbacks)
	resH := core.Field{Struct: "resource", Name: "h"}
	for _, ac := range core.FieldAccesses(root, func(f core.Field) bool { return f == resH }) {
		if ac.Kind != "store" {
			continue
		}
		fa, isFA := ac.Instr.(*ssa.Store).Addr.(*ssa.FieldAddr)
		if !isFA {
			continue
		}
		base := fieldChain(fa.X, 0)
		has := false
		for _, ac2 := range core.FieldAccesses([]*ssa.Function{ac.Fn}, func(f core.Field) bool { return f == resGroup }) {
			if ac2.Kind != "store" {
				continue
			}
			if fa2, ok := ac2.Instr.(*ssa.Store).Addr.(*ssa.FieldAddr); ok && (fa2.X == fa.X || fieldChain(fa2.X, 0) == base) {
				has = true
			}
		}
		r.Check(has, rule, core.FuncName(ac.Fn), "resource-built-with-handler-gets-its-group", p.InstrPos(ac.Instr), "the object whose handler member is written also gets its group member", "a resource is built from a routed handler without its group member being set: Group() reports the empty (parallel) group, so WithResource / QueryEvent on this request queue under no group at all and run concurrently with the group's other callbacks")
	}
	// writers of Match.Group: result of (group).toString on the matched node's handler group
	for _, ac := range core.FieldAccesses(root, func(f core.Field) bool { return f == matchGroup }) {
		if ac.Kind != "store" {
			continue
		}
		st := ac.Instr.(*ssa.Store)
		// the value stored, or - when the Match is built by a helper - what its call sites hand in
		vals := paramArgs(p, st.Val, 0)
		allGood := len(vals) > 0
		for _, sv := range vals {
			c, ok := core.Strip(sv).(*ssa.Call)
			good := ok && c.Common().StaticCallee() != nil && isGroupToString(c.Common().StaticCallee())
			if good {
				gf, ok := core.LoadedField(c.Common().Args[0])
				// the registered handler's member of the template type, whatever it is called
				good = ok && gf.Struct == "regHandler" && len(c.Common().StaticCallee().Params) > 0 && types.Identical(c.Common().Args[0].Type(), c.Common().StaticCallee().Params[0].Type())
			}
			// the name handed to toString is what an unset group defaults to: it must be the looked-up
			// resource name itself (the lookup's string parameter), not a remainder of it
			if good && len(c.Common().Args) > 1 {
				nameOK := false
				for _, av := range paramArgs(p, core.Strip(c.Common().Args[1]), 0) {
					if prm, ok := core.Strip(av).(*ssa.Parameter); ok && isStringType(prm.Type()) && prm.Parent().Object() != nil && prm.Parent().Object().Exported() {
						nameOK = true
					} else {
						nameOK = false
						break
					}
				}
				r.Check(nameOK, rule, core.FuncName(c.Parent()), "default-group<-full-resource-name", p.InstrPos(c), "an unset group defaults to the full resource name", "the group template is evaluated with "+valDesc(c.Common().Args[1])+" instead of the full resource name: a handler without a Group option gets the wrong (possibly empty = parallel) worker group")
			}
			if !good {
				allGood = false
			}
		}
		r.Check(allGood, rule, core.FuncName(ac.Fn), "store(Match.Group)<-regHandler.group.toString", p.InstrPos(st), "Match.Group is the registered group template evaluated on the name", "Match.Group written from "+valDesc(st.Val))
	}
	c01ParallelGroup(r, rule)
}

// c01ParallelGroup: registration gives a Parallel handler the empty group and parses the template otherwise (C01.F2; shared with C06.R8).
func c01ParallelGroup(r *core.Run, rule string) {
	p := r.P
	// AddHandler: empty (non-nil) group iff Parallel, else parseGroup(h.Group, pattern)
	for _, fn := range methodsOf(p, "", "Mux") {
		if fn.Name() != "AddHandler" {
			continue
		}
		var parse ssa.CallInstruction
		for _, f2 := range p.Scope(fn) {
			for _, c := range core.Calls(f2) {
				cal := c.Common().StaticCallee()
				if cal == nil || cal.Signature.Recv() != nil || cal.Signature.Results().Len() != 1 || core.TypeName(cal.Signature.Results().At(0).Type()) != "group" || cal.Signature.Params().Len() != 2 {
					continue
				}
				strs := 0
				for i := 0; i < 2; i++ {
					if b, ok := cal.Signature.Params().At(i).Type().Underlying().(*types.Basic); ok && b.Kind() == types.String {
						strs++
					}
				}
				if strs == 2 {
					parse = c
				}
			}
		}
		if parse == nil {
			r.Bad(rule, core.FuncName(fn), "parseGroup-unless-Parallel", p.Pos(fn.Pos()), "registration does not parse the group template")
			continue
		}
		okPar := false
		for _, ed := range dominatingEdges(parse) {
			if describeCond(ed) == "!Handler.Parallel" {
				okPar = true
			}
		}
		gf, ok := core.LoadedField(parse.Common().Args[0])
		r.Check(okPar && ok && gf == core.Field{Struct: "Handler", Name: "Group"}, rule, core.FuncName(fn), "parseGroup-unless-Parallel", p.InstrPos(parse),
			"group template parsed from Handler.Group on the !Parallel edge", "group parsing is not conditioned on !Parallel or does not read Handler.Group")
	}
}

func classifyGroupArg(arg ssa.Value, c ssa.CallInstruction, a *svcAnchors, matchGroup core.Field) (string, bool) {
	switch x := arg.(type) {
	case *ssa.Call:
		cc := x.Common()
		if cc.IsInvoke() && cc.Method.Name() == "Group" && core.TypeName(cc.Value.Type()) == "Resource" {
			return "Resource.Group()", true
		}
		if cal := cc.StaticCallee(); cal != nil && cal.Name() == "Group" && cal.Signature.Recv() != nil && core.TypeName(cal.Signature.Recv().Type()) == "resource" {
			return "(*resource).Group()", true
		}
		// a private helper given (name, match): Match.Group of its match parameter on the != nil
		// edge, otherwise its name parameter - and the call site passes the name handed to
		// GetHandler and GetHandler's result
		if cal := cc.StaticCallee(); cal != nil && len(cal.Blocks) > 0 && cal.Pkg == c.Parent().Pkg {
			var getArg ssa.Value
			var getRes ssa.Value
			for _, c2 := range core.Calls(c.Parent()) {
				if g := c2.Common().StaticCallee(); g != nil && g.Name() == "GetHandler" {
					getArg, getRes = c2.Common().Args[1], c2.Value()
				}
			}
			argOf := func(v ssa.Value) ssa.Value {
				for i, prm := range cal.Params {
					if ssa.Value(prm) == v && i < len(cc.Args) {
						return cc.Args[i]
					}
				}
				return nil
			}
			hasMG, hasName, other := false, false, false
			for _, ret := range core.Returns(cal) {
				if len(ret.Results) != 1 {
					other = true
					continue
				}
				for _, src := range phiSources(ret.Results[0]) {
					if u, ok := core.Strip(src.V).(*ssa.UnOp); ok {
						if fa, ok := u.X.(*ssa.FieldAddr); ok {
							if f, ok := core.FieldOf(fa); ok && f == matchGroup && getRes != nil && holdsValue(argOf(fa.X), getRes) {
								for _, dc := range srcEdges(ret, src) {
									if strings.HasSuffix(describeCond(dc), "!=nil") {
										hasMG = true
									}
								}
								continue
							}
						}
					}
					if av := argOf(src.V); av != nil && getArg != nil && (av == getArg || sameCellLoad(av, getArg)) {
						hasName = true
						continue
					}
					other = true
				}
			}
			if hasMG && hasName && !other {
				return "helper(Match.Group when matched, else the resource name)", true
			}
		}
		return "call:" + core.CalleeName(x), false
	case *ssa.Parameter:
		fn := x.Parent()
		if fn.Object() != nil && fn.Object().Exported() && fn.Name() == "WithGroup" {
			return "WithGroup's group parameter", true
		}
		return "param:" + x.Name() + " of " + fn.Name(), false
	case *ssa.Phi:
		// one edge Match.Group (dominated by match != nil), the other the name passed to GetHandler
		var hasMG, hasName bool
		var getArg ssa.Value
		for _, cc := range core.Calls(c.Parent()) {
			if cal := cc.Common().StaticCallee(); cal != nil && cal.Name() == "GetHandler" {
				getArg = cc.Common().Args[1]
			}
		}
		for i, ed := range x.Edges {
			if f, ok := core.LoadedField(ed); ok && f == matchGroup {
				// the predecessor block must be dominated by mh != nil
				pred := x.Block().Preds[i]
				if len(pred.Instrs) > 0 {
					for _, dc := range dominatingEdges(pred.Instrs[0]) {
						if strings.HasSuffix(describeCond(dc), "!=nil") {
							hasMG = true
						}
					}
				}
			} else if getArg != nil && sameCellLoad(ed, getArg) {
				hasName = true
			}
		}
		if hasMG && hasName {
			return "phi(Match.Group when matched, else the resource name)", true
		}
		return fmt.Sprintf("phi(matchGroup=%v,name=%v)", hasMG, hasName), false
	}
	if f, ok := core.LoadedField(arg); ok && f == matchGroup {
		return "Match.Group", true
	}
	// the group stored in the resource at its construction (what Group() returns; F2 checks that the
	// field is only written from Match.Group)
	if f, ok := core.LoadedField(arg); ok && f.Struct == "resource" && f.Name == resourceGroupField(arg) {
		return "resource.group", true
	}
	// (match, group) computed by a private helper: on its matched returns Match.Group, on the
	// others the name it looked up
	if ex, ok := arg.(*ssa.Extract); ok {
		if hc, ok := ex.Tuple.(*ssa.Call); ok {
			cal := hc.Common().StaticCallee()
			if cal != nil && len(cal.Blocks) > 0 && cal.Pkg == c.Parent().Pkg {
				var getArg ssa.Value
				for _, cc := range core.Calls(cal) {
					if g := cc.Common().StaticCallee(); g != nil && g.Name() == "GetHandler" {
						getArg = cc.Common().Args[1]
					}
				}
				hasMG, hasName, other := false, false, false
				for _, ret := range core.Returns(cal) {
					if ex.Index >= len(ret.Results) {
						continue
					}
					for _, src := range phiSources(ret.Results[ex.Index]) {
						if f, ok := core.LoadedField(src.V); ok && f == matchGroup {
							for _, dc := range srcEdges(ret, src) {
								if strings.HasSuffix(describeCond(dc), "!=nil") {
									hasMG = true
								}
							}
							continue
						}
						if getArg != nil && (src.V == getArg || sameCellLoad(src.V, getArg)) {
							hasName = true
							continue
						}
						other = true
					}
				}
				if hasMG && hasName && !other {
					return "helper(Match.Group when matched, else the resource name)", true
				}
				return fmt.Sprintf("helper %s (matchGroup=%v,name=%v,other=%v)", core.FuncName(cal), hasMG, hasName, other), false
			}
		}
	}
	return valDesc(arg), false
}

// c01Restart: exclusion across start/stop/start cycles.
func c01Restart(r *core.Run, rule string, a *svcAnchors, root []*ssa.Function) {
	p := r.P
	ops, _ := stateOps(root, a)
	var started int64 = -1
	started = startedConst(p, a, ops)
	var shutdown *ssa.Function
	var storeStopped ssa.Instruction
	for _, op := range ops {
		if op.Op == "cas" && op.Old == started {
			shutdown = op.Fn
		}
	}
	if shutdown == nil {
		r.Unres(rule, "shutdown", "no function performs the stop transition")
		return
	}
	for _, op := range ops {
		if op.Fn == shutdown && op.Op == "store" {
			storeStopped = op.Instr
		}
	}
	var wait ssa.Instruction
	if ws := workerWaitSites(p, shutdown, a); len(ws) > 0 {
		wait = ws[len(ws)-1]
	}
	r.Check(wait != nil && storeStopped != nil && core.Dominates(wait, storeStopped), rule, core.FuncName(shutdown), "stopped-only-after-all-workers-exited", posOf(p, storeStopped),
		"Store(stopped) is dominated by a plain WaitGroup.Wait on the worker group", "the service can be declared stopped (and served again) while a worker of this run is still inside a callback: after the restart the same group can run on two workers at once")
	firstGo := firstWorkerStart(p, a)
	fresh := false
	for _, ac := range core.FieldAccesses(p.Helpers(a.Serve), func(f core.Field) bool { return f == a.RWork }) {
		if ac.Kind == "store" && beforeWorkers(p, a, ac.Instr, firstGo) && (ac.Fn == a.Serve || unconditionalIn(ac.Instr)) {
			if _, ok := ac.Instr.(*ssa.Store).Val.(*ssa.MakeMap); ok {
				fresh = true
			}
		}
	}
	r.Check(fresh, rule, core.FuncName(a.Serve), "fresh-registry-before-workers", p.Pos(a.Serve.Pos()), "every run starts with a new, empty group registry created before the first worker", "the group registry is not unconditionally re-created before the workers start: entries of the previous run would survive and their groups would never be scheduled again")
	// ... and the registry is never replaced while workers run: a work item that a worker is
	// executing is registered only there, a fresh map would let the next submission of its group
	// start a second work item beside it
	inServe := map[*ssa.Function]bool{}
	for _, h := range p.Helpers(a.Serve) {
		inServe[h] = true
	}
	nStores := 0
	for _, ac := range core.FieldAccesses(root, func(f core.Field) bool { return f == a.RWork }) {
		if ac.Kind != "store" {
			continue
		}
		nStores++
		st := ac.Instr.(*ssa.Store)
		okSite := inServe[ac.Fn] && beforeWorkers(p, a, ac.Instr, firstGo)
		if fa, isFA := st.Addr.(*ssa.FieldAddr); isFA && !okSite {
			if al, isAl := core.Strip(fa.X).(*ssa.Alloc); isAl && al.Heap {
				okSite = true // the constructor fills in the service it has just allocated
			}
		}
		if !okSite {
			r.Bad(rule, core.FuncName(ac.Fn), "registry-replaced-only-before-workers", p.InstrPos(ac.Instr), "the group registry is replaced while workers may be running: the work items they are executing are registered only in the old map, so the next submission for such a group creates a second work item and two callbacks of the group run at once")
		}
	}
	if nStores > 0 {
		r.OK(rule, core.FuncName(a.Serve), "registry-replaced-only-before-workers", p.Pos(a.Serve.Pos()), fmt.Sprintf("%d store(s) to the registry field, all before the workers start (or in the constructor)", nStores))
	}
}

// isFreshObject: v is a newly allocated object: an Alloc, or the result of a
// module function all of whose returns are newly allocated objects (a
// constructor helper such as newWork).
func isFreshObject(v ssa.Value, depth int) bool {
	if depth > 3 {
		return false
	}
	switch x := v.(type) {
	case *ssa.Alloc:
		return true
	case *ssa.Call:
		cal := x.Common().StaticCallee()
		if cal == nil || len(cal.Blocks) == 0 {
			return false
		}
		n := 0
		for _, ret := range core.Returns(cal) {
			if len(ret.Results) != 1 || !isFreshObject(ret.Results[0], depth+1) {
				return false
			}
			n++
		}
		return n > 0
	}
	return false
}

// inlineNeutral returns an Inline policy for typestate flows of the queue
// rules: same-package helpers are analysed in line, except the drain function
// and functions started elsewhere.
func inlineHelpers(a *svcAnchors, except ...*ssa.Function) func(*ssa.Function) bool {
	return func(cal *ssa.Function) bool {
		for _, x := range except {
			if cal == x {
				return false
			}
		}
		return cal.Pkg == a.Enqueue.Pkg
	}
}

// c01EnqueueUnit is rule A2 for an enqueue whose critical section is spread
// over private helpers: the same obligations (lookup keyed by the group; append
// to the looked-up item on the found edge inside the lookup's critical section;
// a new item pushed on the not-found edge and, for a non-empty group, registered
// in that critical section; the pushed item is the fresh, registered one),
// with values followed through helper parameters and results and the typestate
// run over the unit with the helpers analysed in place.
func c01EnqueueUnit(r *core.Run, a *svcAnchors, e *lockEngine, gparam *ssa.Parameter) {
	p := r.P
	fn := a.Enqueue
	fname := core.FuncName(fn)
	unit := p.Helpers(fn)
	inUnit := map[*ssa.Function]bool{}
	for _, h := range unit {
		inUnit[h] = true
	}
	// isGroup: v is the group id: the group parameter (through helper parameters) or the id field
	// of a work item (which is set from the group parameter where the item is created: checked below)
	var isGroup func(v ssa.Value, d int) bool
	isGroup = func(v ssa.Value, d int) bool {
		v = core.Strip(v)
		if v == ssa.Value(gparam) {
			return true
		}
		if f, ok := core.LoadedField(v); ok && f == a.WID {
			return true
		}
		if prm, ok := v.(*ssa.Parameter); ok && d < 4 && inUnit[prm.Parent()] && prm.Parent() != fn {
			// one level up: what the unit's call sites of this helper pass
			idx := -1
			for i, q := range prm.Parent().Params {
				if q == prm {
					idx = i
				}
			}
			n := 0
			for _, cs := range p.CallersOf(prm.Parent()) {
				if idx < 0 || idx >= len(cs.Common().Args) || !inUnit[core.Outermost(cs.Parent())] {
					return false
				}
				n++
				if !isGroup(cs.Common().Args[idx], d+1) {
					return false
				}
			}
			return n > 0
		}
		return false
	}
	// upTo resolves a helper parameter to the values the unit's call sites pass (one or more levels)
	var upTo func(v ssa.Value, d int) []ssa.Value
	upTo = func(v ssa.Value, d int) []ssa.Value {
		v = core.Strip(v)
		prm, ok := v.(*ssa.Parameter)
		if !ok || d > 4 || !inUnit[prm.Parent()] || prm.Parent() == fn {
			return []ssa.Value{v}
		}
		idx := -1
		for i, q := range prm.Parent().Params {
			if q == prm {
				idx = i
			}
		}
		var out []ssa.Value
		for _, cs := range p.CallersOf(prm.Parent()) {
			if idx >= 0 && idx < len(cs.Common().Args) {
				out = append(out, upTo(cs.Common().Args[idx], d+1)...)
			}
		}
		if len(out) == 0 {
			return []ssa.Value{v}
		}
		return out
	}
	// the item's id field is written from the group only
	for _, ac := range core.FieldAccesses(unit, func(f core.Field) bool { return f == a.WID }) {
		if ac.Kind == "store" {
			st := ac.Instr.(*ssa.Store)
			r.Check(isGroup(st.Val, 0) && !func() bool { f, ok := core.LoadedField(core.Strip(st.Val)); return ok && f == a.WID }(), "A2", fname, "item-id<-group-param", p.InstrPos(st), "a new work item's id is the group it was submitted for", "the work item's id is written from "+valDesc(st.Val)+", not from the group parameter")
		}
	}
	var lookup *ssa.Lookup
	nLook := 0
	for _, h := range unit {
		for _, b := range h.Blocks {
			for _, in := range b.Instrs {
				if lk, ok := in.(*ssa.Lookup); ok {
					if f, ok := core.LoadedField(lk.X); ok && f == a.RWork {
						lookup = lk
						nLook++
					}
				}
			}
		}
	}
	r.Check(nLook == 1 && lookup.CommaOk && isGroup(lookup.Index, 0), "A2", fname, "lookup-keyed-by-group-param", posOf(p, lookup), "one lookup, keyed by the group", "the registry lookup is not a single comma-ok lookup keyed by the group parameter")
	if lookup == nil {
		return
	}
	const (
		bLooked = 1
		bReg    = 2
		bGYes   = 4
		bGNo    = 8
	)
	fl := &core.Flow{Fn: fn, Entry: core.StateSet(0).Add(0), Tags: true, Inline: func(cal *ssa.Function) bool { return inUnit[cal] && cal != fn }}
	fl.Transfer = func(in ssa.Instruction, s int) core.StateSet {
		if e.isRelease(in) {
			if c, ok := in.(*ssa.Call); ok {
				if cal := c.Common().StaticCallee(); cal != nil && inUnit[cal] && e.lockOp(c) == "" {
					return core.StateSet(0).Add(s) // analysed in place
				}
			}
			return core.StateSet(0).Add(s &^ (bLooked | bReg))
		}
		switch x := in.(type) {
		case *ssa.Call:
			if e.lockOp(x) == "lock" {
				return core.StateSet(0).Add(s &^ (bLooked | bReg))
			}
		case *ssa.Lookup:
			if x == lookup {
				return core.StateSet(0).Add((s | bLooked) &^ bReg)
			}
		case *ssa.MapUpdate:
			if f, ok := core.LoadedField(x.Map); ok && f == a.RWork && isGroup(x.Key, 0) {
				return core.StateSet(0).Add(s | bReg)
			}
		}
		return core.StateSet(0).Add(s)
	}
	fl.BranchOn = func(cond ssa.Value, succ int, s int) (int, bool) {
		ci := core.Cond(cond)
		// the group test spelt with len(): len(wid) < 1, len(wid) > 0 ...
		if known, neTrue := emptinessFact(cond, func(v ssa.Value) bool { return isGroup(v, 0) }); known && ci.Kind != "constcmp" {
			if (succ == 0) == neTrue {
				if s&bGNo != 0 {
					return s, false
				}
				return s | bGYes, true
			}
			if s&bGYes != 0 {
				return s, false
			}
			return s | bGNo, true
		}
		if ci.Kind == "constcmp" && ci.Const != nil && ci.Const.ExactString() == `""` && (ci.Op == token.EQL || ci.Op == token.NEQ) && isGroup(ci.X, 0) {
			neOnTrue := ci.Op == token.NEQ
			if ci.Negate {
				neOnTrue = !neOnTrue
			}
			if (succ == 0) == neOnTrue {
				if s&bGNo != 0 {
					return s, false
				}
				return s | bGYes, true
			}
			if s&bGYes != 0 {
				return s, false
			}
			return s | bGNo, true
		}
		return s, true
	}
	fl.Branch = func(iff *ssa.If, succ int, s int) (int, bool) { return fl.BranchOn(iff.Cond, succ, s) }
	res := fl.Run()
	// found edge: a condition whose sources include the lookup's presence flag
	foundEdge := func(in ssa.Instruction) (found, onTrue bool) {
		for _, ed := range ctxEdges(p, in, fn, 0) {
			cnd, succ := ed.Norm()
			for _, lf := range valueLeaves(cnd, nil, 0) {
				if ex, ok := core.Strip(lf.V).(*ssa.Extract); ok && ex.Tuple == ssa.Value(lookup) && ex.Index == 1 {
					return true, succ == 0
				}
			}
		}
		return false, false
	}
	fromLookup := func(v ssa.Value) bool {
		for _, x := range upTo(v, 0) {
			for _, lf := range valueLeaves(x, nil, 0) {
				if ex, ok := core.Strip(lf.V).(*ssa.Extract); ok && ex.Tuple == ssa.Value(lookup) && ex.Index == 0 {
					return true
				}
			}
		}
		return false
	}
	nAppend, nPush := 0, 0
	for _, h := range unit {
		for _, b := range h.Blocks {
			for _, in := range b.Instrs {
				st, ok := in.(*ssa.Store)
				if !ok {
					continue
				}
				f, ok := core.FieldOf(st.Addr)
				if !ok {
					continue
				}
				call, isAppend := st.Val.(*ssa.Call)
				if isAppend && core.CalleeName(call) != "builtin:append" {
					isAppend = false
				}
				switch {
				case f == a.WQueue && !freshBase(st.Addr, st):
					nAppend++
					s := res.Before[st]
					allLooked := !s.Empty()
					for _, x := range s.List() {
						if x&bLooked == 0 {
							allLooked = false
						}
					}
					found, onTrue := foundEdge(st)
					base := st.Addr.(*ssa.FieldAddr).X
					r.Check(allLooked && fromLookup(base) && found && onTrue && isAppend, "A2", fname, "append-to-existing-item", p.InstrPos(st),
						"callback appended to the looked-up item in the lookup's critical section, on the found edge",
						fmt.Sprintf("append to a pending item is not tied to the lookup: looked=%v itemFromLookup=%v onFoundEdge=%v append=%v", allLooked, fromLookup(base), found && onTrue, isAppend))
					if isAppend {
						lf, ok := core.LoadedField(call.Call.Args[0])
						r.Check(ok && lf == a.WQueue, "A2", fname, "append-extends-same-queue", p.InstrPos(st), "append(load "+a.WQueue.String()+", cb)", "the stored slice is not an extension of the item's own queue")
					}
				case f == a.WorkQueue && isAppend:
					nPush++
					s := res.Before[st]
					good := !s.Empty()
					for _, x := range s.List() {
						switch {
						case x&bGNo != 0:
						case x&bLooked != 0 && x&bReg != 0:
						default:
							good = false
						}
					}
					found, onTrue := foundEdge(st)
					r.Check(good && found && !onTrue, "A2", fname, "register-before-push", p.InstrPos(st),
						"new item pushed on the not-found edge; for a non-empty group id it was registered after the lookup in the same critical section",
						fmt.Sprintf("a new work item can be pushed for a group without being registered in the lookup's critical section (states=%v, onNotFoundEdge=%v): two workers could run the same group", s.List(), found && !onTrue))
					var pushed ssa.Value
					if len(call.Call.Args) == 2 {
						pushed = elemOfVarargs(call.Call.Args[1])
					}
					isNew := pushed != nil
					if pushed != nil {
						for _, x := range upTo(pushed, 0) {
							if !isFreshObject(core.Strip(x), 0) {
								isNew = false
							}
						}
					}
					sameAsReg := true
					for _, h2 := range unit {
						for _, bb := range h2.Blocks {
							for _, i2 := range bb.Instrs {
								if mu, ok := i2.(*ssa.MapUpdate); ok {
									if mf, ok := core.LoadedField(mu.Map); ok && mf == a.RWork && mu.Value != pushed && !returnedBy(pushed, mu) {
										sameAsReg = false
									}
								}
							}
						}
					}
					r.Check(isNew && sameAsReg, "A2", fname, "pushed-item-is-the-registered-new-item", p.InstrPos(st), "pushed value is the freshly allocated item that was registered", "pushed value and registered value differ or the pushed item is not fresh")
				}
			}
		}
	}
	if nAppend == 0 {
		r.Bad("A2", fname, "append-to-existing-item", p.Pos(fn.Pos()), "no path appends the callback to a pending item of the group")
	}
	if nPush == 0 {
		r.Bad("A2", fname, "register-before-push", p.Pos(fn.Pos()), "no push of a new work item")
	}
}

// unconditionalIn: an instruction of a helper is executed on every path
// through the helper (it dominates all its normal returns); an instruction of
// any other function is taken as it is (the caller states its own dominance).
func unconditionalIn(in ssa.Instruction) bool {
	fn := in.Parent()
	n := 0
	for _, ret := range core.Returns(fn) {
		if fn.Recover != nil && ret.Block() == fn.Recover {
			continue
		}
		n++
		if !core.Dominates(in, ret) {
			return false
		}
	}
	return n > 0
}

// holdsValue: a is v, or a load of a local cell every store to which stores v
// (a variable assigned once and captured by a closure).
func holdsValue(a, v ssa.Value) bool {
	if a == nil || v == nil {
		return false
	}
	if a == v {
		return true
	}
	u, ok := a.(*ssa.UnOp)
	if !ok || u.Op != token.MUL {
		return false
	}
	al, ok := u.X.(*ssa.Alloc)
	if !ok || al.Referrers() == nil {
		return false
	}
	n := 0
	for _, rf := range *al.Referrers() {
		if st, ok := rf.(*ssa.Store); ok && st.Addr == ssa.Value(al) {
			n++
			if st.Val != v {
				return false
			}
		}
	}
	return n > 0
}

// resourceGroupField: the name of the resource member that the accessor
// Group() returns (resolved from the accessor, not assumed).
func resourceGroupField(v ssa.Value) string {
	in, ok := v.(ssa.Instruction)
	if !ok || in.Parent() == nil || in.Parent().Pkg == nil {
		return ""
	}
	pkg := in.Parent().Pkg
	for _, m := range pkg.Members {
		_ = m
	}
	prog := pkg.Prog
	tn, ok := pkg.Members["resource"].(*ssa.Type)
	if !ok {
		return ""
	}
	for _, recv := range []types.Type{tn.Type(), types.NewPointer(tn.Type())} {
		ms := prog.MethodSets.MethodSet(recv)
		for i := 0; i < ms.Len(); i++ {
			if ms.At(i).Obj().Name() != "Group" {
				continue
			}
			fn := prog.MethodValue(ms.At(i))
			if fn == nil {
				continue
			}
			for _, ret := range core.Returns(fn) {
				if f, ok := core.LoadedField(ret.Results[0]); ok && f.Struct == "resource" {
					return f.Name
				}
			}
		}
	}
	return ""
}

// isGroupToString: the method that evaluates a parsed group template, by role
// (a method on the group type with two parameters and a string result).
func isGroupToString(fn *ssa.Function) bool {
	if fn == nil || fn.Signature.Recv() == nil || core.TypeName(fn.Signature.Recv().Type()) != "group" {
		return false
	}
	res := fn.Signature.Results()
	if res.Len() != 1 || fn.Signature.Params().Len() != 2 {
		return false
	}
	b, ok := res.At(0).Type().Underlying().(*types.Basic)
	return ok && b.Kind() == types.String
}

// c01EnqueueNeverRunsCallback: the submitting function hands the callback to
// the group's queue and nothing else - it (and its helpers) never calls it. A
// "caller runs" path (queue full, service busy) executes the callback on the
// submitting goroutine, registered nowhere: a second submission for the same
// group finds no entry and runs beside it.
func c01EnqueueNeverRunsCallback(r *core.Run, rule string, a *svcAnchors) {
	p := r.P
	fn := a.Enqueue
	var cbs []*ssa.Parameter
	for _, prm := range fn.Params {
		if _, isSig := prm.Type().Underlying().(*types.Signature); isSig {
			cbs = append(cbs, prm)
		}
	}
	if len(cbs) == 0 {
		r.Unres(rule, core.FuncName(fn)+".<callback>", "the submitting function has no function-typed parameter")
		return
	}
	inUnit := map[*ssa.Function]bool{}
	for _, h := range p.Helpers(fn) {
		inUnit[h] = true
	}
	// isCb: the value is the callback parameter, also seen through a helper's parameter
	var isCb func(v ssa.Value, d int) bool
	isCb = func(v ssa.Value, d int) bool {
		v = core.Strip(v)
		for _, cb := range cbs {
			if v == ssa.Value(cb) {
				return true
			}
		}
		prm, ok := v.(*ssa.Parameter)
		if !ok || d > 3 || prm.Parent() == fn || !inUnit[prm.Parent()] {
			return false
		}
		idx := -1
		for i, q := range prm.Parent().Params {
			if q == prm {
				idx = i
			}
		}
		for _, cs := range p.CallersOf(prm.Parent()) {
			if idx >= 0 && idx < len(cs.Common().Args) && inUnit[core.Outermost(cs.Parent())] && isCb(cs.Common().Args[idx], d+1) {
				return true
			}
		}
		return false
	}
	bad := ""
	for _, h := range p.Helpers(fn) {
		if h.Parent() != nil {
			continue
		}
		for _, c := range core.Calls(h) {
			if c.Common().StaticCallee() != nil || c.Common().IsInvoke() {
				continue
			}
			if isCb(c.Common().Value, 0) {
				bad = p.InstrPos(c)
			}
		}
	}
	r.Check(bad == "", rule, core.FuncName(fn), "enqueue-never-calls-the-callback", p.Pos(fn.Pos()), "the callback is only stored into the group's queue", "the submitting function calls the callback itself (at "+bad+"): it runs on the submitting goroutine without the group being registered as busy, so another callback of the same group - submitted from another goroutine, or picked up by a worker - executes at the same time")
}

// returnedBy: pushed is the result of a call of the function that holds the
// map update, and that function returns the very value it registered (a
// constructor that registers the new item and hands it back).
func returnedBy(pushed ssa.Value, mu *ssa.MapUpdate) bool {
	c, ok := core.Strip(pushed).(*ssa.Call)
	if !ok || c.Common().StaticCallee() != mu.Parent() {
		return false
	}
	n := 0
	for _, ret := range core.Returns(mu.Parent()) {
		if len(ret.Results) != 1 || core.Strip(ret.Results[0]) != core.Strip(mu.Value) {
			return false
		}
		n++
	}
	return n > 0
}

// queryEventAbortHelper: fn is a private helper whose single call site lies in
// the exported QueryEvent method of the resource (the failed-subscribe step
// moved out of it); the call site is returned.
func queryEventAbortHelper(p *core.Prog, fn *ssa.Function) ssa.CallInstruction {
	if fn == nil || fn.Parent() != nil || !p.IsPrivateHelper(fn) {
		return nil
	}
	cs := p.CallersOf(fn)
	if len(cs) != 1 {
		return nil
	}
	par := cs[0].Parent()
	if par.Name() != "QueryEvent" || par.Parent() != nil || par.Signature.Recv() == nil || core.TypeName(par.Signature.Recv().Type()) != "resource" {
		return nil
	}
	return cs[0]
}
