// Package props holds one file per property with its rule instances.
package props

import (
	"resverif/core"
)

var registry = map[string]func(*core.Run){}

func register(id string, f func(*core.Run)) { registry[id] = f }

// Lookup returns the rule set of a property.
func Lookup(id string) func(*core.Run) { return registry[id] }

// IDs lists the registered properties.
func IDs() []string {
	var out []string
	for k := range registry {
		out = append(out, k)
	}
	return out
}
