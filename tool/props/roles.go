package props

import (
	"go/types"
	"strings"

	"golang.org/x/tools/go/ssa"

	"resverif/core"
)

// Role resolution of unexported identifiers: fields are found by their type
// or by the exported accessor / setter that reads / writes them, functions by
// what they do. Renaming an unexported identifier therefore never changes a
// verdict; if a role has zero or several candidates the rule reports an
// unresolved anchor.

func structType(p *core.Prog, rel, name string) (*types.Struct, bool) {
	n := p.NamedType(rel, name)
	if n == nil {
		return nil, false
	}
	st, ok := n.Underlying().(*types.Struct)
	return st, ok
}

// fieldByType returns the unique field of struct rel.name whose type satisfies pred.
func fieldByType(p *core.Prog, rel, name string, pred func(types.Type) bool) (core.Field, bool) {
	st, ok := structType(p, rel, name)
	if !ok {
		return core.Field{}, false
	}
	var hit []string
	for i := 0; i < st.NumFields(); i++ {
		if pred(st.Field(i).Type()) {
			hit = append(hit, st.Field(i).Name())
		}
	}
	if len(hit) != 1 {
		return core.Field{}, false
	}
	return core.Field{Struct: qual(rel, name), Name: hit[0]}, true
}

func typeIs(s string) func(types.Type) bool {
	return func(t types.Type) bool { return core.TypeName(t) == s || types.TypeString(t, nil) == s }
}

func ptrTo(s string) func(types.Type) bool {
	return func(t types.Type) bool {
		pt, ok := t.(*types.Pointer)
		return ok && core.TypeName(pt.Elem()) == s
	}
}

// accessorField: the field of the receiver that the exported zero-argument
// method returns.
func accessorField(p *core.Prog, rel, tname, method string) (core.Field, bool) {
	m := methodNamed(p, rel, tname, method)
	if m == nil {
		return core.Field{}, false
	}
	var out core.Field
	n := 0
	for _, ret := range core.Returns(m) {
		if len(ret.Results) == 0 {
			continue
		}
		if f, ok := core.LoadedField(ret.Results[0]); ok {
			out = f
			n++
		}
	}
	return out, n == 1
}

// setterField: the field of the receiver into which the exported method
// stores its idx-th parameter (0 = first after the receiver).
func setterField(p *core.Prog, rel, tname, method string, idx int) (core.Field, bool) {
	m := methodNamed(p, rel, tname, method)
	if m == nil || len(m.Params) <= idx+1 {
		return core.Field{}, false
	}
	prm := m.Params[idx+1]
	for _, b := range m.Blocks {
		for _, in := range b.Instrs {
			if st, ok := in.(*ssa.Store); ok && core.Strip(st.Val) == ssa.Value(prm) {
				if f, ok := core.FieldOf(st.Addr); ok {
					return f, true
				}
			}
		}
	}
	// the setter keeps a copy: the stored value is built from the parameter (append / copy / phi)
	for _, b := range m.Blocks {
		for _, in := range b.Instrs {
			if st, ok := in.(*ssa.Store); ok && builtFromParam(st.Val, prm, 0) {
				if f, ok := core.FieldOf(st.Addr); ok {
					return f, true
				}
			}
		}
	}
	// the setter hands the parameter to a private helper that stores it (several setters sharing
	// one: SetOwnedResources and SetReset both call setOwnership(resources, access))
	for _, c := range core.Calls(m) {
		cal := c.Common().StaticCallee()
		if cal == nil || len(cal.Blocks) == 0 || cal.Pkg != m.Pkg || cal.Object() == nil || cal.Object().Exported() {
			continue
		}
		for i, a := range c.Common().Args {
			if core.Strip(a) != ssa.Value(prm) || i >= len(cal.Params) {
				continue
			}
			hp := cal.Params[i]
			for _, b := range cal.Blocks {
				for _, in := range b.Instrs {
					if st, ok := in.(*ssa.Store); ok && (core.Strip(st.Val) == ssa.Value(hp) || builtFromParam(st.Val, hp, 0)) {
						if f, ok := core.FieldOf(st.Addr); ok {
							return f, true
						}
					}
				}
			}
		}
	}
	return core.Field{}, false
}

// builtFromParam: v is the parameter, or a slice assembled from it (append with
// the parameter as an operand, a buffer the parameter was copied into, a
// re-slice, a merge of such values).
func builtFromParam(v ssa.Value, prm *ssa.Parameter, d int) bool {
	if d > 5 {
		return false
	}
	v = core.Strip(v)
	switch x := v.(type) {
	case *ssa.Parameter:
		return x == prm
	case *ssa.Phi:
		for _, e := range x.Edges {
			if builtFromParam(e, prm, d+1) {
				return true
			}
		}
	case *ssa.Slice:
		return builtFromParam(x.X, prm, d+1)
	case *ssa.Call:
		if core.CalleeName(x) == "builtin:append" {
			for _, a := range x.Call.Args {
				if builtFromParam(a, prm, d+1) {
					return true
				}
			}
		}
	case *ssa.MakeSlice:
		if x.Referrers() != nil {
			for _, rf := range *x.Referrers() {
				if c, ok := rf.(*ssa.Call); ok && core.CalleeName(c) == "builtin:copy" && len(c.Call.Args) == 2 && c.Call.Args[0] == ssa.Value(x) && builtFromParam(c.Call.Args[1], prm, d+1) {
					return true
				}
			}
		}
	}
	return false
}

// funcsWhere returns the declared functions of a package satisfying pred.
func funcsWhere(p *core.Prog, rel string, pred func(*ssa.Function) bool) []*ssa.Function {
	var out []*ssa.Function
	for _, fn := range p.FuncsOfPkg(rel) {
		if fn.Parent() == nil && pred(fn) {
			out = append(out, fn)
		}
	}
	return out
}

// callsStatic reports whether fn (not its closures) calls a function for which pred holds.
func callsStatic(fn *ssa.Function, pred func(*ssa.Function) bool) bool {
	for _, c := range core.Calls(fn) {
		if cal := c.Common().StaticCallee(); cal != nil && pred(cal) {
			return true
		}
	}
	return false
}

func hasSuffixFn(s string) func(*ssa.Function) bool {
	return func(f *ssa.Function) bool { return strings.HasSuffix(f.String(), s) }
}
